INIT Init
NEXT Next
CONSTANTS Mode = "gen" Seed = 1 N = 40000 InFile = "x" OutFile = "bal_inputs.ndjson"
