SPECIFICATION Spec
CONSTANT TraceFile = "shard_trace.ndjson"
INVARIANTS Accepted Rejected
CHECK_DEADLOCK FALSE
