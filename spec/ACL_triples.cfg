INIT Init
NEXT Next
CONSTANTS Mode = "triples" NTriples = 30000 OutFile = "acl_cases.ndjson"
