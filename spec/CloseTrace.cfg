SPECIFICATION Spec
CONSTANT TraceFile = "close_trace.ndjson"
CONSTANT BoundMs = 240000
INVARIANTS Accepted Rejected
CHECK_DEADLOCK FALSE
