SPECIFICATION Spec
CONSTANTS N = 4 MaxOff = 2 MaxRetry = 2 Policy = "wait" UserCancel = FALSE
INVARIANTS ArrivalInIssueOrder LastWins OkWasHandled OneInFlight
PROPERTIES AllFinish
CHECK_DEADLOCK FALSE
