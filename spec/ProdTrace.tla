------------------------------ MODULE ProdTrace ------------------------------
(* Trace specification (binding V) for the producer side of the client:       *)
(* C01 (every promise exactly once, only for produced records, gauges zero     *)
(* and nothing stuck at quiescence, also after Close), C03 (buffering limits,  *)
(* Flush soundness) and the producer half of C14 (hook pairing, same error).   *)
(* Events come from the public surface (calls, returns, promises, hooks) and   *)
(* from verif hooks inside p.mu (prod.admit / block / unblock / finish), which  *)
(* carry the real counters; the spec keeps its own counters and every logged   *)
(* value must equal the spec's.  The admission protocol itself (all            *)
(* interleavings of blocked Produce, cancel, Flush, broadcasts) is checked at  *)
(* design level in Admit.tla.                                                  *)
EXTENDS Integers, Sequences, FiniteSets, TLC, Json
CONSTANT TraceFile
TraceLog == ndJsonDeserialize(TraceFile)
VARIABLES l, maxRecs, maxBytes, Called, HookBuf, HookUnbuf, Admitted, Blocked, Finished, Promised, Ret,
          buffered, blocked, snap, flushOpen, traces, callSeq, retSeq, ackAt, hazard
vars == <<l, maxRecs, maxBytes, Called, HookBuf, HookUnbuf, Admitted, Blocked, Finished, Promised, Ret, buffered, blocked, snap, flushOpen, traces, callSeq, retSeq, ackAt, hazard>>
Empty == [x \in {} |-> ""]
Fresh(mr, mb) == /\ maxRecs' = mr /\ maxBytes' = mb /\ Called' = {} /\ HookBuf' = {} /\ HookUnbuf' = Empty /\ Admitted' = {} /\ Blocked' = {}
                 /\ Finished' = {} /\ Promised' = Empty /\ Ret' = {} /\ buffered' = 0 /\ blocked' = 0 /\ snap' = [x \in {} |-> {}] /\ flushOpen' = {}
                 /\ callSeq' = [x \in {} |-> 0] /\ retSeq' = [x \in {} |-> 0] /\ ackAt' = [x \in {} |-> <<0, 0>>] /\ hazard' = FALSE
Init == /\ l = 1 /\ maxRecs = 0 /\ maxBytes = 0 /\ Called = {} /\ HookBuf = {} /\ HookUnbuf = Empty /\ Admitted = {} /\ Blocked = {}
        /\ Finished = {} /\ Promised = Empty /\ Ret = {} /\ buffered = 0 /\ blocked = 0 /\ snap = [x \in {} |-> {}] /\ flushOpen = {} /\ traces = 0
        /\ callSeq = [x \in {} |-> 0] /\ retSeq = [x \in {} |-> 0] /\ ackAt = [x \in {} |-> <<0, 0>>] /\ hazard = FALSE
Ev == TraceLog[l]
Put(f, k, v) == [x \in (DOMAIN f) \cup {k} |-> IF x = k THEN v ELSE f[x]]
Has(e, k) == k \in DOMAIN e
\* ---- what must hold for the event to be a step of the specification: <<condition, explanation>>
Checks(e) ==
  CASE e.ev = "call" -> << <<e.id \notin Called, "record produced twice (driver bug)">> >>
    [] e.ev = "hook_buffered" -> << <<e.id \in Called, "OnProduceRecordBuffered for a record that was not produced">>,
                                    <<e.id \notin HookBuf, "OnProduceRecordBuffered called twice for one record">> >>
    [] e.ev = "hook_unbuffered" -> << <<e.id \in HookBuf, "OnProduceRecordUnbuffered without OnProduceRecordBuffered">>,
                                      <<e.id \notin DOMAIN HookUnbuf, "OnProduceRecordUnbuffered called twice for one record">> >>
    [] e.ev = "prod.block" -> << <<e.id \in Called /\ e.id \notin Admitted /\ e.id \notin Blocked, "block of a record not being produced">>,
                                 <<e.blocked = blocked + 1 /\ e.buffered = buffered, "blocked/buffered counters differ from the specification">>,
                                 <<buffered >= maxRecs \/ maxBytes > 0, "Produce blocked although there was room">> >>
    [] e.ev = "prod.unblock" -> << <<e.id \in Blocked, "unblock of a record that was not blocked">>,
                                   <<e.blocked = blocked - 1 /\ e.buffered = buffered, "blocked/buffered counters differ from the specification">> >>
    [] e.ev = "prod.admit" -> << <<e.id \in Called /\ e.id \notin Admitted, "record admitted twice or never produced">>,
                                 <<e.buffered = buffered + 1, "bufferedRecords differs from the specification">>,
                                 <<buffered + 1 <= maxRecs, "more records accepted than MaxBufferedRecords">>,
                                 <<maxBytes = 0 \/ e.bytes <= maxBytes, "more bytes accepted than MaxBufferedBytes">> >>
    [] e.ev = "prod.finish" -> << <<e.id \in Admitted /\ e.id \notin Finished, "finish of a record that was not admitted, or twice">>,
                                  <<e.buffered = buffered - 1, "bufferedRecords differs from the specification">> >>
    [] e.ev = "promise" -> << <<e.id \in Called, "promise called for something that was never produced">>,
                              <<e.id \notin DOMAIN Promised, "promise called twice for one record">>,
                              <<e.id \in HookBuf => e.id \in DOMAIN HookUnbuf, "promise ran before OnProduceRecordUnbuffered">>,
                              <<e.id \in DOMAIN HookUnbuf => HookUnbuf[e.id] = e.err, "OnProduceRecordUnbuffered error differs from the promise's error">>,
                              <<(e.err = "ErrMaxBuffered") => e.id \notin Admitted, "ErrMaxBuffered for a record that had been accepted">> >>
    [] e.ev = "ret" -> << <<e.id \in Called, "return of an unknown call">> >>
    [] e.ev = "flush_ret" -> << <<e.f \in flushOpen, "Flush returned twice">>,
                                <<e.err = "" => snap[e.f] \subseteq DOMAIN Promised, "Flush returned nil before every record produced before it had its promise called">> >>
    [] e.ev = "quiesce" -> << <<Called = DOMAIN Promised, "a produced record never had its promise called">>,
                              <<HookBuf = DOMAIN HookUnbuf, "a buffered record was never passed to OnProduceRecordUnbuffered">>,
                              <<e.bufferedRecords = 0 /\ e.bufferedBytes = 0 /\ buffered = 0 /\ blocked = 0, "BufferedProduceRecords/Bytes not zero after all promises ran">>,
                              <<flushOpen = {}, "a Flush never returned although nothing is buffered">>,
                              <<Len(e.stuck) = 0, "a call never returned (Produce / Flush / Close blocked forever)">> >>
    [] e.ev = "log" /\ ~hazard ->
         LET E == e.entries                                   \* <<partition, offset, id>>
             At(id) == {i \in DOMAIN E : E[i][3] = id}
             Acked == DOMAIN ackAt
             \* client-initiated abandonment (Close, AbortBufferedRecords, purge) leaves the outcome of in-flight batches open by design
             Abandoned(err) == err \in {"ErrClientClosed", "ErrAborting", "err:topic purged while buffered"}
         IN << <<\A i, j \in DOMAIN E : (E[i][3] = E[j][3]) => i = j, "idempotent producing: a record appears twice in the log">>,
               <<\A id \in Acked : \E i \in At(id) : E[i][1] = ackAt[id][1] /\ E[i][2] = ackAt[id][2], "idempotent producing: an acknowledged record is not in the log at the offset given to its promise">>,
               <<\A a, b \in Acked : (ackAt[a][1] = ackAt[b][1] /\ a \in DOMAIN retSeq /\ b \in DOMAIN callSeq /\ retSeq[a] < callSeq[b]) => ackAt[a][2] < ackAt[b][2],
                 "idempotent producing: acknowledged records of one partition are not in produce order">>,
               <<\A id \in DOMAIN Promised : (Promised[id] # "" /\ ~Abandoned(Promised[id])) => At(id) = {}, "idempotent producing: a record whose promise reported an error is in the log">> >>
    [] e.ev = "final_flush" -> << <<(e.err = "" /\ e.buffered = 0) \/ (Admitted \subseteq DOMAIN Promised),
                                    "records are still buffered three (virtual) minutes after the last fault with healthy brokers: their promises never run and Flush does not return">>,
                                  <<(e.err = "" /\ e.buffered = 0) \/ ~(Admitted \subseteq DOMAIN Promised),
                                    "every promise has run but BufferedProduceRecords is not zero and Flush stays blocked although nothing is buffered">> >>
    [] e.ev \in {"close_stuck", "driver_failed"} -> << <<FALSE, "Close did not return / driver died">> >>
    [] OTHER -> <<>>
Ok(e) == \A i \in DOMAIN Checks(e) : Checks(e)[i][1]
\* every clause the event breaks, in order, joined by " ;; " (the pipeline attributes each to the property that states it)
RECURSIVE JoinBad(_, _)
JoinBad(C, i) == IF i > Len(C) THEN "" ELSE LET rest == JoinBad(C, i + 1) IN
                 IF C[i][1] THEN rest ELSE IF rest = "" THEN C[i][2] ELSE C[i][2] \o " ;; " \o rest
Why(e) == JoinBad(Checks(e), 1)
\* ---- state update
Apply(e) ==
  CASE e.ev = "reset" -> Fresh(e.maxRecs, e.maxBytes) /\ traces' = traces + 1
    [] e.ev = "call" -> Called' = Called \cup {e.id} /\ callSeq' = Put(callSeq, e.id, e.seq) /\ UNCHANGED <<maxRecs, maxBytes, HookBuf, HookUnbuf, Admitted, Blocked, Finished, Promised, Ret, buffered, blocked, snap, flushOpen, traces, retSeq, ackAt, hazard>>
    [] e.ev = "hook_buffered" -> HookBuf' = HookBuf \cup {e.id} /\ UNCHANGED <<maxRecs, maxBytes, Called, HookUnbuf, Admitted, Blocked, Finished, Promised, Ret, buffered, blocked, snap, flushOpen, traces, callSeq, retSeq, ackAt, hazard>>
    [] e.ev = "hook_unbuffered" -> HookUnbuf' = Put(HookUnbuf, e.id, e.err) /\ UNCHANGED <<maxRecs, maxBytes, Called, HookBuf, Admitted, Blocked, Finished, Promised, Ret, buffered, blocked, snap, flushOpen, traces, callSeq, retSeq, ackAt, hazard>>
    [] e.ev = "prod.block" -> Blocked' = Blocked \cup {e.id} /\ blocked' = blocked + 1 /\ UNCHANGED <<maxRecs, maxBytes, Called, HookBuf, HookUnbuf, Admitted, Finished, Promised, Ret, buffered, snap, flushOpen, traces, callSeq, retSeq, ackAt, hazard>>
    [] e.ev = "prod.unblock" -> Blocked' = Blocked \ {e.id} /\ blocked' = blocked - 1 /\ UNCHANGED <<maxRecs, maxBytes, Called, HookBuf, HookUnbuf, Admitted, Finished, Promised, Ret, buffered, snap, flushOpen, traces, callSeq, retSeq, ackAt, hazard>>
    [] e.ev = "prod.admit" -> Admitted' = Admitted \cup {e.id} /\ buffered' = buffered + 1 /\ UNCHANGED <<maxRecs, maxBytes, Called, HookBuf, HookUnbuf, Blocked, Finished, Promised, Ret, blocked, snap, flushOpen, traces, callSeq, retSeq, ackAt, hazard>>
    [] e.ev = "prod.finish" -> Finished' = Finished \cup {e.id} /\ buffered' = buffered - 1 /\ UNCHANGED <<maxRecs, maxBytes, Called, HookBuf, HookUnbuf, Admitted, Blocked, Promised, Ret, blocked, snap, flushOpen, traces, callSeq, retSeq, ackAt, hazard>>
    [] e.ev = "promise" -> Promised' = Put(Promised, e.id, e.err) /\ ackAt' = (IF e.err = "" THEN Put(ackAt, e.id, <<e.partition, e.offset>>) ELSE ackAt)
                           /\ UNCHANGED <<maxRecs, maxBytes, Called, HookBuf, HookUnbuf, Admitted, Blocked, Finished, Ret, buffered, blocked, snap, flushOpen, traces, callSeq, retSeq, hazard>>
    [] e.ev = "ret" -> Ret' = Ret \cup {e.id} /\ retSeq' = Put(retSeq, e.id, e.seq) /\ UNCHANGED <<maxRecs, maxBytes, Called, HookBuf, HookUnbuf, Admitted, Blocked, Finished, Promised, buffered, blocked, snap, flushOpen, traces, callSeq, ackAt, hazard>>
    [] e.ev = "flush_call" -> snap' = Put(snap, e.f, Ret \cap Admitted) /\ flushOpen' = flushOpen \cup {e.f}
                              /\ UNCHANGED <<maxRecs, maxBytes, Called, HookBuf, HookUnbuf, Admitted, Blocked, Finished, Promised, Ret, buffered, blocked, traces, callSeq, retSeq, ackAt, hazard>>
    [] e.ev = "flush_ret" -> flushOpen' = flushOpen \ {e.f} /\ UNCHANGED <<maxRecs, maxBytes, Called, HookBuf, HookUnbuf, Admitted, Blocked, Finished, Promised, Ret, buffered, blocked, snap, traces, callSeq, retSeq, ackAt, hazard>>
    \* PurgeTopicsFromProducing documents that records produced to the purged topic afterwards (including Produce calls still
    \* blocked at that moment) may be silently discarded by the broker: the log clauses do not apply to such a run
    [] e.ev = "purge" /\ e.topic = "t" -> hazard' = TRUE /\ UNCHANGED <<maxRecs, maxBytes, Called, HookBuf, HookUnbuf, Admitted, Blocked, Finished, Promised, Ret, buffered, blocked, snap, flushOpen, traces, callSeq, retSeq, ackAt>>
    [] OTHER -> UNCHANGED <<maxRecs, maxBytes, Called, HookBuf, HookUnbuf, Admitted, Blocked, Finished, Promised, Ret, buffered, blocked, snap, flushOpen, traces, callSeq, retSeq, ackAt, hazard>>
Next == l <= Len(TraceLog) /\ Ok(Ev) /\ Apply(Ev) /\ l' = l + 1
Spec == Init /\ [][Next]_vars
\* invariants evaluated in every state of every validated trace
Bound == buffered <= maxRecs \/ maxRecs = 0
CountersSane == buffered >= 0 /\ blocked >= 0 /\ blocked = Cardinality(Blocked) /\ buffered = Cardinality(Admitted \ Finished)
PromisedWereCalled == DOMAIN Promised \subseteq Called
Accepted == (l = Len(TraceLog) + 1) => PrintT(<<"ACCEPTED", Len(TraceLog), traces>>)
Rejected == (l <= Len(TraceLog) /\ ~Ok(Ev)) => PrintT(<<"REJECTED-AT", l, Why(Ev), ToJson(Ev)>>)
=============================================================================
