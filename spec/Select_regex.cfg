SPECIFICATION Spec
CONSTANTS Depth = 6 Mode = "regex"
INVARIANTS SelectedExist Emit
CHECK_DEADLOCK FALSE
