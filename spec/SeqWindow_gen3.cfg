SPECIFICATION Spec
CONSTANTS SeqMod = 16  Win = 5  MaxN = 2  Depth = 3
INVARIANTS NextIsSum WindowChained WindowBounded LastIsNext HwmExact Emit
CHECK_DEADLOCK FALSE
