------------------------------- MODULE Close -------------------------------
(* Design model of kgo's ordered shutdown (client.go close / CloseAllowingRebalance) — property C13.            *)
(* Components: a drain loop (sink), a fetch loop (source), the metadata loop, the group manage loop and one     *)
(* broker connection carrying in-flight requests. Brokers may answer, answer late, or never answer.             *)
(* Close = leave group (bounded by a timeout), kill sessions, cancel ctx, stop brokers (fails in-flight         *)
(* requests), wait for the metadata loop, fail what is still buffered.                                           *)
(* Safety: after Close returned, no loop is running, every record's promise was called exactly once.            *)
(* Liveness (fairness on client-side steps only, none on broker responses): Close returns.                      *)
EXTENDS Integers, FiniteSets, Sequences, TLC
CONSTANTS NRec, BlockRebalance, StopFailsInflight   \* StopFailsInflight = FALSE is the mutant design whose Close can hang
Loops == {"sink", "source", "meta", "group"}
VARIABLES lstate,     \* loop -> "idle" | "inflight" | "backoff" | "usercb" | "stopped"
          buffered,   \* records buffered, promise not yet called
          inreq,      \* records in the in-flight produce request
          promised,   \* record -> number of times its promise ran
          ctx,        \* "live" | "cancelled"
          pc,         \* close program counter
          pollHeld,   \* BlockRebalanceOnPoll: the user holds a poll (rebalance callbacks cannot run)
          allow,      \* Close variant: CloseAllowingRebalance
          gcancel     \* the group manage loop's context is cancelled (first step of leaving)
vars == <<lstate, buffered, inreq, promised, ctx, pc, pollHeld, allow, gcancel>>
Recs == 1..NRec
Init == /\ lstate = [x \in Loops |-> "idle"] /\ buffered = {} /\ inreq = {} /\ promised = [r \in Recs |-> 0]
        /\ ctx = "live" /\ pc = "run" /\ pollHeld = FALSE /\ allow \in BOOLEAN /\ gcancel = FALSE
(* ---- normal operation ---- *)
Produce(r) == pc = "run" /\ promised[r] = 0 /\ r \notin buffered \cup inreq /\ buffered' = buffered \cup {r}
              /\ UNCHANGED <<lstate, inreq, promised, ctx, pc, pollHeld, allow, gcancel>>
SinkSend == lstate["sink"] = "idle" /\ ctx = "live" /\ buffered # {} /\ inreq' = buffered /\ buffered' = {}
            /\ lstate' = [lstate EXCEPT !["sink"] = "inflight"] /\ UNCHANGED <<promised, ctx, pc, pollHeld, allow, gcancel>>
SinkResp(ok) ==                              \* broker answered (no fairness: brokers may be slow or gone)
            /\ lstate["sink"] = "inflight"
            /\ IF ok THEN promised' = [r \in Recs |-> IF r \in inreq THEN promised[r] + 1 ELSE promised[r]] /\ buffered' = buffered /\ lstate' = [lstate EXCEPT !["sink"] = "idle"]
                     ELSE promised' = promised /\ buffered' = buffered \cup inreq /\ lstate' = [lstate EXCEPT !["sink"] = "backoff"]
            /\ inreq' = {} /\ UNCHANGED <<ctx, pc, pollHeld, allow, gcancel>>
LoopReq(x) == x # "sink" /\ lstate[x] = "idle" /\ ctx = "live" /\ (x = "group" => ~gcancel) /\ lstate' = [lstate EXCEPT ![x] = "inflight"] /\ UNCHANGED <<buffered, inreq, promised, ctx, pc, pollHeld, allow, gcancel>>
LoopResp(x) == x # "sink" /\ lstate[x] = "inflight" /\ lstate' = [lstate EXCEPT ![x] = IF x = "group" THEN "usercb" ELSE "idle"] /\ UNCHANGED <<buffered, inreq, promised, ctx, pc, pollHeld, allow, gcancel>>
BackoffDone(x) == lstate[x] = "backoff" /\ lstate' = [lstate EXCEPT ![x] = "idle"] /\ UNCHANGED <<buffered, inreq, promised, ctx, pc, pollHeld, allow, gcancel>>
Poll == BlockRebalance /\ pc = "run" /\ ~pollHeld /\ pollHeld' = TRUE /\ UNCHANGED <<lstate, buffered, inreq, promised, ctx, pc, allow, gcancel>>
AllowReb == pollHeld /\ pc = "run" /\ pollHeld' = FALSE /\ UNCHANGED <<lstate, buffered, inreq, promised, ctx, pc, allow, gcancel>>
UserCbDone == lstate["group"] = "usercb" /\ ~pollHeld /\ lstate' = [lstate EXCEPT !["group"] = "idle"] /\ UNCHANGED <<buffered, inreq, promised, ctx, pc, pollHeld, allow, gcancel>>
(* ---- Close, one action per step of client.go close() ---- *)
CloseCall == pc = "run" /\ pc' = "leavestart" /\ pollHeld' = (IF allow THEN FALSE ELSE pollHeld) /\ UNCHANGED <<lstate, buffered, inreq, promised, ctx, allow, gcancel>>
(* the user contract: with rebalances blocked and a poll held, Close (not ...AllowingRebalance) is a misuse we do not model *)
Contract == ~(pollHeld /\ ~allow /\ pc # "run")
LeaveStart == pc = "leavestart" /\ gcancel' = TRUE /\ pc' = "leave" /\ UNCHANGED <<lstate, buffered, inreq, promised, ctx, pollHeld, allow>>
LeaveGroup == pc = "leave" /\ lstate["group"] \in {"idle", "inflight", "backoff", "stopped"}  \* a running user callback is waited for; the leave request itself has a timeout
              /\ lstate' = [lstate EXCEPT !["group"] = "stopped"] /\ pc' = "cancel" /\ UNCHANGED <<buffered, inreq, promised, ctx, pollHeld, allow, gcancel>>
Cancel == pc = "cancel" /\ ctx' = "cancelled" /\ pc' = "stopbrokers" /\ UNCHANGED <<lstate, buffered, inreq, promised, pollHeld, allow, gcancel>>
StopBrokers == pc = "stopbrokers"              \* die(): every in-flight request fails, its issuer continues
              /\ lstate' = [x \in Loops |-> IF lstate[x] = "inflight" /\ StopFailsInflight THEN "backoff" ELSE lstate[x]]
              /\ buffered' = (IF StopFailsInflight THEN buffered \cup inreq ELSE buffered) /\ inreq' = (IF StopFailsInflight THEN {} ELSE inreq) /\ pc' = "waitloops" /\ UNCHANGED <<promised, ctx, pollHeld, allow, gcancel>>
LoopExit(x) == ctx = "cancelled" /\ lstate[x] \in {"idle", "backoff"} /\ lstate' = [lstate EXCEPT ![x] = "stopped"] /\ UNCHANGED <<buffered, inreq, promised, ctx, pc, pollHeld, allow, gcancel>>
WaitLoops == pc = "waitloops" /\ \A x \in Loops : lstate[x] = "stopped" /\ pc' = "failbuffered" /\ UNCHANGED <<lstate, buffered, inreq, promised, ctx, pollHeld, allow, gcancel>>
FailBuffered == pc = "failbuffered" /\ promised' = [r \in Recs |-> IF r \in buffered THEN promised[r] + 1 ELSE promised[r]] /\ buffered' = {} /\ pc' = "closed"
              /\ UNCHANGED <<lstate, inreq, ctx, pollHeld, allow, gcancel>>
LateProduce(r) == pc = "closed" /\ promised[r] = 0 /\ r \notin buffered /\ promised' = [promised EXCEPT ![r] = 1]   \* fails immediately with ErrClientClosed
              /\ UNCHANGED <<lstate, buffered, inreq, ctx, pc, pollHeld, allow, gcancel>>
ClientSteps == SinkSend \/ (\E x \in Loops : LoopReq(x) \/ BackoffDone(x) \/ LoopExit(x)) \/ UserCbDone \/ LeaveStart \/ LeaveGroup \/ Cancel \/ StopBrokers \/ WaitLoops \/ FailBuffered
UserSteps == (\E r \in Recs : Produce(r) \/ LateProduce(r)) \/ Poll \/ AllowReb \/ CloseCall
BrokerSteps == (\E ok \in BOOLEAN : SinkResp(ok)) \/ (\E x \in Loops : LoopResp(x))
Next == (ClientSteps \/ UserSteps \/ BrokerSteps) /\ Contract'
Spec == Init /\ [][Next]_vars /\ WF_vars(LeaveStart) /\ WF_vars(LeaveGroup) /\ WF_vars(Cancel) /\ WF_vars(StopBrokers) /\ WF_vars(WaitLoops) /\ WF_vars(FailBuffered)
        /\ WF_vars(UserCbDone) /\ \A x \in Loops : WF_vars(LoopExit(x))
(* ---- properties ---- *)
TypeOK == lstate \in [Loops -> {"idle", "inflight", "backoff", "usercb", "stopped"}] /\ buffered \subseteq Recs /\ inreq \subseteq Recs
NothingRunning == pc = "closed" => \A x \in Loops : lstate[x] = "stopped"
PromisesCalled == pc = "closed" => buffered = {} /\ inreq = {}
AtMostOnce == \A r \in Recs : promised[r] <= 1
CloseReturns == (pc = "leavestart") ~> (pc = "closed")
EveryPromise == \A r \in Recs : (r \in buffered \cup inreq /\ pc # "run") ~> (promised[r] = 1)
=============================================================================
