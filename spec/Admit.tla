------------------------------ MODULE Admit ------------------------------
(* Prototype of the producer admission / blocked-Produce / cancel / Flush  *)
(* protocol of pkg/kgo/producer.go (produce, finishRecordPromise, Flush).  *)
(* One action per critical section of p.mu; cond.Wait and Broadcast are    *)
(* explicit. PostBroadcast is the broadcast after the cancel-path          *)
(* decrement (drainBuffered); BroadcastPerBatch is finishPromises' rule.   *)
EXTENDS Naturals, FiniteSets, TLC
CONSTANTS Recs, MaxRecs, Cancellable, PostBroadcast
VARIABLES mu,        \* "free" or the thread holding p.mu (a waiter goroutine keeps it for its caller)
          buffered, blocked, flushing,
          rpc,       \* per record: state of the Produce call
          quit,      \* per record: quit flag of the blocked waiter
          cancelled, \* per record: ctx cancelled
          qpc,       \* per record: quit goroutine
          waiting,   \* threads parked in p.c.Wait()
          woken,     \* threads woken by Broadcast, must re-acquire mu and re-check
          fpc,       \* flush caller: "idle" | "check" | "parked" | "done"
          wflag,     \* promise worker: broadcast flag of the batch being finished
          promised,
          pre        \* ghost: records admitted (Produce returned, record buffered) before Flush began
vars == <<mu, buffered, blocked, flushing, rpc, quit, cancelled, qpc, waiting, woken, fpc, wflag, promised, pre>>
F == "flush"
Over == buffered >= MaxRecs
Init == /\ mu = "free" /\ buffered = 0 /\ blocked = 0 /\ flushing = 0
        /\ rpc = [r \in Recs |-> "new"] /\ quit = [r \in Recs |-> FALSE] /\ cancelled = [r \in Recs |-> FALSE]
        /\ qpc = [r \in Recs |-> "none"] /\ waiting = {} /\ woken = {} /\ fpc = "idle"
        /\ wflag = FALSE /\ promised = {} /\ pre = {}
Broadcast == woken' = woken \cup waiting /\ waiting' = {}

(* ---- Produce(r) ---- *)
Admit(r) == /\ rpc[r] = "new" /\ mu = "free"                 \* lock; check; unlock
            /\ IF Over THEN /\ blocked' = blocked + 1 /\ rpc' = [rpc EXCEPT ![r] = "w_check"] /\ UNCHANGED buffered
                       ELSE /\ buffered' = buffered + 1 /\ rpc' = [rpc EXCEPT ![r] = "buffered"] /\ UNCHANGED blocked
            /\ UNCHANGED <<mu, flushing, quit, cancelled, qpc, waiting, woken, fpc, wflag, promised, pre>>
\* waiter goroutine: lock; for !quit && over { Wait }; blocked--; close(wait) -- keeps mu locked
WaiterCheck(r) == /\ rpc[r] = "w_check" /\ mu = "free"
                  /\ IF ~quit[r] /\ Over
                       THEN /\ waiting' = waiting \cup {r} /\ rpc' = [rpc EXCEPT ![r] = "w_parked"]
                            /\ UNCHANGED <<mu, blocked>>
                       ELSE /\ blocked' = blocked - 1 /\ mu' = r     \* mutex stays held for the caller
                            /\ rpc' = [rpc EXCEPT ![r] = "wait_closed"] /\ UNCHANGED waiting
                  /\ UNCHANGED <<buffered, flushing, quit, cancelled, qpc, woken, fpc, wflag, promised, pre>>
WaiterWake(r) == /\ rpc[r] = "w_parked" /\ r \in woken /\ woken' = woken \ {r}
                 /\ rpc' = [rpc EXCEPT ![r] = "w_check"]
                 /\ UNCHANGED <<mu, buffered, blocked, flushing, quit, cancelled, qpc, waiting, fpc, wflag, promised, pre>>
\* select { case <-wait: ... }
SelectWait(r) == /\ rpc[r] = "wait_closed" /\ mu = r /\ qpc[r] = "none"   \* the select has not taken the ctx arm
                 /\ buffered' = buffered + 1 /\ mu' = "free" /\ rpc' = [rpc EXCEPT ![r] = "buffered"]
                 /\ UNCHANGED <<blocked, flushing, quit, cancelled, qpc, waiting, woken, fpc, wflag, promised, pre>>
CancelCtx(r) == /\ r \in Cancellable /\ ~cancelled[r] /\ rpc[r] \in {"w_check", "w_parked", "wait_closed"}
                /\ cancelled' = [cancelled EXCEPT ![r] = TRUE]
                /\ UNCHANGED <<mu, buffered, blocked, flushing, rpc, quit, qpc, waiting, woken, fpc, wflag, promised, pre>>
\* select { case <-ctx.Done(): drainBuffered } : spawn quit goroutine, then <-wait
SelectCtx(r) == /\ cancelled[r] /\ rpc[r] \in {"w_check", "w_parked", "wait_closed"} /\ qpc[r] = "none"
                /\ qpc' = [qpc EXCEPT ![r] = "lock"]
                /\ UNCHANGED <<mu, buffered, blocked, flushing, rpc, quit, cancelled, waiting, woken, fpc, wflag, promised, pre>>
QuitSet(r) == /\ qpc[r] = "lock" /\ mu = "free"              \* lock; quit = true; unlock
              /\ quit' = [quit EXCEPT ![r] = TRUE] /\ qpc' = [qpc EXCEPT ![r] = "bcast"]
              /\ UNCHANGED <<mu, buffered, blocked, flushing, rpc, cancelled, waiting, woken, fpc, wflag, promised, pre>>
QuitBroadcast(r) == /\ qpc[r] = "bcast" /\ Broadcast /\ qpc' = [qpc EXCEPT ![r] = "done"]
                    /\ UNCHANGED <<mu, buffered, blocked, flushing, rpc, quit, cancelled, fpc, wflag, promised, pre>>
\* drainBuffered after <-wait: p.mu.Unlock(); [Broadcast]; promiseRecordBeforeBuf
DrainUnlock(r) == /\ rpc[r] = "wait_closed" /\ mu = r /\ qpc[r] # "none"
                  /\ mu' = "free" /\ rpc' = [rpc EXCEPT ![r] = IF PostBroadcast THEN "post_bcast" ELSE "failed"]
                  /\ promised' = IF PostBroadcast THEN promised ELSE promised \cup {r}
                  /\ UNCHANGED <<buffered, blocked, flushing, quit, cancelled, qpc, waiting, woken, fpc, wflag, pre>>
DrainBroadcast(r) == /\ rpc[r] = "post_bcast" /\ Broadcast
                     /\ rpc' = [rpc EXCEPT ![r] = "failed"] /\ promised' = promised \cup {r}
                     /\ UNCHANGED <<mu, buffered, blocked, flushing, quit, cancelled, qpc, fpc, wflag, pre>>
(* ---- promise worker: one batch per buffered record ---- *)
Finish(r) == /\ rpc[r] = "buffered" /\ mu = "free"           \* finishRecordPromise: promise; lock; dec; flag; unlock
             /\ buffered' = buffered - 1 /\ promised' = promised \cup {r}
             /\ wflag' = (blocked > 0 \/ (buffered - 1 = 0 /\ flushing > 0))
             /\ rpc' = [rpc EXCEPT ![r] = "fin_bcast"]
             /\ UNCHANGED <<mu, blocked, flushing, quit, cancelled, qpc, waiting, woken, fpc, pre>>
FinishBroadcast(r) == /\ rpc[r] = "fin_bcast"
                      /\ IF wflag THEN Broadcast ELSE UNCHANGED <<waiting, woken>>
                      /\ rpc' = [rpc EXCEPT ![r] = "done"] /\ wflag' = FALSE
                      /\ UNCHANGED <<mu, buffered, blocked, flushing, quit, cancelled, qpc, fpc, promised, pre>>
(* ---- Flush ---- *)
FlushBegin == /\ fpc = "idle" /\ flushing' = flushing + 1 /\ fpc' = "check"
              /\ pre' = {r \in Recs : rpc[r] \in {"buffered", "fin_bcast", "done"}}  \* admitted before Flush began
              /\ UNCHANGED <<mu, buffered, blocked, rpc, quit, cancelled, qpc, waiting, woken, wflag, promised>>
FlushCheck == /\ fpc = "check" /\ mu = "free"
              /\ IF buffered + blocked > 0 THEN waiting' = waiting \cup {F} /\ fpc' = "parked" /\ UNCHANGED flushing
                                           ELSE fpc' = "done" /\ flushing' = flushing - 1 /\ UNCHANGED waiting
              /\ UNCHANGED <<mu, buffered, blocked, rpc, quit, cancelled, qpc, woken, wflag, promised, pre>>
FlushWake == /\ fpc = "parked" /\ F \in woken /\ woken' = woken \ {F} /\ fpc' = "check"
             /\ UNCHANGED <<mu, buffered, blocked, flushing, rpc, quit, cancelled, qpc, waiting, wflag, promised, pre>>
Next == \/ \E r \in Recs : \/ Admit(r) \/ WaiterCheck(r) \/ WaiterWake(r) \/ SelectWait(r) \/ CancelCtx(r)
                           \/ SelectCtx(r) \/ QuitSet(r) \/ QuitBroadcast(r) \/ DrainUnlock(r) \/ DrainBroadcast(r)
                           \/ Finish(r) \/ FinishBroadcast(r)
        \/ FlushBegin \/ FlushCheck \/ FlushWake
\* fairness on everything except the environment choice CancelCtx and the select's choice of the ctx arm
Fair == /\ \A r \in Recs : /\ WF_vars(Admit(r)) /\ WF_vars(WaiterCheck(r)) /\ WF_vars(WaiterWake(r))
                           /\ WF_vars(SelectWait(r) \/ DrainUnlock(r)) /\ WF_vars(QuitSet(r)) /\ WF_vars(QuitBroadcast(r))
                           /\ WF_vars(DrainBroadcast(r)) /\ WF_vars(Finish(r)) /\ WF_vars(FinishBroadcast(r))
        /\ WF_vars(FlushBegin) /\ WF_vars(FlushCheck) /\ WF_vars(FlushWake)
Spec == Init /\ [][Next]_vars /\ Fair

Bound == buffered <= MaxRecs
GaugeExact == buffered = Cardinality({r \in Recs : rpc[r] = "buffered"})
BlockedExact == blocked = Cardinality({r \in Recs : rpc[r] \in {"w_check", "w_parked"}})
FlushSound == fpc = "done" => pre \subseteq promised
AllPromised == <>(\A r \in Recs : r \in promised)
FlushReturns == (fpc = "check") ~> (fpc = "done")
=============================================================================
