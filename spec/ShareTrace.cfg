SPECIFICATION Spec
CONSTANT TraceFile = "share_trace.ndjson"
INVARIANTS Accepted Rejected
CHECK_DEADLOCK FALSE
