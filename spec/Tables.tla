------------------------------- MODULE Tables -------------------------------
(* C24 (binding O2): the runner dumps, through the public APIs, the error     *)
(* table for all 65536 int16 codes, the request/response tables for all int16 *)
(* keys and every named kversion release; TLC evaluates the consistency       *)
(* predicates of the property on every row and writes the offending rows.     *)
EXTENDS Integers, Sequences, FiniteSets, TLC, Json
CONSTANTS InFile, OutFile, MinKnownMaxCode, MinKnownMaxKey
Rows == ndJsonDeserialize(InFile)
ErrRows == SelectSeq(Rows, LAMBDA r : r.kind = "err")
KeyRows == SelectSeq(Rows, LAMBDA r : r.kind = "key")
VerRows == SelectSeq(Rows, LAMBDA r : r.kind = "ver")
\* Kafka's error codes are the contiguous range -1..MaxCode; MaxCode is read off the table itself
Self == {ErrRows[i].code : i \in {j \in 1..Len(ErrRows) : ErrRows[j].ecode = ErrRows[j].code /\ ~ErrRows[j].isnil}}
MaxCode == CHOOSE c \in Self : \A d \in Self : d <= c
ErrOK(r) == IF r.code = 0 THEN r.isnil
            ELSE IF r.code >= -1 /\ r.code <= MaxCode THEN ~r.isnil /\ r.ecode = r.code /\ r.named     \* every Kafka code carries itself
            ELSE ~r.isnil /\ r.ecode = -1                                                            \* unknown |-> UNKNOWN_SERVER_ERROR
MaxKeyDumped == LET K == {KeyRows[i].key : i \in {j \in 1..Len(KeyRows) : KeyRows[j].hasReq}} IN CHOOSE k \in K : \A d \in K : d <= k
KeyOK(r) == /\ r.hasReq = r.hasResp
            /\ r.hasReq => /\ r.reqKey = r.key /\ r.respKey = r.key
                           /\ r.reqMax = r.respMax /\ r.reqMin = r.respMin /\ r.reqMax >= 0
                           /\ r.reqName = r.respName /\ r.reqName = r.name
                           /\ r.respOfReqKey = r.key /\ r.respOfReqMax = r.reqMax
            /\ (r.key >= 0 /\ r.key <= MaxKeyDumped) => r.hasReq          \* keys are contiguous from 0
            /\ (r.key < 0 \/ r.key > MaxKeyDumped) => (~r.hasReq /\ r.name = "Unknown")
VerOK(r) == r.codecMax >= 0 /\ r.max <= r.codecMax /\ r.max >= 0
Bad == [i \in {j \in 1..Len(Rows) : LET r == Rows[j] IN
                   ~(IF r.kind = "err" THEN ErrOK(r) ELSE IF r.kind = "key" THEN KeyOK(r) ELSE VerOK(r))} |-> Rows[i]]
BadSeq == [k \in 1..Cardinality(DOMAIN Bad) |-> Bad[CHOOSE i \in DOMAIN Bad : Cardinality({j \in DOMAIN Bad : j < i}) = k - 1]]
ASSUME PrintT(<<"rows", Len(Rows), "err", Len(ErrRows), "key", Len(KeyRows), "ver", Len(VerRows), "maxcode", MaxCode, "maxkey", MaxKeyDumped>>)
ASSUME MaxCode >= MinKnownMaxCode /\ MaxKeyDumped >= MinKnownMaxKey   \* guards against a vacuous table
ASSUME ndJsonSerialize(OutFile, BadSeq)
VARIABLE x
Init == x = 0
Next == x' = x
=============================================================================
