SPECIFICATION Spec
CONSTANT TraceFile = "prod_trace.ndjson"
INVARIANTS Bound CountersSane PromisedWereCalled Accepted Rejected
CHECK_DEADLOCK FALSE
