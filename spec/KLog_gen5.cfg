SPECIFICATION Spec
CONSTANTS Pids = {1, 2} MaxBatches = 5 MaxRecs = 2 MaxCompact = 1 EmitAt = 4
INVARIANTS Emit
CHECK_DEADLOCK FALSE
