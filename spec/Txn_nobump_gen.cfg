CONSTANTS MaxTxn = 3 MaxRec = 3 MaxFaults = 2 AbortAttempted = TRUE Reload = TRUE Bump = FALSE OnePerRequest = TRUE Driver = TRUE
SPECIFICATION Spec
INVARIANTS Emit
CHECK_DEADLOCK FALSE
