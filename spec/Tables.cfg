INIT Init
NEXT Next
CONSTANTS InFile = "tables_dump.ndjson" OutFile = "tables_bad.ndjson" MinKnownMaxCode = 110 MinKnownMaxKey = 80
