SPECIFICATION Spec
CONSTANTS MaxEntries = 3 SyncBeforeRename = TRUE
INVARIANTS RecoveredContainsAcked OffsetsContiguous AckOnlyDurable
CHECK_DEADLOCK FALSE
