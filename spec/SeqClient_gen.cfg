CONSTANTS SeqMod = 32 MaxN = 3 MaxInflight = 1 MaxBatches = 3 MaxFaults = 2 Starts = {27, 29, 30, 31} GuardedRewind = FALSE Sequential = TRUE
SPECIFICATION Spec
INVARIANTS Emit
CHECK_DEADLOCK FALSE
