------------------------------- MODULE Formatter -------------------------------
(* C20: the size-prefixed layout grammar of kgo.RecordFormatter / kgo.RecordReader and the read-back contract.         *)
(* A layout is a sequence of fields; a field is                                                                           *)
(*   a text field  (topic t, key k, value v): a size number (verb T / K / V) in some number format, then the data in a     *)
(*                 text encoding (plain, hex, base64); the size counts the ENCODED bytes;                                  *)
(*   a number field (partition p, offset o, leader epoch e, timestamp d in ms, producer id x, producer epoch y);           *)
(*   the header field: number of headers H, then per header key and value as sized plain text.                             *)
(* Number formats: fixed width (hexN, bigN, littleN, byte) or ascii digits, which are only delimited if a non-digit         *)
(* literal follows; so the grammar puts a literal separator after every ascii number.                                       *)
(* Contract: reading a stream written with the same layout gives back, record by record, every field the layout            *)
(* mentions (values must fit the width of their format; negative values only in 64-bit two's complement formats),           *)
(* then io.EOF; a stream cut inside a record gives an error that is not io.EOF.                                             *)
(* The reader as a state machine: position in the layout x bytes left; EOF is legal only at position 0 with 0 bytes left.  *)
EXTENDS Integers, Sequences, SequencesExt, FiniteSets, TLC, Json
CONSTANTS MaxFields, NumFmts, OutFile
TextVerbs == {"t", "k", "v"}
NumVerbs == {"p", "o", "e", "d", "x", "y"}
Encs == {"plain", "hex", "base64"}
Upper(v) == CASE v = "t" -> "T" [] v = "k" -> "K" [] v = "v" -> "V"
Num(verb, fmt, sep) == "%" \o verb \o "{" \o fmt \o "}" \o (IF fmt = "ascii" THEN sep ELSE "")
TextField(v, fmt, enc) == Num(Upper(v), fmt, ":") \o "%" \o v \o (IF enc = "plain" THEN "" ELSE "{" \o enc \o "}")
HeaderField(fmt) == Num("H", fmt, ":") \o "%h{" \o Num("K", fmt, ":") \o "%k" \o Num("V", fmt, ":") \o "%v}"
Tokens == {[verb |-> v, fmt |-> f, enc |-> e, str |-> TextField(v, f, e)] : v \in TextVerbs, f \in NumFmts, e \in Encs}
     \cup {[verb |-> v, fmt |-> f, enc |-> "", str |-> Num(v, f, ";")] : v \in NumVerbs, f \in NumFmts}
     \cup {[verb |-> "h", fmt |-> f, enc |-> "", str |-> HeaderField(f)] : f \in NumFmts}
DistinctVerbs(s) == \A i, j \in DOMAIN s : i # j => s[i].verb # s[j].verb
Layouts == UNION {{s \in [1..n -> Tokens] : DistinctVerbs(s)} : n \in 1..MaxFields}
RECURSIVE Concat(_, _)
Concat(s, i) == IF i > Len(s) THEN "" ELSE s[i].str \o Concat(s, i + 1)
Case(s) == [layout |-> Concat(s, 1), fields |-> [i \in 1..Len(s) |-> [verb |-> s[i].verb, fmt |-> s[i].fmt, enc |-> s[i].enc]]]
(* reader state machine: EOF is accepted only between records *)
ReaderStates(n) == {[pos |-> p, left |-> l] : p \in 0..n, l \in {"none", "some"}}
EofLegal(st) == st.pos = 0 /\ st.left = "none"
ASSUME \A n \in 1..3 : \A st \in ReaderStates(n) : EofLegal(st) <=> (st.pos = 0 /\ st.left = "none")
ASSUME ndJsonSerialize(OutFile, SetToSeq({Case(s) : s \in Layouts}))
VARIABLE x
Init == x = 0
Next == UNCHANGED x
=============================================================================
