SPECIFICATION Spec
CONSTANTS Members = {m1, m2, m3} Parts = {p1, p2, p3} MaxChanges = 3
INVARIANTS NoDoubleOwner AllOwnedOnce TwoRounds
PROPERTY Converges
CHECK_DEADLOCK FALSE
