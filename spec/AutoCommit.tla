------------------------------- MODULE AutoCommit -------------------------------
(* Default autocommit of a consumer group on one partition (consumer_group.go: uncommitted {dirty, head, committed},      *)
(* updateUncommitted at the end of a poll, undirtyUncommitted at the start of the next, loopCommit and defaultRevoke     *)
(* committing head only), property C08.                                                                                   *)
(* The log holds offsets 0..MaxLog-1. At most one member owns the partition. An owner starts at the offset stored for    *)
(* the group, polls (a poll returns the next 1..MaxTake records and sets dirty behind them), and at the start of its     *)
(* next poll promotes dirty to head. An autocommit tick and the default revoke callback send head to the coordinator;    *)
(* a commit may still be on its way when the partition is revoked and given to the other member, and is stored when it   *)
(* arrives (the generation check of the coordinator is left out: a cooperative member keeps its generation across a      *)
(* revocation, so this is the weakest broker). Members may also be killed without committing.                            *)
(* CommitDirty = TRUE is the mutant that commits dirty (what was handed out) instead of head.                            *)
EXTENDS Integers, FiniteSets, TLC
CONSTANTS Members, MaxLog, MaxTake, MaxLives, CommitDirty
VARIABLES owner,     \* the member that owns the partition, or "none"
          pos,       \* pos[m]: next offset m will fetch
          dirty,     \* dirty[m]: offset behind the last record m handed out (-1: nothing to commit)
          head,      \* head[m]: dirty as it was when m's latest poll started
          inflight,  \* set of offsets travelling to the coordinator
          stored,    \* offset stored for the group (0 at the start)
          last,      \* last[m]: offsets returned by m's latest poll, not yet followed by another poll
          returned,  \* offsets returned to some member
          finished,  \* offsets returned by a member that then started another poll
          lives      \* number of assignments so far (bounds the model)
vars == <<owner, pos, dirty, head, inflight, stored, last, returned, finished, lives>>
Init == /\ owner = "none" /\ pos = [m \in Members |-> 0] /\ dirty = [m \in Members |-> -1] /\ head = [m \in Members |-> -1]
        /\ inflight = {} /\ stored = 0 /\ last = [m \in Members |-> {}] /\ returned = {} /\ finished = {} /\ lives = 0
Assign(m) == /\ owner = "none" /\ lives < MaxLives
             /\ owner' = m /\ lives' = lives + 1
             /\ pos' = [pos EXCEPT ![m] = stored] /\ dirty' = [dirty EXCEPT ![m] = -1] /\ head' = [head EXCEPT ![m] = -1]
             /\ UNCHANGED <<inflight, stored, last, returned, finished>>
(* a poll starts: what the previous poll returned counts as processed; dirty becomes head (also for a member that lost the partition: nothing to promote then) *)
PollStart(m) == /\ finished' = finished \cup last[m] /\ last' = [last EXCEPT ![m] = {}]
                /\ head' = [head EXCEPT ![m] = dirty[m]]
                /\ (last[m] # {} \/ head[m] # dirty[m])
                /\ UNCHANGED <<owner, pos, dirty, inflight, stored, returned, lives>>
(* a poll returns records: only from a partition the member owns, and only after the start of that poll (last[m] = {}) *)
PollReturn(m) == /\ owner = m /\ last[m] = {} /\ head[m] = dirty[m]
                 /\ \E n \in 1..MaxTake :
                      /\ pos[m] + n <= MaxLog
                      /\ last' = [last EXCEPT ![m] = pos[m]..(pos[m] + n - 1)]
                      /\ returned' = returned \cup (pos[m]..(pos[m] + n - 1))
                      /\ pos' = [pos EXCEPT ![m] = @ + n] /\ dirty' = [dirty EXCEPT ![m] = pos[m] + n]
                 /\ UNCHANGED <<owner, head, inflight, stored, finished, lives>>
ToCommit(m) == IF CommitDirty THEN dirty[m] ELSE head[m]
Tick(m) == /\ owner = m /\ ToCommit(m) >= 0 /\ ToCommit(m) \notin inflight
           /\ inflight' = inflight \cup {ToCommit(m)}
           /\ UNCHANGED <<owner, pos, dirty, head, stored, last, returned, finished, lives>>
Arrive(o) == /\ o \in inflight /\ inflight' = inflight \ {o} /\ stored' = o
             /\ UNCHANGED <<owner, pos, dirty, head, last, returned, finished, lives>>
(* default revoke: head is committed synchronously (it arrives before the partition is given away), then the partition is forgotten *)
Revoke(m) == /\ owner = m /\ owner' = "none"
             /\ stored' = IF ToCommit(m) >= 0 THEN ToCommit(m) ELSE stored
             /\ dirty' = [dirty EXCEPT ![m] = -1] /\ head' = [head EXCEPT ![m] = -1]
             /\ UNCHANGED <<pos, inflight, last, returned, finished, lives>>
(* the member dies: nothing is committed; what its latest poll returned is never followed by another poll *)
Kill(m) == /\ owner = m /\ owner' = "none"
           /\ dirty' = [dirty EXCEPT ![m] = -1] /\ head' = [head EXCEPT ![m] = -1] /\ last' = [last EXCEPT ![m] = {}]
           /\ UNCHANGED <<pos, inflight, stored, returned, finished, lives>>
Next == (\E m \in Members : Assign(m) \/ PollStart(m) \/ PollReturn(m) \/ Tick(m) \/ Revoke(m) \/ Kill(m)) \/ (\E o \in 0..MaxLog : Arrive(o))
Spec == Init /\ [][Next]_vars
(* C08, first sentence: whatever is committed or about to be covers only records that were returned and followed by another poll *)
CommitCoversFinishedOnly == \A o \in inflight \cup {stored} : \A r \in 0..(o - 1) : r \in finished
(* C08, second sentence: every record below the committed offset was returned to some member *)
NoSkip == \A r \in 0..(stored - 1) : r \in returned
(* the client-side view never runs ahead of what was handed out *)
HeadBehindDirty == \A m \in Members : head[m] <= dirty[m] \/ dirty[m] = -1
=============================================================================
