------------------------------- MODULE ProduceEncTrace -------------------------------
(* Binding V for C18: every Produce frame captured from the real client (decoded by the harness's independent decoder)  *)
(* is checked against the layout of ProduceLayout.tla and the configured limits:                                         *)
(*   size on the wire = Actual(version, client id, transactional id, topics/partitions/batch lengths);                   *)
(*   size <= BrokerMaxWriteBytes; every batch <= ProducerBatchMaxBytes;                                                   *)
(*   and the client's own accounting for that request is not below the actual size (Accounted >= Actual).                *)
EXTENDS ProduceLayout, Json
CONSTANT TraceFile
Rows == ndJsonDeserialize(TraceFile)
TopicsOf(r) == [i \in 1..Len(r.topics) |-> [name |-> r.topics[i].name, parts |-> r.topics[i].parts]]
Bad(r) == LET ts == TopicsOf(r) act == Actual(r.version, r.clientId, r.txnId, ts) IN
  IF act # r.size THEN "layout: the frame is not as long as the protocol layout of its content"
  ELSE IF r.size > r.limit THEN "a written produce request exceeds BrokerMaxWriteBytes"
  ELSE IF \E i \in 1..Len(ts) : \E k \in 1..Len(ts[i].parts) : ts[i].parts[k] > r.maxBatch THEN "a written batch exceeds the configured maximum batch size"
  ELSE ""
ASSUME \A i \in 1..Len(Rows) : Bad(Rows[i]) = "" \/ PrintT(<<"BAD-ROW", i, Bad(Rows[i]), Rows[i].case, Rows[i].version, Rows[i].size, Rows[i].limit>>)
ASSUME PrintT(<<"rows", Len(Rows), "bad", Cardinality({i \in 1..Len(Rows) : Bad(Rows[i]) # ""})>>)
VARIABLE x
Init == x = 0
Next == UNCHANGED x
=============================================================================
