SPECIFICATION Spec
CONSTANT EnqueueAfterRenew = TRUE
INVARIANTS AtMostOneFinal SentIsDecided
PROPERTIES DecisionIsSent
CHECK_DEADLOCK FALSE
