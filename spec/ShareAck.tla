------------------------------- MODULE ShareAck -------------------------------
(* One delivered record of a share group on the client (consumer_share.go: tryAck, appendAck, the drain that builds   *)
(* acknowledgement requests, the response handling of renews), property C12.                                           *)
(* status is the record's CAS word: 0 undecided, 1 accept, 2 release, 3 reject, 4 renew. A successful CAS appends an   *)
(* entry to the cursor's pending queue; a drain takes the queue, reads the LIVE status of each entry (duplicates of    *)
(* one record collapse) and sends it; a confirmed renew resets the status to 0 if it is still renew.                    *)
(* Safety: at most one final outcome is ever sent for the delivery. Liveness: a final outcome the application chose    *)
(* is eventually sent (fairness on the drain). EnqueueAfterRenew = FALSE is the mutant in which a terminal that         *)
(* overrides a renew is not enqueued again.                                                                            *)
EXTENDS Integers, Sequences, FiniteSets, TLC
CONSTANT EnqueueAfterRenew
VARIABLES status, queue, inflight, sentFinal, decided, renews
vars == <<status, queue, inflight, sentFinal, decided, renews>>
Init == status = 0 /\ queue = 0 /\ inflight = 0 /\ sentFinal = <<>> /\ decided = 0 /\ renews = 0
Terminal(t) == t \in {1, 2, 3}
(* Record.Ack / MarkAcks *)
Ack(t) == /\ IF t = 4 THEN status = 0 ELSE status \in {0, 4}          \* tryAck: renew only from undecided; a terminal also over a renew
          /\ (t = 4 => renews < 2)
          /\ status' = t
          /\ queue' = (IF status = 0 \/ EnqueueAfterRenew THEN queue + 1 ELSE queue)
          /\ decided' = (IF Terminal(t) /\ decided = 0 THEN t ELSE decided)
          /\ renews' = (IF t = 4 THEN renews + 1 ELSE renews)
          /\ UNCHANGED <<inflight, sentFinal>>
(* a drain: all queued entries of the record collapse into one batch carrying its live status *)
Drain == /\ queue > 0 /\ inflight = 0
         /\ queue' = 0
         /\ IF status = 0 THEN UNCHANGED <<inflight, sentFinal>>
            ELSE /\ inflight' = status
                 /\ sentFinal' = (IF Terminal(status) THEN Append(sentFinal, status) ELSE sentFinal)
         /\ UNCHANGED <<status, decided, renews>>
(* the broker's answer; a confirmed renew lets the application renew or decide again *)
Response == /\ inflight # 0 /\ inflight' = 0
            /\ status' = (IF inflight = 4 /\ status = 4 THEN 0 ELSE status)
            /\ UNCHANGED <<queue, sentFinal, decided, renews>>
Next == (\E t \in 1..4 : Ack(t)) \/ Drain \/ Response
Spec == Init /\ [][Next]_vars /\ WF_vars(Drain) /\ WF_vars(Response)
AtMostOneFinal == Len(sentFinal) <= 1
SentIsDecided == \A i \in DOMAIN sentFinal : sentFinal[i] = decided
DecisionIsSent == (decided # 0) ~> (Len(sentFinal) = 1)
=============================================================================
