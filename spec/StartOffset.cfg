INIT Init
NEXT Next
CONSTANTS N = 8 T = 2 T0 = 1000 OutFile = "start_cases.ndjson"
