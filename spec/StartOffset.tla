------------------------------- MODULE StartOffset -------------------------------
(* Where a consumer starts on a newly assigned partition (property C40), from the documentation of kgo.Offset and    *)
(* ConsumeResetOffset:                                                                                              *)
(*   at start -> log start; at end -> log end; exact -> that offset; relative -> the above +/- n;                   *)
(*   exact / relative out of bounds -> the nearest boundary (start or end);                                          *)
(*   after millisec -> the first offset with timestamp >= t if one exists, else the log end;                         *)
(*   committed -> the committed offset. Under read_committed the log end is the last stable offset.                  *)
(* The log: offsets 0..N-1 written, the first LS deleted (DeleteRecords), optionally an open transaction holding     *)
(* the offsets N..N+T-1 (high watermark N+T, last stable offset N). Record o has timestamp T0 + 100*o.               *)
EXTENDS Integers, Sequences, SequencesExt, FiniteSets, TLC, Json
CONSTANTS N, T, T0, OutFile
Min2(a, b) == IF a < b THEN a ELSE b
Max2(a, b) == IF a > b THEN a ELSE b
Clamp(x, lo, hi) == Max2(lo, Min2(x, hi))
HW(open) == IF open THEN N + T ELSE N
End(open, iso) == IF iso = 1 THEN N ELSE HW(open)      \* the LSO is N whether or not the transaction is open
Ts(o) == T0 + 100 * o
Start(spec, ls, open, iso) ==
  LET e == End(open, iso) IN
  CASE spec.kind \in {"at", "atepoch"} -> Clamp(spec.x + spec.r, ls, e)      \* an epoch on the offset asks for truncation detection, it does not move the position
    [] spec.kind = "start"    -> Clamp(ls + spec.r, ls, e)
    [] spec.kind = "end"      -> Clamp(e + spec.r, ls, e)
    [] spec.kind = "milli"    -> LET S == {o \in ls..(e - 1) : Ts(o) >= spec.x} IN IF S = {} THEN e ELSE CHOOSE o \in S : \A p \in S : o <= p
    [] spec.kind = "committed" -> spec.x
Specs == {[kind |-> "at", x |-> x, r |-> r] : x \in {0, 1, 3, 5, 7, 8, 9, 10, 12, 20}, r \in {0, 2, -2, 20, -20}}
    \cup {[kind |-> "start", x |-> 0, r |-> r] : r \in {0, 1, 4, 5, 8, 9, 100, -3}}
    \cup {[kind |-> "end", x |-> 0, r |-> r] : r \in {0, -1, -3, -5, -8, -100, 3}}
    \cup {[kind |-> "milli", x |-> t, r |-> 0] : t \in {0, T0, T0 + 50, T0 + 300, T0 + 450, T0 + 700, T0 + 701, T0 + 900, T0 + 100000}}
(* exact offsets that carry a leader epoch (WithEpoch, or what a group commit returns); only positions inside the log *)
Epoched == {[kind |-> "atepoch", x |-> x, r |-> r] : x \in {3, 5, 7}, r \in {0, 1, 2, -2}}
Committed == {[kind |-> "committed", x |-> c, r |-> 0] : c \in {0, 3, 5, 8}}
Cases == {[spec |-> s, ls |-> ls, open |-> open, iso |-> iso, mode |-> m, start |-> Start(s, ls, open, iso)] :
             s \in Specs, ls \in {0, 3}, open \in BOOLEAN, iso \in {0, 1}, m \in {"direct", "group"}}
     \cup {[spec |-> s, ls |-> ls, open |-> open, iso |-> iso, mode |-> "direct", start |-> Start(s, ls, open, iso)] :
             s \in {c \in Epoched : c.x + c.r >= 3 /\ c.x + c.r <= N}, ls \in {0, 3}, open \in BOOLEAN, iso \in {0, 1}}
     \cup {[spec |-> s, ls |-> ls, open |-> open, iso |-> iso, mode |-> "group", start |-> Start(s, ls, open, iso)] :
             s \in {c \in Committed : c.x >= 3}, ls \in {0, 3}, open \in BOOLEAN, iso \in {0, 1}}
ASSUME Start([kind |-> "at", x |-> 1, r |-> 0], 3, FALSE, 0) = 3        \* the documentation's own example: At(3) with start 8 -> 8
ASSUME Start([kind |-> "at", x |-> 20, r |-> 0], 3, FALSE, 0) = N
ASSUME Start([kind |-> "end", x |-> 0, r |-> -3], 0, TRUE, 1) = N - 3
ASSUME Start([kind |-> "end", x |-> 0, r |-> -3], 0, TRUE, 0) = N + T - 3
ASSUME ndJsonSerialize(OutFile, SetToSeq(Cases))
VARIABLE x
Init == x = 0
Next == UNCHANGED x
=============================================================================
