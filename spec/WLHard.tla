----------------------------- MODULE WLHard -----------------------------
(* WorkLoop with the one transient hardFinish user: source.loopFetch      *)
(*   session := load; if none { hardFinish; if load # session {maybeConsume}; return } *)
(* and startNewSession: store session; maybeConsume (maybeBegin -> go loopFetch).      *)
EXTENDS Naturals, FiniteSets, TLC
CONSTANTS MaxW, Compensate
Unstarted == 0  Working == 1  Continue == 2
W == 1..MaxW
VARIABLES state, session, work,
          spc, sseen,            \* the session starter: "idle" | "load" | "cas" | "done"
          kpc, kseen,            \* an early kicker (addCursor / allowUsable calling maybeConsume before the session exists)
          wpc, wseen, wsess, nworkers
vars == <<state, session, work, spc, sseen, kpc, kseen, wpc, wseen, wsess, nworkers>>
Init == /\ state = Unstarted /\ session = FALSE /\ work = 0
        /\ spc = "idle" /\ sseen = 0 /\ kpc = "load" /\ kseen = 0
        /\ wpc = [w \in W |-> "none"] /\ wseen = [w \in W |-> 0] /\ wsess = [w \in W |-> FALSE] /\ nworkers = 0
Spawn == /\ nworkers' = nworkers + 1 /\ wpc' = [wpc EXCEPT ![nworkers + 1] = "start"]
KLoad == /\ kpc = "load" /\ kseen' = state /\ kpc' = (IF state = Continue THEN "done" ELSE "cas")
         /\ UNCHANGED <<state, session, work, spc, sseen, wpc, wseen, wsess, nworkers>>
KCas == /\ kpc = "cas"
        /\ IF state = kseen
             THEN /\ state' = kseen + 1 /\ kpc' = "done"
                  /\ IF kseen = Unstarted THEN Spawn ELSE UNCHANGED <<nworkers, wpc>>
             ELSE kpc' = "load" /\ UNCHANGED <<state, nworkers, wpc>>
        /\ UNCHANGED <<session, work, spc, sseen, kseen, wseen, wsess>>
SStart == /\ spc = "idle" /\ session' = TRUE /\ work' = 1 /\ spc' = "load"     \* startNewSession stores the session
          /\ UNCHANGED <<state, sseen, kpc, kseen, wpc, wseen, wsess, nworkers>>
SLoad == /\ spc = "load" /\ sseen' = state /\ spc' = (IF state = Continue THEN "done" ELSE "cas")
         /\ UNCHANGED <<state, session, work, kpc, kseen, wpc, wseen, wsess, nworkers>>
SCas == /\ spc = "cas"
        /\ IF state = sseen
             THEN /\ state' = sseen + 1 /\ spc' = "done"
                  /\ IF sseen = Unstarted THEN Spawn ELSE UNCHANGED <<nworkers, wpc>>
             ELSE spc' = "load" /\ UNCHANGED <<state, nworkers, wpc>>
        /\ UNCHANGED <<session, work, sseen, kpc, kseen, wseen, wsess>>
\* loopFetch
WStart(w) == /\ wpc[w] = "start" /\ wsess' = [wsess EXCEPT ![w] = session]
             /\ wpc' = [wpc EXCEPT ![w] = IF session THEN "body" ELSE "hard"]
             /\ UNCHANGED <<state, session, work, spc, sseen, kpc, kseen, wseen, nworkers>>
WHard(w) == /\ wpc[w] = "hard" /\ state' = Unstarted                       \* hardFinish
            /\ wpc' = [wpc EXCEPT ![w] = IF Compensate THEN "reload" ELSE "none"]
            /\ UNCHANGED <<session, work, spc, sseen, kpc, kseen, wseen, wsess, nworkers>>
WReload(w) == /\ wpc[w] = "reload"
              /\ wpc' = [wpc EXCEPT ![w] = IF session # wsess[w] THEN "mbload" ELSE "none"]
              /\ UNCHANGED <<state, session, work, spc, sseen, kpc, kseen, wseen, wsess, nworkers>>
WMBLoad(w) == /\ wpc[w] = "mbload" /\ wseen' = [wseen EXCEPT ![w] = state]
              /\ wpc' = [wpc EXCEPT ![w] = IF state = Continue THEN "none" ELSE "mbcas"]
              /\ UNCHANGED <<state, session, work, spc, sseen, kpc, kseen, wsess, nworkers>>
WMBCas(w) == /\ wpc[w] = "mbcas"
             /\ IF state = wseen[w]
                  THEN /\ state' = wseen[w] + 1
                       /\ IF wseen[w] = Unstarted
                            THEN /\ nworkers' = nworkers + 1
                                 /\ wpc' = [wpc EXCEPT ![w] = "none", ![nworkers + 1] = "start"]
                            ELSE /\ wpc' = [wpc EXCEPT ![w] = "none"] /\ UNCHANGED nworkers
                  ELSE wpc' = [wpc EXCEPT ![w] = "mbload"] /\ UNCHANGED <<state, nworkers>>
             /\ UNCHANGED <<session, work, spc, sseen, kpc, kseen, wseen, wsess>>
WBody(w) == /\ wpc[w] = "body" /\ work' = 0 /\ wpc' = [wpc EXCEPT ![w] = "mfload"]
            /\ UNCHANGED <<state, session, spc, sseen, kpc, kseen, wseen, wsess, nworkers>>
MFLoad(w) == /\ wpc[w] = "mfload" /\ wseen' = [wseen EXCEPT ![w] = state]
             /\ wpc' = [wpc EXCEPT ![w] = IF state = Working THEN "mfcas" ELSE IF state = Continue THEN "mfstore" ELSE "none"]
             /\ UNCHANGED <<state, session, work, spc, sseen, kpc, kseen, wsess, nworkers>>
MFCas(w) == /\ wpc[w] = "mfcas"
            /\ IF state = Working THEN state' = Unstarted /\ wpc' = [wpc EXCEPT ![w] = "none"]
                                  ELSE UNCHANGED state /\ wpc' = [wpc EXCEPT ![w] = "body"]
            /\ UNCHANGED <<session, work, spc, sseen, kpc, kseen, wseen, wsess, nworkers>>
MFStore(w) == /\ wpc[w] = "mfstore" /\ state' = Working /\ wpc' = [wpc EXCEPT ![w] = "body"]
              /\ UNCHANGED <<session, work, spc, sseen, kpc, kseen, wseen, wsess, nworkers>>
Next == KLoad \/ KCas \/ SStart \/ SLoad \/ SCas
        \/ \E w \in W : WStart(w) \/ WHard(w) \/ WReload(w) \/ WMBLoad(w) \/ WMBCas(w) \/ WBody(w) \/ MFLoad(w) \/ MFCas(w) \/ MFStore(w)
Spec == Init /\ [][Next]_vars
InBody(w) == wpc[w] \in {"body", "mfload", "mfcas", "mfstore"}
AtMostOneInBody == Cardinality({w \in W : InBody(w)}) <= 1
Quiescent == spc = "done" /\ kpc = "done" /\ \A w \in W : wpc[w] = "none"
NoLostWakeup == Quiescent => work = 0
=============================================================================
