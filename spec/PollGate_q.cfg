SPECIFICATION Spec
CONSTANTS Pollers = {"p1", "p2"} Rebalancers = {"r1", "r2"} Rounds = 2 AllowMisuse = FALSE
INVARIANTS RevokeExcludesPolls CountsExact NoLostWakeup NoDeadlock NoBorrow
PROPERTY Live
CHECK_DEADLOCK FALSE
