------------------------------- MODULE Select -------------------------------
(* Which partitions a direct consumer consumes (property C39), from the documentation of ConsumeTopics,            *)
(* ConsumeRegex / ConsumeExcludeTopics, ConsumePartitions, AddConsumeTopics, AddConsumePartitions,                 *)
(* RemoveConsumePartitions and PurgeTopicsFromConsuming.                                                            *)
(*   whole   topics selected as a whole: every partition they have, including partitions added later;              *)
(*   parts   explicitly selected partitions;                                                                        *)
(*   regex   every topic matching an include pattern and no exclude pattern, including topics created later.        *)
(* Selected is the set of existing partitions the consumer must consume; nothing else may be returned.             *)
(* Histories whose meaning the documentation leaves open are not generated: AddConsumePartitions for a topic that  *)
(* is consumed as a whole (the code then stops following the topic's growth), growing a topic after only           *)
(* some of its partitions were removed, and AddConsumeTopics for a topic that had explicit partitions (documented    *)
(* as not adding the rest).                                                                                          *)
EXTENDS Integers, Sequences, FiniteSets, TLC, Json
CONSTANTS Depth, Mode      \* Mode \in {"topics", "partitions", "regex"}
Topics == {"ta", "tb", "tc", "ux"}                   \* "ux" never matches the regex "t."; "tb" is excluded in regex mode
VARIABLES nparts, whole, parts, partial, explicitEver, hist
vars == <<nparts, whole, parts, partial, explicitEver, hist>>
Matches(t) == t \in {"ta", "tb", "tc"} /\ t # "tb"     \* include "t[a-z]", exclude "tb"
Exists(t) == nparts[t] > 0
PartsOf(t) == {<<t, p>> : p \in 0..(nparts[t] - 1)}
Selected == IF Mode = "regex" THEN UNION {PartsOf(t) : t \in {u \in Topics : Matches(u) /\ Exists(u)}}
            ELSE UNION {PartsOf(t) : t \in {u \in whole : Exists(u)}} \cup {tp \in parts : Exists(tp[1]) /\ tp[2] < nparts[tp[1]]}
Rank(t) == CASE t = "ta" -> 1 [] t = "tb" -> 2 [] t = "tc" -> 3 [] OTHER -> 4
SelJson(S) == [i \in 1..Cardinality(S) |-> LET RECURSIVE pick(_, _) pick(T, k) == LET m == CHOOSE x \in T : \A y \in T : (Rank(x[1]) < Rank(y[1])) \/ (x[1] = y[1] /\ x[2] <= y[2]) IN IF k = 1 THEN m ELSE pick(T \ {m}, k - 1) IN LET e == pick(S, i) IN [t |-> e[1], p |-> e[2]]]
Init == /\ nparts = [t \in Topics |-> CASE t = "ta" -> 2 [] t = "tb" -> 1 [] t = "ux" -> 1 [] OTHER -> 0]
        /\ whole = (IF Mode = "topics" THEN {"ta"} ELSE {})
        /\ parts = (IF Mode = "partitions" THEN {<<"ta", 0>>} ELSE {})
        /\ partial = {} /\ explicitEver = (IF Mode = "partitions" THEN {"ta"} ELSE {}) /\ hist = <<>>
Rec(op, t, ps) == hist' = Append(hist, [op |-> op, topic |-> t, ps |-> ps, selected |-> SelJson(Selected')])
(* ---- cluster ---- *)
CreateTopic(t) == ~Exists(t) /\ nparts' = [nparts EXCEPT ![t] = 1] /\ UNCHANGED <<whole, parts, partial, explicitEver>> /\ Rec("create", t, <<>>)
Grow(t) == Exists(t) /\ nparts[t] < 3 /\ t \notin partial /\ nparts' = [nparts EXCEPT ![t] = @ + 1] /\ UNCHANGED <<whole, parts, partial, explicitEver>> /\ Rec("grow", t, <<>>)
(* ---- consumer API ---- *)
AddTopic(t) == /\ t \notin explicitEver /\ t \notin partial
               /\ whole' = (IF Mode = "regex" THEN whole ELSE whole \cup {t}) /\ UNCHANGED <<nparts, parts, partial, explicitEver>> /\ Rec("addtopic", t, <<>>)
AddPart(t, p) == /\ Mode # "regex" /\ Exists(t) /\ p < nparts[t] /\ t \notin whole   \* explicit partitions of a topic consumed as a whole: left open by the documentation
                 /\ parts' = parts \cup {<<t, p>>} /\ explicitEver' = explicitEver \cup {t} /\ UNCHANGED <<nparts, whole, partial>> /\ Rec("addpart", t, <<p>>)
(* removing partitions of a topic consumed as a whole leaves the rest of its current partitions consumed *)
RemoveParts(t, ps) == /\ Mode # "regex" /\ Exists(t) /\ ps # {} /\ ps \subseteq 0..(nparts[t] - 1) /\ \E p \in ps : <<t, p>> \in Selected
                      /\ whole' = whole \ {t}
                      /\ parts' = ((parts \cup (IF t \in whole THEN PartsOf(t) ELSE {})) \ {<<t, p>> : p \in ps})
                      /\ partial' = (IF \E p \in 0..(nparts[t] - 1) : <<t, p>> \in parts' THEN partial \cup {t} ELSE partial \ {t})
                      /\ explicitEver' = (IF t \in whole /\ \E p \in 0..(nparts[t] - 1) : <<t, p>> \in parts' THEN explicitEver \cup {t} ELSE explicitEver)
                      /\ UNCHANGED nparts /\ Rec("removeparts", t, LET RECURSIVE sq(_) sq(S) == IF S = {} THEN <<>> ELSE LET m == CHOOSE x \in S : \A y \in S : x <= y IN <<m>> \o sq(S \ {m}) IN sq(ps))
Purge(t) == /\ (t \in whole \/ \E tp \in parts : tp[1] = t \/ (Mode = "regex" /\ Matches(t) /\ Exists(t)))
            /\ whole' = whole \ {t} /\ parts' = {tp \in parts : tp[1] # t} /\ partial' = partial \ {t} /\ explicitEver' = explicitEver \ {t}
            /\ UNCHANGED nparts /\ Rec("purge", t, <<>>)      \* in regex mode the topic is re-discovered: Selected is unchanged
Next == /\ Len(hist) < Depth
        /\ \/ \E t \in {"tc"} : CreateTopic(t)
           \/ \E t \in {"ta", "tb", "tc"} : Grow(t)
           \/ \E t \in {"tb", "tc", "ta"} : AddTopic(t) /\ Mode # "regex"
           \/ \E t \in {"ta", "tb"} : \E p \in 0..2 : AddPart(t, p)
           \/ \E t \in {"ta", "tb"} : \E ps \in (SUBSET (0..2)) : RemoveParts(t, ps)
           \/ \E t \in {"ta", "tb", "tc"} : Purge(t)
Spec == Init /\ [][Next]_vars
(* sanity: selection only ever holds existing partitions *)
SelectedExist == \A tp \in Selected : Exists(tp[1]) /\ tp[2] < nparts[tp[1]]
Emit == (Len(hist) = Depth) => PrintT(<<"CASE", ToJson([mode |-> Mode, steps |-> hist])>>)
=============================================================================
