INIT Init
NEXT Next
CONSTANTS CountTags = TRUE TraceFile = "produce_frames.ndjson"
