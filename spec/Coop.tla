------------------------------- MODULE Coop -------------------------------
(* Prototype core of GroupClassic.tla for cooperative-sticky groups:       *)
(* join -> leader plan (ANY valid plan) -> AdjustCooperative -> sync ->     *)
(* prerevoke(lost) -> onAssigned(added) -> rejoin if anything was lost.     *)
(* Code: kgo consumer_group.go (manage, joinAndSync, diffAssigned, revoke,  *)
(* assignRevokeSession), group_balancer.go (AdjustCooperative), kfake       *)
(* groups.go (handleJoin, completeRebalance, handleSync).                   *)
EXTENDS Naturals, FiniteSets, TLC
CONSTANTS Members, Parts, MaxChanges
VARIABLES active,     \* members the coordinator knows
          phase,      \* [m -> "out" | "stable" | "joining" | "synced" | "revoking" | "assigning" | "leaving"]
          claim,      \* [m -> set of partitions reported as owned in JoinGroup]  (= nowAssigned)
          target,     \* [m -> assignment received in SyncGroup]
          holding,    \* ghost: partitions between OnAssigned begin and OnRevoked end
          needRejoin, \* [m -> BOOLEAN] member lost something and owes a rejoin
          generation, changes, rounds,
          intent,     \* the leader's last unadjusted plan (sticky balancer: repeated while membership is unchanged)
          prep        \* coordinator is in PreparingRebalance: stable members learn it from heartbeats
vars == <<active, phase, claim, target, holding, needRejoin, generation, changes, rounds, intent, prep>>
Init == /\ active = {} /\ phase = [m \in Members |-> "out"] /\ claim = [m \in Members |-> {}]
        /\ target = [m \in Members |-> {}] /\ holding = [m \in Members |-> {}]
        /\ needRejoin = [m \in Members |-> FALSE] /\ generation = 0 /\ changes = 0 /\ rounds = 0 /\ prep = FALSE /\ intent = [p \in Parts |-> CHOOSE m \in Members : TRUE]
\* a new member joins: the coordinator moves to PreparingRebalance; stable members learn through heartbeats
NewJoin(m) == /\ phase[m] = "out" /\ changes < MaxChanges /\ changes' = changes + 1
              /\ active' = active \cup {m} /\ phase' = [phase EXCEPT ![m] = "joining"]
              /\ rounds' = 0 /\ prep' = TRUE
              /\ UNCHANGED <<claim, target, holding, needRejoin, generation, intent>>
\* a stable member (re)joins: because the group is rebalancing or because it owes a rejoin after revoking
Rejoin(m) == /\ phase[m] = "stable"
             /\ (needRejoin[m] \/ prep)
             /\ phase' = [phase EXCEPT ![m] = "joining"] /\ needRejoin' = [needRejoin EXCEPT ![m] = FALSE]
             /\ prep' = TRUE
             /\ UNCHANGED <<active, claim, target, holding, generation, changes, rounds, intent>>
\* graceful leave: revoke everything first (callback completes), then LeaveGroup
LeaveBegin(m) == /\ phase[m] = "stable" /\ changes < MaxChanges /\ changes' = changes + 1
                 /\ phase' = [phase EXCEPT ![m] = "leaving"] /\ rounds' = 0
                 /\ UNCHANGED <<active, claim, target, holding, needRejoin, generation, prep, intent>>
LeaveEnd(m) == /\ phase[m] = "leaving"
               /\ holding' = [holding EXCEPT ![m] = {}] /\ claim' = [claim EXCEPT ![m] = {}]
               /\ active' = active \ {m} /\ phase' = [phase EXCEPT ![m] = "out"]
               /\ prep' = (active \ {m} # {}) /\ needRejoin' = [needRejoin EXCEPT ![m] = FALSE]
               /\ UNCHANGED <<target, generation, changes, rounds, intent>>
\* all known members have joined: the leader balances
Plans == [Parts -> active]
Adjusted(plan) ==
  LET revoked == {p \in Parts : \E m \in active : p \in claim[m] /\ plan[p] # m}
      added   == {p \in Parts : p \notin claim[plan[p]]}
  IN [m \in Members |-> {p \in Parts : m \in active /\ plan[p] = m /\ ~(p \in revoked /\ p \in added)}]
Complete == /\ prep /\ active # {} /\ \A m \in active : phase[m] = "joining"
            /\ \E plan \in Plans :
                 /\ (rounds >= 1 => plan = intent)      \* stickiness assumption for the convergence bound
                 /\ intent' = plan
                 /\ target' = Adjusted(plan)
                 /\ phase' = [m \in Members |-> IF m \in active THEN "synced" ELSE phase[m]]
            /\ generation' = generation + 1 /\ rounds' = rounds + 1 /\ prep' = FALSE
            /\ UNCHANGED <<active, claim, holding, needRejoin, changes>>
\* member handles its SyncGroup response: nowAssigned := target; lost = last \ now
Sync(m) == /\ phase[m] = "synced"
           /\ IF claim[m] \ target[m] # {}
                THEN phase' = [phase EXCEPT ![m] = "revoking"]       \* OnPartitionsRevoked(lost) begins
                ELSE phase' = [phase EXCEPT ![m] = "assigning"]
           /\ UNCHANGED <<active, claim, target, holding, needRejoin, generation, changes, rounds, prep, intent>>
RevokeEnd(m) == /\ phase[m] = "revoking"                               \* OnPartitionsRevoked returns
                /\ holding' = [holding EXCEPT ![m] = @ \ (claim[m] \ target[m])]
                /\ needRejoin' = [needRejoin EXCEPT ![m] = TRUE]
                /\ phase' = [phase EXCEPT ![m] = "assigning"]
                /\ UNCHANGED <<active, claim, target, generation, changes, rounds, prep, intent>>
Assign(m) == /\ phase[m] = "assigning"                                 \* OnPartitionsAssigned(added), after prerevoke
             /\ holding' = [holding EXCEPT ![m] = (@ \cap target[m]) \cup target[m]]
             /\ claim' = [claim EXCEPT ![m] = target[m]]
             /\ phase' = [phase EXCEPT ![m] = "stable"]
             /\ UNCHANGED <<active, target, needRejoin, generation, changes, rounds, prep, intent>>
Next == \/ \E m \in Members : NewJoin(m) \/ Rejoin(m) \/ LeaveBegin(m) \/ LeaveEnd(m) \/ Sync(m) \/ RevokeEnd(m) \/ Assign(m)
        \/ Complete
Spec == Init /\ [][Next]_vars /\ WF_vars(Next)

NoDoubleOwner == \A a, b \in Members : a # b => holding[a] \cap holding[b] = {}
Stable == changes = MaxChanges /\ ~prep /\ \A m \in Members : phase[m] \in {"out", "stable"} /\ ~needRejoin[m]
AllOwnedOnce == (Stable /\ active # {}) => \A p \in Parts : Cardinality({m \in active : p \in holding[m]}) = 1
\* once membership is final, a third rebalance is never needed
TwoRounds == (changes = MaxChanges /\ \A m \in Members : phase[m] # "leaving") => rounds <= 2
Converges == <>[](Stable)
=============================================================================
