INIT Init
NEXT Next
CONSTANTS CountTags = FALSE Versions = {3, 8, 9, 12, 13} NameLens = {1, 126, 127, 249} BatchLens = {70, 127, 16383} ClientIdLens = {99999, 3} TxnIdLens = {99999, 5, 127} MaxTopics = 2 MaxParts = 3
