SPECIFICATION Spec
CONSTANTS Items = {1, 2, 3, 4} Unknown = {4} Brokers = {1, 2, 3} MaxTries = 3 MaxMoves = 2 ReissueParent = FALSE
INVARIANTS ExactlyOnce NeverTwice UnknownOnlyInErrorShards
CHECK_DEADLOCK FALSE
