------------------------------- MODULE ShareTrace -------------------------------
(* Trace specification (binding V) for C12 over D-SHARE. Per record (partition, offset) the spec tracks the current       *)
(* delivery (which member holds it), what the application decided, what was sent to the broker and what was confirmed.    *)
(*   polled        a delivery to a member. A record whose accept / reject was confirmed is never delivered again.          *)
(*   ack_call      the application's Ack / MarkAcks: the first terminal status of a delivery is its decision               *)
(*                 (renew does not decide; a terminal may follow a renew).                                                 *)
(*   acks_sent     acknowledgement batches reaching a broker: per partition ascending and non-overlapping; a delivery      *)
(*                 gets at most one final outcome (a repeat of the SAME outcome is tolerated only after a leader move or    *)
(*                 session reset, when the client re-sends); the outcome sent is the application's decision, or accept     *)
(*                 (auto-accept at the next poll) / release (close) where it made none.                                     *)
(*   ack_callback  per partition result of the oldest acknowledgement request of that member still awaiting its callback;   *)
(*                 without error it confirms the outcomes that request carried.                                            *)
(*   flush_ret     FlushAcks returned nil: nothing of that member sent before still awaits its callback, and (in            *)
(*                 fault-free scenarios) every decision made before flush_call has been sent.                               *)
EXTENDS Integers, Sequences, FiniteSets, TLC, Json
CONSTANT TraceFile
TraceLog == ndJsonDeserialize(TraceFile)
VARIABLES l, holder, decided, sent, confirmed, awaiting, faults, flushSnap, polledAt, errCb, reported, traces,
          popped,    \* <<member, partition>> -> how many of its acknowledgement requests have had their callback
          refused    \* <<member, partition, n>>: the broker answered the member's n-th acknowledgement request for the partition with an error code
vars == <<l, holder, decided, sent, confirmed, awaiting, faults, flushSnap, polledAt, errCb, reported, traces, popped, refused>>
EmptyF == [x \in {} |-> 0]
Init == l = 1 /\ holder = EmptyF /\ decided = EmptyF /\ sent = EmptyF /\ confirmed = EmptyF /\ awaiting = EmptyF /\ faults = 0 /\ flushSnap = EmptyF /\ polledAt = EmptyF /\ errCb = {} /\ reported = {} /\ traces = 0 /\ popped = EmptyF /\ refused = {}
Ev == TraceLog[l]
Get(f, k, d) == IF k \in DOMAIN f THEN f[k] ELSE d
Put(f, k, v) == [x \in (DOMAIN f) \cup {k} |-> IF x = k THEN v ELSE f[x]]
RECURSIVE PutAll(_, _, _)
PutAll(f, ks, v) == IF ks = {} THEN f ELSE LET k == CHOOSE x \in ks : TRUE IN PutAll(Put(f, k, v), ks \ {k}, v)
Terminal(t) == t \in {1, 2, 3}
(* offsets of a batch with their type: one type for the whole range, or one per offset *)
TypeAt(b, o) == IF Len(b.types) = 1 THEN b.types[1] ELSE b.types[o - b.first + 1]
BatchKeys(b) == {<<b.p, o>> : o \in b.first..b.last}
Items(bs) == UNION {{[k |-> <<bs[i].p, o>>, t |-> TypeAt(bs[i], o)] : o \in bs[i].first..bs[i].last} : i \in DOMAIN bs}
Ascending(bs) == \A i, j \in DOMAIN bs : (i < j /\ bs[i].p = bs[j].p) => (bs[i].first <= bs[i].last /\ bs[i].last < bs[j].first)
RecKeys(rs) == {<<rs[i].p, rs[i].o>> : i \in DOMAIN rs}
Checks(e) ==
  CASE e.ev = "polled" ->
         << <<\A k \in RecKeys(e.recs) : Get(confirmed, k, 0) \notin {1, 3}, "a record whose accept or reject was confirmed by the acknowledgement callback was delivered again">> >>
    [] e.ev = "acks_sent" ->
         << <<Ascending(e.batches), "acknowledgement batches of a partition are not in ascending, non-overlapping offset order">>,
            <<\A it \in Items(e.batches) : (Terminal(it.t) /\ Terminal(Get(sent, <<e.m, it.k>>, 0))) => (Get(sent, <<e.m, it.k>>, 0) = it.t /\ faults > 0),
              "a delivered record was acknowledged to the broker twice with a final outcome">>,
            <<\A it \in Items(e.batches) : (Terminal(it.t) /\ Terminal(Get(decided, it.k, 0)) /\ Get(holder, it.k, "") = e.m) => it.t = Get(decided, it.k, 0),
              "a record was acknowledged with a different outcome than the application chose">> >>
    [] e.ev = "flush_ret" ->
         << <<(e.err = "<nil>") => (\A k \in DOMAIN awaiting : k[1] = e.m => awaiting[k] = <<>>), "FlushAcks returned before the callback of an earlier acknowledgement had run">>,
            <<(e.err = "<nil>") => (\A k \in Get(flushSnap, e.m, {}) : Terminal(Get(sent, <<e.m, k>>, 0)) \/ <<e.m, k>> \in reported \/ <<e.m, k[1]>> \in errCb),
              "FlushAcks returned although an acknowledgement made before it was neither sent nor reported as failed by a callback">> >>
    [] e.ev = "ack_callback" ->
         << <<\A i \in DOMAIN e.results : (e.results[i].err = "" /\ Get(awaiting, <<e.m, e.results[i].p>>, <<>>) # <<>>)
                                             => <<e.m, e.results[i].p, Get(popped, <<e.m, e.results[i].p>>, 0) + 1>> \notin refused,
              "the acknowledgement callback reported success for a partition whose acknowledgement the broker had answered with an error">> >>
    [] e.ev = "frame_undecodable" -> << <<FALSE, "a share request frame does not decode">> >>
    [] e.ev = "driver_failed" -> << <<FALSE, "driver died">> >>
    [] OTHER -> <<>>
Ok(e) == \A i \in DOMAIN Checks(e) : Checks(e)[i][1]
Why(e) == LET C == Checks(e) bad == {i \in DOMAIN C : ~C[i][1]} IN IF bad = {} THEN "" ELSE C[CHOOSE i \in bad : \A j \in bad : i <= j][2]
U(vs) == UNCHANGED vs
(* the offsets an acks_sent event carries per partition, appended to the member's queue of requests awaiting callbacks *)
Parts(bs) == {bs[i].p : i \in DOMAIN bs}
RECURSIVE Enqueue(_, _, _, _)
Enqueue(aw, m, bs, ps) == IF ps = {} THEN aw ELSE LET p == CHOOSE x \in ps : TRUE IN
   Enqueue(Put(aw, <<m, p>>, Append(Get(aw, <<m, p>>, <<>>), {it \in Items(bs) : it.k[1] = p})), m, bs, ps \ {p})
RECURSIVE ApplySent(_, _)
ApplySent(f, its) == IF its = {} THEN f ELSE LET it == CHOOSE x \in its : TRUE IN ApplySent(IF Terminal(it.t) THEN Put(f, it.k, it.t) ELSE f, its \ {it})
(* what a member has sent for its current delivery of a record; an acknowledgement that came back with an error was not applied *)
RECURSIVE MarkSent(_, _, _, _)
MarkSent(f, m, its, clear) == IF its = {} THEN f ELSE LET it == CHOOSE x \in its : TRUE IN
   MarkSent(IF Terminal(it.t) THEN Put(f, <<m, it.k>>, IF clear THEN 0 ELSE it.t) ELSE f, m, its \ {it}, clear)
RECURSIVE Callback(_, _, _, _, _, _)   \* returns <<awaiting', confirmed', sent', keys whose acknowledgement came back with an error>>
Callback(aw, cf, sn, fl, m, rs) == IF rs = <<>> THEN <<aw, cf, sn, fl>> ELSE
   LET r == Head(rs) q == Get(aw, <<m, r.p>>, <<>>) IN
   IF q = <<>> THEN Callback(aw, cf, sn, fl, m, Tail(rs))
   ELSE Callback(Put(aw, <<m, r.p>>, Tail(q)), IF r.err = "" THEN ApplySent(cf, Head(q)) ELSE cf, IF r.err = "" THEN sn ELSE MarkSent(sn, m, Head(q), TRUE),
                 IF r.err = "" THEN fl ELSE fl \cup {<<m, it.k>> : it \in Head(q)}, m, Tail(rs))
Apply(e) ==
  CASE e.ev = "reset" -> holder' = EmptyF /\ decided' = EmptyF /\ sent' = EmptyF /\ confirmed' = EmptyF /\ awaiting' = EmptyF /\ faults' = 0 /\ flushSnap' = EmptyF /\ polledAt' = EmptyF /\ errCb' = {} /\ reported' = {} /\ traces' = traces + 1 /\ popped' = EmptyF /\ refused' = {}
    [] e.ev = "polled" -> /\ holder' = PutAll(holder, RecKeys(e.recs), e.m) /\ decided' = PutAll(decided, RecKeys(e.recs), 0) /\ sent' = PutAll(sent, {<<e.m, k>> : k \in RecKeys(e.recs)}, 0)
                          /\ polledAt' = PutAll(polledAt, RecKeys(e.recs), faults)
                          /\ reported' = {x \in reported : ~(x[1] = e.m /\ x[2] \in RecKeys(e.recs))}
                          /\ U(<<confirmed, awaiting, faults, flushSnap, traces, errCb, popped, refused>>)
    [] e.ev = "ack_call" -> /\ decided' = (IF Terminal(e.status) THEN PutAll(decided, {k \in RecKeys(e.recs) : Get(holder, k, "") = e.m /\ ~Terminal(Get(decided, k, 0))}, e.status) ELSE decided)
                            /\ U(<<holder, sent, confirmed, awaiting, faults, flushSnap, polledAt, traces, errCb, reported, popped, refused>>)
    [] e.ev = "acks_sent" -> /\ sent' = MarkSent(sent, e.m, Items(e.batches), FALSE) /\ awaiting' = Enqueue(awaiting, e.m, e.batches, Parts(e.batches))
                             /\ U(<<holder, decided, confirmed, faults, flushSnap, polledAt, traces, errCb, reported, popped, refused>>)
    [] e.ev = "ack_callback" -> /\ LET res == Callback(awaiting, confirmed, sent, {}, e.m, e.results)
                                       errParts == {e.results[i].p : i \in {j \in DOMAIN e.results : e.results[j].err # ""}}
                                   IN /\ awaiting' = res[1] /\ confirmed' = res[2] /\ sent' = res[3]
                                      \* an error for a partition also covers decisions that were dropped before being sent (stale after a move / reset)
                                      /\ reported' = reported \cup res[4] \cup {<<e.m, k>> : k \in {x \in DOMAIN decided : x[1] \in errParts /\ Get(holder, x, "") = e.m /\ Terminal(decided[x]) /\ ~Terminal(Get(sent, <<e.m, x>>, 0))}}
                                /\ errCb' = errCb \cup {<<e.m, e.results[i].p>> : i \in {j \in DOMAIN e.results : e.results[j].err # ""}}
                                /\ popped' = LET ps == {e.results[i].p : i \in {j \in DOMAIN e.results : Get(awaiting, <<e.m, e.results[j].p>>, <<>>) # <<>>}} IN
                                             [x \in (DOMAIN popped) \cup {<<e.m, p>> : p \in ps} |-> IF x[1] = e.m /\ x[2] \in ps THEN Get(popped, x, 0) + 1 ELSE popped[x]]
                                /\ U(<<holder, decided, faults, flushSnap, polledAt, traces, refused>>)
    [] e.ev = "flush_call" -> /\ flushSnap' = Put(flushSnap, e.m, {k \in DOMAIN decided : Terminal(decided[k]) /\ Get(holder, k, "") = e.m /\ Get(polledAt, k, -1) = faults /\ ~Terminal(Get(sent, <<e.m, k>>, 0)) /\ <<e.m, k>> \notin reported})
                              /\ errCb' = {x \in errCb : x[1] # e.m}
                              /\ U(<<holder, decided, sent, confirmed, awaiting, faults, traces, polledAt, reported, popped, refused>>)
    [] e.ev \in {"moved", "session_reset", "close_call"} -> faults' = faults + 1 /\ U(<<holder, decided, sent, confirmed, awaiting, flushSnap, polledAt, traces, errCb, reported, popped, refused>>)
    [] e.ev = "acks_refused" -> refused' = refused \cup {<<e.m, e.p, e.n>>} /\ U(<<holder, decided, sent, confirmed, awaiting, faults, flushSnap, polledAt, traces, errCb, reported, popped>>)
    [] OTHER -> U(<<holder, decided, sent, confirmed, awaiting, faults, flushSnap, polledAt, traces, errCb, reported, popped, refused>>)
Next == l <= Len(TraceLog) /\ Ok(Ev) /\ Apply(Ev) /\ l' = l + 1
Spec == Init /\ [][Next]_vars
Accepted == (l = Len(TraceLog) + 1) => PrintT(<<"ACCEPTED", Len(TraceLog), traces>>)
Rejected == (l <= Len(TraceLog) /\ ~Ok(Ev)) => PrintT(<<"REJECTED-AT", l, Why(Ev), ToJson(Ev)>>)
=============================================================================
