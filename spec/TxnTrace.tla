------------------------------- MODULE TxnTrace -------------------------------
(* Trace specification (binding V) for transactions.                           *)
(*  C11: what EndTransaction reported is what read_committed consumers see:     *)
(*       reported commit => the transaction's acknowledged records are visible; *)
(*       reported abort or error => none of its records is ever visible, also   *)
(*       after later transactions committed (a record produced while the        *)
(*       outcome of the previous End was unconfirmed belongs to that            *)
(*       transaction and must not ride along with the next one).                *)
(*  C10: GroupTransactSession pipeline: every input record's output appears     *)
(*       exactly once in the read_committed view of the output topic.           *)
EXTENDS Integers, Sequences, FiniteSets, TLC, Json
CONSTANT TraceFile
TraceLog == ndJsonDeserialize(TraceFile)
VARIABLES l, mode, rec, outcome, traces
vars == <<l, mode, rec, outcome, traces>>
EmptyF == [x \in {} |-> 0]
Init == l = 1 /\ mode = "" /\ rec = EmptyF /\ outcome = EmptyF /\ traces = 0
Ev == TraceLog[l]
Put(f, k, v) == [x \in (DOMAIN f) \cup {k} |-> IF x = k THEN v ELSE f[x]]
SeqSet(s) == {s[i] : i \in DOMAIN s}
Count(s, x) == Cardinality({i \in DOMAIN s : s[i] = x})
Checks(e) ==
  CASE e.ev = "visible" ->
         << <<\A id \in SeqSet(e.ids) : id \in DOMAIN rec /\ rec[id].txn \in DOMAIN outcome /\ outcome[rec[id].txn] = "committed",
              "a record of a transaction whose end was reported as abort or error is visible to read_committed consumers">>,
            <<\A id \in DOMAIN rec : (rec[id].ok /\ rec[id].txn \in DOMAIN outcome /\ outcome[rec[id].txn] = "committed") => id \in SeqSet(e.ids),
              "EndTransaction reported a successful commit but an acknowledged record of the transaction is not visible">>,
            <<\A id \in SeqSet(e.ids) : Count(e.ids, id) = 1, "a transactional record is visible twice">> >>
    [] e.ev = "eos_visible" ->
         << <<\A i \in 1..e.inputs : Count(e.out, i) >= 1, "an input record has no output in the read_committed view (lost)">>,
            <<\A i \in 1..e.inputs : Count(e.out, i) <= 1, "an input record's output appears twice in the read_committed view (duplicated)">> >>
    [] e.ev = "driver_failed" -> << <<FALSE, "driver died (client goroutines blocked forever)">> >>
    [] OTHER -> <<>>
Ok(e) == \A i \in DOMAIN Checks(e) : Checks(e)[i][1]
Why(e) == LET C == Checks(e) bad == {i \in DOMAIN C : ~C[i][1]} IN IF bad = {} THEN "" ELSE C[CHOOSE i \in bad : \A j \in bad : i <= j][2]
Apply(e) ==
  CASE e.ev = "reset" -> mode' = e.mode /\ rec' = EmptyF /\ outcome' = EmptyF /\ traces' = traces + 1
    [] e.ev = "produced" -> rec' = Put(rec, e.id, [txn |-> e.txn, ok |-> e.ok]) /\ UNCHANGED <<mode, outcome, traces>>
    [] e.ev = "txn_outcome" -> outcome' = Put(outcome, e.txn, e.outcome) /\ UNCHANGED <<mode, rec, traces>>
    [] OTHER -> UNCHANGED <<mode, rec, outcome, traces>>
Next == l <= Len(TraceLog) /\ Ok(Ev) /\ Apply(Ev) /\ l' = l + 1
Spec == Init /\ [][Next]_vars
Accepted == (l = Len(TraceLog) + 1) => PrintT(<<"ACCEPTED", Len(TraceLog), traces>>)
Rejected == (l <= Len(TraceLog) /\ ~Ok(Ev)) => PrintT(<<"REJECTED-AT", l, Why(Ev), ToJson(Ev)>>)
=============================================================================
