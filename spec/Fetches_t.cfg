INIT Init
NEXT Next
CONSTANTS N = 60000 MaxFetches = 4 OutFile = "fetches_cases.ndjson"
