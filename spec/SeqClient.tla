------------------------------- MODULE SeqClient -------------------------------
(* The idempotent producer's sequence state for ONE partition (pkg/kgo/sink.go recBuf: seq, batch0Seq, batches,          *)
(* batchDrainIdx) against the broker's sequence window (SeqWindow.tla's rule, pkg/kfake/txns.go pidwindow), over a         *)
(* connection on which responses get lost and requests are answered with retriable errors.                               *)
(*   Buffer      a batch of n records is frozen in the buffer                                                              *)
(*   Drain       the next undrained batch goes on the wire with first sequence seq; seq advances modulo SeqMod            *)
(*   Handle      the broker takes the oldest unhandled request: append / duplicate (answered with the original offset) /  *)
(*               out of order                                                                                             *)
(*   Respond     the oldest request's answer reaches the client: the batch is finished, batch0Seq advances                *)
(*   ErrRespond  the broker answers the only request in flight with a retriable error without appending; the client       *)
(*               rewinds (resetBatchDrainIdx: seq := batch0Seq, nothing drained)                                           *)
(*   LoseConn    the connection dies: every request in flight is failed at the client (handled by the broker or not);      *)
(*               the client rewinds                                                                                        *)
(* SeqMod stands for 2^31 (see SeqWindow.tla for the mapping the replayer uses).                                           *)
(* GuardedRewind = TRUE is the mutant "rewind only if seq > batch0Seq" (a plain integer comparison of wrapped values).      *)
EXTENDS Integers, Sequences, FiniteSets, TLC, Json
CONSTANTS SeqMod, MaxN, MaxInflight, MaxBatches, MaxFaults, Starts, GuardedRewind,
          Sequential   \* TRUE: scenario generation — one batch at a time, faults only of the kinds the test network can inject
Win == 5
Inc(s, n) == (s + n) % SeqMod

VARIABLES seq, b0, batches, drain, wire, seen, nextSeq, entries, log, nid, faults, sentAs, hist
vars == <<seq, b0, batches, drain, wire, seen, nextSeq, entries, log, nid, faults, sentAs, hist>>
client == <<seq, b0, batches, drain>>
broker == <<seen, nextSeq, entries, log>>

Init == /\ seq \in Starts /\ b0 = seq /\ batches = <<>> /\ drain = 0 /\ wire = <<>>
        /\ seen = FALSE /\ nextSeq = 0 /\ entries = <<>> /\ log = <<>> /\ nid = 1 /\ faults = 0
        /\ sentAs = [x \in {} |-> 0] /\ hist = <<>>

Buffer(n) == /\ nid <= MaxBatches
             /\ (Sequential => batches = <<>>)
             /\ batches' = Append(batches, [id |-> nid, n |-> n]) /\ nid' = nid + 1
             /\ hist' = Append(hist, [e |-> "buffer", id |-> nid, n |-> n])
             /\ UNCHANGED <<seq, b0, drain, wire, broker, faults, sentAs>>

Drain == /\ drain < Len(batches) /\ Len(wire) < MaxInflight
         /\ LET b == batches[drain + 1] IN
            /\ wire' = Append(wire, [id |-> b.id, s |-> seq, n |-> b.n, st |-> "sent"])
            /\ seq' = Inc(seq, b.n) /\ drain' = drain + 1
            /\ sentAs' = IF b.id \in DOMAIN sentAs THEN sentAs ELSE [x \in DOMAIN sentAs \cup {b.id} |-> IF x = b.id THEN [s |-> seq, n |-> b.n] ELSE sentAs[x]]
            /\ hist' = Append(hist, [e |-> "send", id |-> b.id, s |-> seq, n |-> b.n])
         /\ UNCHANGED <<b0, batches, broker, nid, faults>>

Unhandled == {i \in DOMAIN wire : wire[i].st = "sent"}
DupOf(s, n) == {i \in DOMAIN entries : entries[i].first = s /\ entries[i].next = Inc(s, n)}
Push(e) == IF Len(entries) < Win THEN Append(entries, e) ELSE Append(Tail(entries), e)
Handle == /\ Unhandled # {}
          /\ LET i == CHOOSE x \in Unhandled : \A y \in Unhandled : x <= y
                 r == wire[i]
                 o == IF ~seen THEN "ok" ELSE IF DupOf(r.s, r.n) # {} THEN "dup" ELSE IF r.s # nextSeq THEN "ooosn" ELSE "ok"
             IN /\ wire' = [wire EXCEPT ![i].st = o]
                /\ IF o = "ok" THEN /\ seen' = TRUE /\ nextSeq' = Inc(r.s, r.n) /\ log' = Append(log, r.id)
                                    /\ entries' = IF ~seen THEN <<[first |-> r.s, next |-> Inc(r.s, r.n)]>> ELSE Push([first |-> r.s, next |-> Inc(r.s, r.n)])
                   ELSE UNCHANGED broker
          /\ UNCHANGED <<client, nid, faults, sentAs, hist>>

Respond == /\ wire # <<>> /\ wire[1].st \in {"ok", "dup"}
           /\ batches # <<>> /\ batches[1].id = wire[1].id
           /\ batches' = Tail(batches) /\ b0' = Inc(b0, wire[1].n) /\ drain' = drain - 1 /\ wire' = Tail(wire)
           /\ hist' = Append(hist, [e |-> "ack", id |-> wire[1].id, dup |-> wire[1].st = "dup"])
           /\ UNCHANGED <<seq, broker, nid, faults, sentAs>>

Rewound == IF GuardedRewind /\ ~(seq > b0) THEN seq ELSE b0
ErrRespond == /\ Len(wire) = 1 /\ wire[1].st = "sent" /\ faults < MaxFaults
              /\ wire' = <<>> /\ seq' = Rewound /\ drain' = 0 /\ faults' = faults + 1
              /\ hist' = Append(hist, [e |-> "err", id |-> wire[1].id])
              /\ UNCHANGED <<b0, batches, broker, nid, sentAs>>
LoseConn == /\ wire # <<>> /\ faults < MaxFaults
            /\ (Sequential => Unhandled = {})          \* the test network loses answers, not requests
            /\ wire' = <<>> /\ seq' = Rewound /\ drain' = 0 /\ faults' = faults + 1
            /\ hist' = Append(hist, [e |-> "lost", id |-> wire[1].id])
            /\ UNCHANGED <<b0, batches, broker, nid, sentAs>>

Next == (\E n \in 1..MaxN : Buffer(n)) \/ Drain \/ Handle \/ Respond \/ ErrRespond \/ LoseConn
Spec == Init /\ [][Next]_vars
----------------------------------------------------------------------------
\* the broker never has to reject a batch: every (re)transmission is either the expected next batch or a recognised duplicate
NoOutOfOrder == \A i \in DOMAIN wire : wire[i].st # "ooosn"
\* a batch keeps its sequence number across every retransmission
SameSeq == \A i \in DOMAIN wire : wire[i].s = sentAs[wire[i].id].s
\* Kafka's rule at the client: the batch after one of n records starting at s starts at (s + n) mod SeqMod
Chained == \A i \in DOMAIN sentAs : (i + 1) \in DOMAIN sentAs => sentAs[i + 1].s = Inc(sentAs[i].s, sentAs[i].n)
\* every batch is in the log at most once, in order
ExactlyOnce == \A i \in DOMAIN log : log[i] = i
\* at rest the client and the broker agree on the next sequence
AgreeAtRest == (wire = <<>> /\ batches = <<>>) => (seq = b0 /\ (seen => nextSeq = seq))
Finished == nid > MaxBatches /\ batches = <<>>
Emit == Finished => PrintT(<<"SCN", ToJson(hist)>>)
View == <<seq, b0, batches, drain, wire, seen, nextSeq, entries, log, nid, faults, sentAs>>
=============================================================================
