INIT Init
NEXT Next
CONSTANTS N = 4000 MaxFetches = 3 OutFile = "fetches_cases.ndjson"
