INIT Init
NEXT Next
CONSTANTS Mode = "all2" NTriples = 0 OutFile = "acl_cases.ndjson"
