------------------------------- MODULE FetchCursor -------------------------------
(* A consumer's position on one partition (source.go: cursor offsets, buffered fetches, takeNBuffered; topics_and_   *)
(* partitions.go: migrateCursorTo; consumer.go: loadEpochsForBrokerLoad), property C04.                                *)
(* The log only grows; every record carries the leader epoch it was written in; the leader may change (the epoch       *)
(* grows). The consumer fetches from its position, buffers what it got, hands out all or the first n records of the     *)
(* buffer (advancing position AND last consumed epoch to the last record handed out), and when it learns of a leader    *)
(* change it discards the rest of the buffer and validates its position: the broker tells where the last consumed epoch  *)
(* ended, and a position beyond that end is truncated back to it (data loss handling).                                   *)
(* Safety: records are handed out in strictly increasing offset order, each at most once, without skipping any.          *)
(* AdvanceEpochOnPartialTake = FALSE is the mutant in which a partial take moves only the offset.                        *)
EXTENDS Integers, Sequences, FiniteSets, TLC
CONSTANTS MaxLog, MaxEpoch, AdvanceEpochOnPartialTake
VARIABLES log,        \* sequence of epochs: log[i] is the epoch of the record at offset i-1
          epoch,      \* current leader epoch
          pos,        \* consumer position: [offset, lastEpoch] (lastEpoch = -1: nothing consumed yet)
          buffered,   \* offsets buffered in the client, in order
          known,      \* the leader epoch the consumer's metadata knows
          delivered   \* sequence of offsets handed to the application
vars == <<log, epoch, pos, buffered, known, delivered>>
Init == log = <<>> /\ epoch = 0 /\ pos = [offset |-> 0, lastEpoch |-> -1] /\ buffered = <<>> /\ known = 0 /\ delivered = <<>>
Produce == Len(log) < MaxLog /\ log' = Append(log, epoch) /\ UNCHANGED <<epoch, pos, buffered, known, delivered>>
LeaderChange == epoch < MaxEpoch /\ epoch' = epoch + 1 /\ UNCHANGED <<log, pos, buffered, known, delivered>>
Fetch == /\ buffered = <<>> /\ known = epoch /\ pos.offset < Len(log)
         /\ \E n \in 1..(Len(log) - pos.offset) : buffered' = [i \in 1..n |-> pos.offset + i - 1]
         /\ UNCHANGED <<log, epoch, pos, known, delivered>>
Take(n) == /\ n \in 1..Len(buffered)
           /\ delivered' = delivered \o SubSeq(buffered, 1, n)
           /\ buffered' = SubSeq(buffered, n + 1, Len(buffered))
           /\ LET last == buffered[n] IN
              pos' = [offset |-> last + 1, lastEpoch |-> IF n = Len(buffered) \/ AdvanceEpochOnPartialTake THEN log[last + 1] ELSE pos.lastEpoch]
           /\ UNCHANGED <<log, epoch, known>>
(* where an epoch ends: the offset of the first record of a later epoch, or the log end *)
EndOf(e) == LET later == {i \in 1..Len(log) : log[i] > e} IN IF later = {} THEN Len(log) ELSE (CHOOSE i \in later : \A j \in later : i <= j) - 1
(* the consumer learns of the new leader: the buffer is dropped and the position validated against the last consumed epoch *)
Migrate == /\ known < epoch /\ known' = epoch /\ buffered' = <<>>
           /\ pos' = IF pos.lastEpoch >= 0 /\ EndOf(pos.lastEpoch) < pos.offset THEN [pos EXCEPT !.offset = EndOf(pos.lastEpoch)] ELSE pos
           /\ UNCHANGED <<log, epoch, delivered>>
Next == Produce \/ LeaderChange \/ Fetch \/ (\E n \in 1..MaxLog : Take(n)) \/ Migrate
Spec == Init /\ [][Next]_vars
InOrderOnceNoGap == \A i \in DOMAIN delivered : delivered[i] = i - 1
PositionFollowsDelivery == pos.offset = Len(delivered)
=============================================================================
