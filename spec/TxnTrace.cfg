SPECIFICATION Spec
CONSTANT TraceFile = "txn_trace.ndjson"
INVARIANTS Accepted Rejected
CHECK_DEADLOCK FALSE
