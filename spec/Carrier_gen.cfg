SPECIFICATION Spec
CONSTANTS Keys = {"a", "A", "b"} Vals = {"x", "y"} MaxInit = 2 Depth = 3
INVARIANT Emit
CHECK_DEADLOCK FALSE
