SPECIFICATION Spec
CONSTANTS Keys = {"a", "b", "c"} Vals = {"x", "y"} MaxInit = 2 Depth = 3
INVARIANT Emit
CHECK_DEADLOCK FALSE
