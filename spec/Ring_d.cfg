SPECIFICATION Spec
CONSTANTS Pushers = {"p1", "p2", "p3", "p4"} PerPusher = 1 MaxLen = 2 MinCap = 2 Forcers = {} AllowDie = TRUE
INVARIANTS Fifo QueueIsUnprocessedSuffix OneWorkerAtATime ParkedOnlyWhileFull DeadRejects NoLossAtEnd
PROPERTY Termination
CHECK_DEADLOCK FALSE
