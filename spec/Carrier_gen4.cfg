SPECIFICATION Spec
CONSTANTS Keys = {"a", "A", "b"} Vals = {"x", "y"} MaxInit = 3 Depth = 4
INVARIANT Emit
CHECK_DEADLOCK FALSE
