SPECIFICATION Spec
CONSTANTS Keys = {"a", "b", "c"} Vals = {"x", "y"} MaxInit = 3 Depth = 4
INVARIANT Emit
CHECK_DEADLOCK FALSE
