------------------------------- MODULE Conn -------------------------------
(* One broker connection with pipelined requests (broker.go: waitResp / handleResps / readResponse / die), C22.    *)
(* Requests are written in order and pushed on a ring; the reader takes frames off the wire one at a time and hands  *)
(* each to the head of the ring if and only if the frame is well formed and carries the head's correlation id;      *)
(* anything else (wrong id, malformed, truncated, oversized, EOF, read timeout) kills the connection and fails       *)
(* everything still on the ring. A cancelled request is completed at once; its ring slot stays so that its late      *)
(* response is discarded instead of being handed to the next request.                                               *)
EXTENDS Integers, Sequences, FiniteSets, TLC
CONSTANTS Reqs, MatchHead   \* MatchHead = FALSE: mutant reader that hands a well-formed frame to the head without comparing ids
VARIABLES ring,       \* in-flight request ids in write order (correlation id = request id)
          wire,       \* frames sent by the broker, not yet read: [corr, good]
          answered,   \* requests the broker has produced a frame for (good or bad)
          result,     \* id -> "none" | "ok" | "err"
          got,        \* id -> correlation id of the frame it was handed (0 = none)
          times,      \* id -> number of completions
          cancelled, dead, unissued
vars == <<ring, wire, answered, result, got, times, cancelled, dead, unissued>>
Init == /\ ring = <<>> /\ wire = <<>> /\ answered = {} /\ result = [r \in Reqs |-> "none"] /\ got = [r \in Reqs |-> 0]
        /\ times = [r \in Reqs |-> 0] /\ cancelled = {} /\ dead = FALSE /\ unissued = Reqs
Complete(r, res, c) == /\ result' = [result EXCEPT ![r] = IF @ = "none" THEN res ELSE @]
                       /\ got' = [got EXCEPT ![r] = IF result[r] = "none" THEN c ELSE @]
                       /\ times' = [times EXCEPT ![r] = IF result[r] = "none" THEN @ + 1 ELSE @]
Issue(r) == /\ r \in unissued /\ unissued' = unissued \ {r}
            /\ IF dead THEN Complete(r, "err", 0) /\ UNCHANGED ring ELSE ring' = Append(ring, r) /\ UNCHANGED <<result, got, times>>
            /\ UNCHANGED <<wire, answered, cancelled, dead>>
(* the broker may answer any in-flight request (in or out of order), with a good or a bad frame, or under a wrong id *)
BrokerSend(r, c, good) == /\ ~dead /\ r \in {ring[i] : i \in DOMAIN ring} /\ r \notin answered
                          /\ wire' = Append(wire, [corr |-> c, good |-> good]) /\ answered' = answered \cup {r}
                          /\ UNCHANGED <<ring, result, got, times, cancelled, dead, unissued>>
Die == /\ dead' = TRUE /\ ring' = <<>> /\ wire' = <<>>
       /\ result' = [r \in Reqs |-> IF r \in {ring[i] : i \in DOMAIN ring} /\ result[r] = "none" THEN "err" ELSE result[r]]
       /\ times' = [r \in Reqs |-> IF r \in {ring[i] : i \in DOMAIN ring} /\ result[r] = "none" THEN times[r] + 1 ELSE times[r]]
       /\ UNCHANGED <<got, answered, cancelled, unissued>>
Read == /\ ~dead /\ wire # <<>> /\ ring # <<>>
        /\ LET f == Head(wire) h == Head(ring) IN
           IF f.good /\ (f.corr = h \/ ~MatchHead)
           THEN /\ (IF h \in cancelled THEN UNCHANGED <<result, got, times>> ELSE Complete(h, "ok", f.corr))
                /\ ring' = Tail(ring) /\ wire' = Tail(wire) /\ UNCHANGED <<answered, cancelled, dead, unissued>>
           ELSE Die
(* EOF, read timeout: the head waited too long or the peer went away *)
Timeout == ~dead /\ ring # <<>> /\ wire = <<>> /\ Die
Cancel(r) == /\ r \in {ring[i] : i \in DOMAIN ring} /\ r \notin cancelled /\ result[r] = "none"
             /\ cancelled' = cancelled \cup {r} /\ Complete(r, "err", 0) /\ UNCHANGED <<ring, wire, answered, dead, unissued>>
Next == (\E r \in Reqs : Issue(r) \/ Cancel(r) \/ \E c \in Reqs, g \in BOOLEAN : BrokerSend(r, c, g)) \/ Read \/ Timeout
Spec == Init /\ [][Next]_vars /\ WF_vars(Read) /\ WF_vars(Timeout) /\ \A r \in Reqs : WF_vars(Issue(r))
OnlyOwnResponse == \A r \in Reqs : result[r] = "ok" => got[r] = r
AtMostOnce == \A r \in Reqs : times[r] <= 1
CompletedOnce == \A r \in Reqs : (result[r] # "none") <=> (times[r] = 1)
EveryRequestCompletes == \A r \in Reqs : <>(result[r] # "none")
=============================================================================
