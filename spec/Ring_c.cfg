SPECIFICATION Spec
CONSTANTS Pushers = {"p1", "p2", "p3"} PerPusher = 2 MaxLen = 1 MinCap = 2 Forcers = {} AllowDie = TRUE
INVARIANTS Fifo QueueIsUnprocessedSuffix OneWorkerAtATime ParkedOnlyWhileFull DeadRejects NoLossAtEnd
PROPERTY Termination
CHECK_DEADLOCK FALSE
