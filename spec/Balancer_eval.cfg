INIT Init
NEXT Next
CONSTANTS Mode = "eval" Seed = 1 N = 0 InFile = "bal_rows.ndjson" OutFile = "bal_bad.ndjson"
