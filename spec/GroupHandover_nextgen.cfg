SPECIFICATION Spec
CONSTANTS Members = {"m1", "m2", "m3"} Parts = {"p0", "p1", "p2"} Protocol = "nextgen" AckBeforeRevokeEnds = FALSE MaxChanges = 4
INVARIANTS NoDoubleOwner GrantCoversOwner
CHECK_DEADLOCK FALSE
