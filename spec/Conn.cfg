SPECIFICATION Spec
CONSTANTS Reqs = {1, 2, 3} MatchHead = TRUE
INVARIANTS OnlyOwnResponse AtMostOnce CompletedOnce
PROPERTIES EveryRequestCompletes
CHECK_DEADLOCK FALSE
