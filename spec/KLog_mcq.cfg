SPECIFICATION Spec
CONSTANTS Pids = {1, 2} MaxBatches = 4 MaxRecs = 2 MaxCompact = 1 EmitAt = 99
INVARIANTS Contiguous LSOBound CommittedExactly NeverPassesData
CHECK_DEADLOCK FALSE
