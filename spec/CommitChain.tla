------------------------------- MODULE CommitChain -------------------------------
(* Offset commits of one group member (consumer_group.go: commit, commitDone / priorDone chaining; broker.go: one      *)
(* connection per broker and request class, requests on a connection are answered in the order written), property C09. *)
(* The application issues commits 1..N one after the other; commit c carries offset Off[c] (any values, also           *)
(* rewinding). Issuing is one step under g.mu: remember the previous commit's done channel, install ours. A goroutine  *)
(* per commit then waits for the previous commit to be done, writes its request on the connection, and is done when    *)
(* the answer is back. The coordinator takes requests of one connection in order, but requests of different            *)
(* connections in any order; it may refuse a request with a retriable error (nothing is stored), in which case the     *)
(* client writes the same request again (bounded) or gives up.                                                         *)
(* Policy = "wait"        what the code does: never cancel the previous commit, wait for it.                            *)
(* Policy = "cancelprior" the mutant the code comments warn about: cancel the previous commit when a new one is        *)
(*                        issued. Cancelling a request in flight kills its connection; the request that was written    *)
(*                        may still be handled, and the next request travels on a fresh connection.                    *)
(* Policy = "nowait"      the mutant that does not chain at all (each commit writes as soon as its goroutine runs).     *)
(* UserCancel = TRUE additionally lets the application's own context cancel a commit in flight (same effect on the     *)
(* connection). That configuration is kept as a stated boundary of the design, not as a verdict on the code.           *)
EXTENDS Integers, Sequences, FiniteSets, TLC
CONSTANTS N, MaxOff, MaxRetry, Policy, UserCancel
VARIABLES Off,        \* the offset each commit carries: chosen freely at the start (increasing, equal, rewinding), then fixed
          issued,     \* number of commits issued so far (commit ids are 1..issued)
          st,         \* st[c] \in {"none","waiting","written","done"}
          res,        \* res[c] \in {"none","ok","failed","cancelled"}
          tries,      \* tries[c]: how often c was written
          conns,      \* sequence of connections, each a sequence of commit ids written and not yet handled; the last one is live
          answers,    \* set of <<c, "ok"|"retriable">> answers on their way back on the live connection
          arrived,    \* sequence of commit ids in the order the coordinator handled them (refused ones included)
          stored      \* offset stored at the coordinator, -1 = none
vars == <<Off, issued, st, res, tries, conns, answers, arrived, stored>>
C == 1..N
Init == /\ Off \in [1..N -> 0..MaxOff] /\ issued = 0 /\ st = [c \in C |-> "none"] /\ res = [c \in C |-> "none"] /\ tries = [c \in C |-> 0]
        /\ conns = << <<>> >> /\ answers = {} /\ arrived = <<>> /\ stored = -1
Live == Len(conns)
(* cancelling c while it is in flight: the connection dies (requests already written stay with the coordinator), answers on it are lost *)
Kill(c) == /\ conns' = Append(conns, <<>>) /\ answers' = {}
Issue == /\ issued < N
         /\ LET c == issued + 1 IN
            /\ issued' = c /\ st' = [st EXCEPT ![c] = "waiting"]
            /\ IF Policy = "cancelprior" /\ c > 1 /\ st[c - 1] = "written"
                  THEN Kill(c - 1) /\ res' = [res EXCEPT ![c - 1] = "cancelled"]
                  ELSE UNCHANGED <<conns, answers, res>>
         /\ UNCHANGED <<tries, arrived, stored>>
(* a cancelled commit's goroutine notices and finishes (cancelprior only) *)
FinishCancelled(c) == /\ st[c] = "written" /\ res[c] = "cancelled" /\ st' = [st EXCEPT ![c] = "done"]
                      /\ UNCHANGED <<issued, res, tries, conns, answers, arrived, stored>>
PriorDone(c) == IF c = 1 \/ Policy = "nowait" THEN TRUE ELSE st[c - 1] = "done"
Write(c) == /\ st[c] = "waiting" /\ PriorDone(c)
            /\ st' = [st EXCEPT ![c] = "written"] /\ tries' = [tries EXCEPT ![c] = 1]
            /\ conns' = [conns EXCEPT ![Live] = Append(@, c)]
            /\ UNCHANGED <<issued, res, answers, arrived, stored>>
(* the coordinator handles the head of any connection; only answers on the live connection can come back *)
Handle(k) == /\ k \in 1..Len(conns) /\ conns[k] # <<>>
             /\ LET c == Head(conns[k]) IN
                /\ conns' = [conns EXCEPT ![k] = Tail(@)]
                /\ arrived' = Append(arrived, c)
                /\ \E a \in {"ok", "retriable"} :
                     /\ stored' = IF a = "ok" THEN Off[c] ELSE stored
                     /\ answers' = IF k = Live THEN answers \cup {<<c, a>>} ELSE answers
             /\ UNCHANGED <<issued, st, res, tries>>
Answer(c) == /\ st[c] = "written" /\ res[c] = "none"
             /\ \E a \in {"ok", "retriable"} :
                  /\ <<c, a>> \in answers /\ answers' = answers \ {<<c, a>>}
                  /\ \/ a = "ok" /\ res' = [res EXCEPT ![c] = "ok"] /\ st' = [st EXCEPT ![c] = "done"] /\ UNCHANGED <<tries, conns>>
                     \/ a = "retriable" /\ tries[c] <= MaxRetry     \* written again on the same connection, still before any later commit
                        /\ tries' = [tries EXCEPT ![c] = @ + 1] /\ conns' = [conns EXCEPT ![Live] = Append(@, c)] /\ UNCHANGED <<res, st>>
                     \/ a = "retriable" /\ tries[c] > MaxRetry
                        /\ res' = [res EXCEPT ![c] = "failed"] /\ st' = [st EXCEPT ![c] = "done"] /\ UNCHANGED <<tries, conns>>
             /\ UNCHANGED <<issued, arrived, stored>>
Cancel(c) == /\ UserCancel /\ st[c] = "written" /\ res[c] = "none"
             /\ Kill(c) /\ res' = [res EXCEPT ![c] = "cancelled"] /\ st' = [st EXCEPT ![c] = "done"]
             /\ UNCHANGED <<issued, tries, arrived, stored>>
Next == UNCHANGED Off /\ (Issue \/ (\E c \in C : Write(c) \/ Answer(c) \/ Cancel(c) \/ FinishCancelled(c)) \/ (\E k \in 1..(N + 1) : Handle(k)))
Spec == Init /\ [][Next]_vars /\ WF_vars(Next)

(* C09, first sentence: commits reach the coordinator in the order issued (a commit may arrive several times in a row when it is retried) *)
ArrivalInIssueOrder == \A i, j \in DOMAIN arrived : i < j => arrived[i] <= arrived[j]
(* C09, second sentence: after everything finished (and nothing is left with the coordinator) the stored offset is that of the last successful commit *)
Quiet == issued = N /\ (\A c \in C : st[c] = "done") /\ (\A k \in DOMAIN conns : conns[k] = <<>>)
Succ == {c \in C : res[c] = "ok"}
LastWins == Quiet /\ Succ # {} => stored = Off[CHOOSE c \in Succ : \A d \in Succ : d <= c]
(* a commit whose result is "ok" was stored at some point: its arrival is on record *)
OkWasHandled == \A c \in Succ : \E i \in DOMAIN arrived : arrived[i] = c
(* at most one commit is in flight under the code's policy *)
OneInFlight == Policy = "wait" => Cardinality({c \in C : st[c] = "written"}) <= 1
(* liveness: every issued commit finishes *)
AllFinish == <>[](issued = N /\ \A c \in C : st[c] = "done")
=============================================================================
