-------------------------------- MODULE PartSM --------------------------------
(* C28, part 2: the pinned-partition partitioners of pkg/kgo/partitioner.go as  *)
(* one nondeterministic state machine per kind.  kinds: "sticky" (also the       *)
(* key partitioner for records without key), "roundrobin", "leastbackup",        *)
(* "uniform" (UniformBytes, non-adaptive and adaptive share the abstraction).    *)
(* Partition(n) is called with the number of currently available partitions,     *)
(* which may shrink or grow between calls; NewBatch is the OnNewBatch callback.  *)
EXTENDS Integers, Sequences, FiniteSets, TLC
CONSTANTS Kinds, MaxN, Limit, Sizes
VARIABLES kind, onPart, lastPart, rr, bytes, last
vars == <<kind, onPart, lastPart, rr, bytes, last>>
Init == kind \in Kinds /\ onPart = -1 /\ lastPart = -1 /\ rr = 0 /\ bytes = 0 /\ last = [n |-> 0, got |-> 0]
\* sticky: keep the pinned partition while it is valid; otherwise pick any, avoiding the previous batch's partition when possible
StickyPart(n, got) == /\ kind = "sticky"
                      /\ IF onPart = -1 \/ onPart >= n THEN got \in 0..(n - 1) /\ (n > 1 => got # lastPart) ELSE got = onPart
                      /\ onPart' = got /\ UNCHANGED <<lastPart, rr, bytes>>
RoundRobinPart(n, got) == /\ kind = "roundrobin"
                          /\ got = (IF rr >= n THEN 0 ELSE rr) /\ rr' = got + 1 /\ UNCHANGED <<onPart, lastPart, bytes>>
\* least backup: re-pick (any least backed-up partition; abstracted to any) when unpinned or out of range
LeastBackupPart(n, got) == /\ kind = "leastbackup"
                           /\ IF onPart = -1 \/ onPart >= n THEN got \in 0..(n - 1) ELSE got = onPart
                           /\ onPart' = got /\ UNCHANGED <<lastPart, rr, bytes>>
\* uniform bytes: switch once the byte budget is used up, or when the pinned partition is no longer available
UniformPart(n, got, size) == /\ kind = "uniform"
                             /\ LET nb == bytes + size  reset == nb >= Limit  pinned == IF reset THEN -1 ELSE onPart IN
                                /\ bytes' = IF reset THEN size ELSE nb
                                /\ IF pinned >= 0 /\ pinned < n THEN got = pinned ELSE got \in 0..(n - 1)
                             /\ onPart' = got /\ UNCHANGED <<lastPart, rr>>
Part(n, got, size) == /\ (StickyPart(n, got) \/ RoundRobinPart(n, got) \/ LeastBackupPart(n, got) \/ UniformPart(n, got, size))
                      /\ last' = [n |-> n, got |-> got] /\ UNCHANGED kind
NewBatch == /\ kind \in {"sticky", "leastbackup"}
            /\ IF kind = "sticky" THEN lastPart' = onPart ELSE UNCHANGED lastPart
            /\ onPart' = -1 /\ UNCHANGED <<kind, rr, bytes, last>>
Next == \/ \E n \in 1..MaxN, got \in 0..(MaxN - 1), size \in Sizes : Part(n, got, size)
        \/ NewBatch
Spec == Init /\ [][Next]_vars
\* the property: every pick is a valid index for the n it was asked with, also after n shrank
InRange == last.got >= 0 /\ (last.n > 0 => last.got < last.n)
=============================================================================
