INIT Init
NEXT Next
CONSTANTS Mode = "rand" N = 4000 OutFile = "lag_cases.ndjson"
