---------------------------------- MODULE Eos ----------------------------------
(* Design model for C10: GroupTransactSession members (pkg/kgo/txn.go) consume input partitions, produce one output per    *)
(* input record inside a transaction and End it; the group rebalances underneath them.                                     *)
(*   Poll(m)      the member takes the next record of a partition it owns into its open transaction (output buffered)      *)
(*   Revoke(m,p)  the group takes p away from m (cooperative: only p; eager: everything m owns). If m has an open           *)
(*                transaction the session is marked revoked: its End must not commit                                        *)
(*   Assign(p,m)  an unowned partition is given to m, which starts at the group's committed offset                          *)
(*   End(m)       session not revoked: TxnOffsetCommit + EndTxn(commit) atomically move the committed offsets past what     *)
(*                was polled and make the outputs visible. Revoked: the transaction aborts, its outputs are never          *)
(*                visible, and the member REWINDS every partition it still owns to the committed offset.                    *)
(* RewindKept = FALSE is the mutant "after a revoke the abort does not rewind the partitions the member keeps"              *)
(* A member that is given partitions again before it ends the revoked transaction loses records in eager groups too.        *)
EXTENDS Integers, Sequences, FiniteSets, TLC
CONSTANTS Members, Parts, N,          \* N input records per partition (offsets 0..N-1)
          Cooperative, RewindKept, MaxRevokes
None == "none"
VARIABLES owner, committed, pos, polled, revoked, out, revokes
vars == <<owner, committed, pos, polled, revoked, out, revokes>>
Init == /\ owner = [p \in Parts |-> None] /\ committed = [p \in Parts |-> 0]
        /\ pos = [m \in Members |-> [p \in Parts |-> 0]]
        /\ polled = [m \in Members |-> {}]            \* <<p, o>> taken in the open transaction
        /\ revoked = [m \in Members |-> FALSE]
        /\ out = <<>> /\ revokes = 0                  \* out: inputs whose output is visible to read_committed, in commit order

Assign(p, m) == /\ owner[p] = None
                /\ owner' = [owner EXCEPT ![p] = m]
                /\ pos' = [pos EXCEPT ![m][p] = committed[p]]
                /\ UNCHANGED <<committed, polled, revoked, out, revokes>>
Poll(m) == \E p \in Parts :
             /\ owner[p] = m /\ pos[m][p] < N /\ Cardinality(polled[m]) < 2
             /\ polled' = [polled EXCEPT ![m] = @ \cup {<<p, pos[m][p]>>}]
             /\ pos' = [pos EXCEPT ![m][p] = @ + 1]
             /\ UNCHANGED <<owner, committed, revoked, out, revokes>>
Lost(m, p) == IF Cooperative THEN {p} ELSE {q \in Parts : owner[q] = m}
Revoke(m, p) == /\ owner[p] = m /\ revokes < MaxRevokes
                /\ owner' = [q \in Parts |-> IF q \in Lost(m, p) THEN None ELSE owner[q]]
                /\ revoked' = [revoked EXCEPT ![m] = @ \/ polled[m] # {}]
                /\ revokes' = revokes + 1
                /\ UNCHANGED <<committed, pos, polled, out>>
RECURSIVE SetToSeq(_)
SetToSeq(S) == IF S = {} THEN <<>> ELSE LET x == CHOOSE y \in S : TRUE IN <<x>> \o SetToSeq(S \ {x})
End(m) == /\ polled[m] # {}
          /\ IF ~revoked[m]
               THEN /\ committed' = [p \in Parts |-> LET O == {x[2] : x \in {y \in polled[m] : y[1] = p}} IN
                                                     IF O = {} THEN committed[p] ELSE (CHOOSE o \in O : \A o2 \in O : o2 <= o) + 1]
                    /\ out' = out \o SetToSeq(polled[m])
                    /\ pos' = pos
               ELSE /\ UNCHANGED <<committed, out>>
                    /\ pos' = [pos EXCEPT ![m] = [p \in Parts |-> IF owner[p] = m /\ RewindKept THEN committed[p] ELSE pos[m][p]]]
          /\ polled' = [polled EXCEPT ![m] = {}]
          /\ revoked' = [revoked EXCEPT ![m] = FALSE]
          /\ UNCHANGED <<owner, revokes>>
Next == \E m \in Members : Poll(m) \/ End(m) \/ \E p \in Parts : Assign(p, m) \/ Revoke(m, p)
Spec == Init /\ [][Next]_vars /\ WF_vars(Next)
----------------------------------------------------------------------------
Count(x) == Cardinality({i \in DOMAIN out : out[i] = x})
\* exactly once, stated on every state: nothing visible twice; everything below a committed offset is visible
NoDuplicate == \A p \in Parts, o \in 0..(N - 1) : Count(<<p, o>>) <= 1
NoLoss == \A p \in Parts, o \in 0..(N - 1) : o < committed[p] => Count(<<p, o>>) = 1
\* a member only commits offsets of partitions it still owns (a revoked session never commits)
CommitOnlyOwned == \A m \in Members : (~revoked[m]) => \A x \in polled[m] : owner[x[1]] = m
\* at rest everything has been processed
Drained == (\A p \in Parts : committed[p] = N) => (\A p \in Parts, o \in 0..(N - 1) : Count(<<p, o>>) = 1)
=============================================================================
