SPECIFICATION Spec
CONSTANT EnqueueAfterRenew = FALSE
INVARIANTS AtMostOneFinal SentIsDecided
PROPERTIES DecisionIsSent
CHECK_DEADLOCK FALSE
