SPECIFICATION Spec
CONSTANTS Pids = {1, 2} MaxBatches = 4 MaxRecs = 2 MaxCompact = 1 EmitAt = 2
INVARIANTS Emit
CHECK_DEADLOCK FALSE
