CONSTANTS SeqMod = 32 MaxN = 3 MaxInflight = 2 MaxBatches = 4 MaxFaults = 3 Starts = {26, 29, 30, 31} GuardedRewind = FALSE Sequential = FALSE
SPECIFICATION Spec
VIEW View
INVARIANTS NoOutOfOrder SameSeq Chained ExactlyOnce AgreeAtRest
CHECK_DEADLOCK FALSE
