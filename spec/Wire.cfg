INIT Init
NEXT Next
CONSTANT OutFile = "wire_cases.ndjson"
