------------------------------- MODULE PersistTrace -------------------------------
(* Trace specification (binding V) for C33: one scenario per post-crash image:                                       *)
(*   reset(prefix, mode, clean), crash(after_op), then restart_failed | recovered(...).                               *)
(* Persist.tla's invariants on what the driver observed through the protocol after restarting kfake on the image:      *)
(*   RecoveredContainsAcked  every produce and offset commit acknowledged before the crash point is there;              *)
(*   OffsetsContiguous       offsets strictly increase; no record that was never sent (no partial entry visible);      *)
(*   records of aborted transactions stay invisible; a clean Close + restart gives the identical state.                 *)
EXTENDS Integers, Sequences, TLC, Json
CONSTANT TraceFile
TraceLog == ndJsonDeserialize(TraceFile)
VARIABLES l, traces
vars == <<l, traces>>
Init == l = 1 /\ traces = 0
Ev == TraceLog[l]
Checks(e) ==
  CASE e.ev = "restart_failed" -> << <<FALSE, "restarting on the post-crash directory failed">> >>
    [] e.ev = "after_recovery" -> << <<e.err = "", "the recovered broker cannot serve what it holds after further acknowledged produces">>,
                                     <<Len(e.missing) = 0, "a record is missing when the recovered broker is read again after further acknowledged produces">>,
                                     <<e.contiguous, "offsets are not strictly increasing after recovery and further produces">> >>
    [] e.ev = "recovered" -> << <<Len(e.missing) = 0, "an acknowledged produce is missing after recovery">>,
                                <<Len(e.lost_commits) = 0, "an acknowledged offset commit is missing after recovery">>,
                                <<e.contiguous, "recovered offsets are not strictly increasing">>,
                                <<Len(e.unknown) = 0, "a record that was never sent is visible after recovery">>,
                                <<Len(e.aborted_visible) = 0, "a record of an aborted transaction is visible after recovery">>,
                                <<e.identical_after_clean_close, "state after a clean Close and restart differs from the state before Close">> >>
    [] e.ev = "driver_failed" -> << <<FALSE, "driver died">> >>
    [] OTHER -> <<>>
Ok(e) == \A i \in DOMAIN Checks(e) : Checks(e)[i][1]
Why(e) == LET C == Checks(e) bad == {i \in DOMAIN C : ~C[i][1]} IN IF bad = {} THEN "" ELSE C[CHOOSE i \in bad : \A j \in bad : i <= j][2]
Next == l <= Len(TraceLog) /\ Ok(Ev) /\ l' = l + 1 /\ traces' = (IF Ev.ev = "reset" THEN traces + 1 ELSE traces)
Spec == Init /\ [][Next]_vars
Accepted == (l = Len(TraceLog) + 1) => PrintT(<<"ACCEPTED", Len(TraceLog), traces>>)
Rejected == (l <= Len(TraceLog) /\ ~Ok(Ev)) => PrintT(<<"REJECTED-AT", l, Why(Ev), ToJson(Ev)>>)
=============================================================================
