------------------------------- MODULE Idem -------------------------------
(* Prototype core of IdemProduce.tla: one partition, one sink.             *)
(* Client: recBuf sequence/rewind logic of pkg/kgo/sink.go (createReq,     *)
(* handleSeqResps order, handleReqRespBatch, handleRetryBatches,           *)
(* finishBatch, decInflight). Broker: kfake pidwindow.pushAndValidate.     *)
(* Environment: a request is lost before handling, handled with the        *)
(* response lost, answered with a retriable error, or answered.            *)
EXTENDS Naturals, Sequences, FiniteSets, TLC
CONSTANTS NBatches, MaxInflight, Window, SeqMod, MaxFaults
Batches == 1..NBatches
VARIABLES pending,    \* client: sequence of batch ids not yet finished (head = first batch)
          drainIdx, seq, batch0Seq, inflight, okOnSink, failing, needReset, epoch,
          reqs,       \* in issue order: [b, seq, ep, st] st: "sent" | "ok" | "retry" | "ooosn" | "lost"; off
          blog,       \* broker log: sequence of batch ids
          wEpoch, wSeen, wNext, wEntries,   \* pid window: entries = sequence of [first, next, off]
          promised,   \* batch -> offset
          faults, nextBuf
vars == <<pending, drainIdx, seq, batch0Seq, inflight, okOnSink, failing, needReset, epoch, reqs, blog,
          wEpoch, wSeen, wNext, wEntries, promised, faults, nextBuf>>
Inc(s) == (s + 1) % SeqMod
Init == /\ pending = <<>> /\ drainIdx = 0 /\ seq = 0 /\ batch0Seq = 0 /\ inflight = 0
        /\ okOnSink = FALSE /\ failing = FALSE /\ needReset = FALSE /\ epoch = 0
        /\ reqs = <<>> /\ blog = <<>> /\ wEpoch = 0 /\ wSeen = FALSE /\ wNext = 0 /\ wEntries = <<>>
        /\ promised = [b \in {} |-> 0] /\ faults = 0 /\ nextBuf = 1
Buffer == /\ nextBuf <= NBatches /\ pending' = Append(pending, nextBuf) /\ nextBuf' = nextBuf + 1
          /\ UNCHANGED <<drainIdx, seq, batch0Seq, inflight, okOnSink, failing, needReset, epoch, reqs, blog,
                         wEpoch, wSeen, wNext, wEntries, promised, faults>>
CreateReq ==
  /\ ~failing /\ drainIdx < Len(pending) /\ (inflight = 0 \/ okOnSink) /\ inflight < MaxInflight
  /\ LET first == drainIdx = 0
         s0 == IF first /\ needReset THEN 0 ELSE seq
     IN /\ reqs' = Append(reqs, [b |-> pending[drainIdx + 1], seq |-> s0, ep |-> epoch, st |-> "sent", off |-> 0])
        /\ seq' = Inc(s0)
        /\ batch0Seq' = IF first /\ needReset THEN 0 ELSE batch0Seq
        /\ needReset' = IF first THEN FALSE ELSE needReset
  /\ drainIdx' = drainIdx + 1 /\ inflight' = inflight + 1
  /\ UNCHANGED <<pending, okOnSink, failing, epoch, blog, wEpoch, wSeen, wNext, wEntries, promised, faults, nextBuf>>
\* the broker handles the oldest unhandled request (connection order)
FirstSent == CHOOSE i \in 1..Len(reqs) : reqs[i].st = "sent" /\ \A j \in 1..(i-1) : reqs[j].st # "sent"
HasSent == \E i \in 1..Len(reqs) : reqs[i].st = "sent"
Validate(r) ==   \* pidwindow.pushAndValidate
  IF ~wSeen \/ r.ep # wEpoch
    THEN IF wSeen /\ r.seq # 0 THEN [res |-> "ooosn"] ELSE [res |-> "new"]
    ELSE IF \E k \in 1..Len(wEntries) : wEntries[k].first = r.seq /\ wEntries[k].next = Inc(r.seq)
           THEN [res |-> "dup", off |-> wEntries[CHOOSE k \in 1..Len(wEntries) : wEntries[k].first = r.seq /\ wEntries[k].next = Inc(r.seq)].off]
           ELSE IF r.seq # wNext THEN [res |-> "ooosn"] ELSE [res |-> "append"]
Push(ents, e) == IF Len(ents) < Window THEN Append(ents, e) ELSE Append(Tail(ents), e)
BrokerHandle(lose) ==
  /\ HasSent /\ (lose => faults < MaxFaults)
  /\ LET i == FirstSent  r == reqs[i]  v == Validate(r)  off == Len(blog) IN
     /\ CASE v.res \in {"new", "append"} ->
               /\ blog' = Append(blog, r.b)
               /\ wSeen' = TRUE /\ wEpoch' = r.ep /\ wNext' = Inc(r.seq)
               /\ wEntries' = IF v.res = "new" THEN <<[first |-> r.seq, next |-> Inc(r.seq), off |-> off]>>
                                               ELSE Push(wEntries, [first |-> r.seq, next |-> Inc(r.seq), off |-> off])
               /\ reqs' = [reqs EXCEPT ![i].st = IF lose THEN "lost" ELSE "ok", ![i].off = off]
          [] v.res = "dup" ->
               /\ reqs' = [reqs EXCEPT ![i].st = IF lose THEN "lost" ELSE "ok", ![i].off = v.off]
               /\ UNCHANGED <<blog, wSeen, wEpoch, wNext, wEntries>>
          [] v.res = "ooosn" ->
               /\ reqs' = [reqs EXCEPT ![i].st = IF lose THEN "lost" ELSE "ooosn"]
               /\ UNCHANGED <<blog, wSeen, wEpoch, wNext, wEntries>>
     /\ faults' = IF lose THEN faults + 1 ELSE faults
  /\ UNCHANGED <<pending, drainIdx, seq, batch0Seq, inflight, okOnSink, failing, needReset, epoch, promised, nextBuf>>
\* request dies before the broker sees it, or the broker answers a retriable error without appending
EnvFail(kind) == /\ HasSent /\ faults < MaxFaults /\ faults' = faults + 1
                 /\ reqs' = [reqs EXCEPT ![FirstSent].st = kind]
                 /\ UNCHANGED <<pending, drainIdx, seq, batch0Seq, inflight, okOnSink, failing, needReset, epoch,
                                blog, wEpoch, wSeen, wNext, wEntries, promised, nextBuf>>
\* handleSeqResps: strictly in issue order
HandleResp ==
  /\ Len(reqs) > 0 /\ reqs[1].st # "sent"
  /\ LET r == Head(reqs)  isFirst == Len(pending) > 0 /\ pending[1] = r.b IN
     /\ reqs' = Tail(reqs)
     /\ inflight' = inflight - 1
     /\ IF ~isFirst
          THEN UNCHANGED <<pending, drainIdx, seq, batch0Seq, okOnSink, failing, needReset, epoch, promised>>
          ELSE CASE r.st = "ok" ->
                    /\ pending' = Tail(pending) /\ drainIdx' = drainIdx - 1
                    /\ batch0Seq' = Inc(batch0Seq) /\ okOnSink' = TRUE
                    /\ promised' = [b \in DOMAIN promised \cup {r.b} |-> IF b = r.b THEN r.off ELSE promised[b]]
                    /\ UNCHANGED <<seq, failing, needReset, epoch>>
               [] r.st \in {"retry", "lost"} ->
                    /\ drainIdx' = 0 /\ seq' = batch0Seq /\ okOnSink' = FALSE
                    /\ failing' = (r.st = "retry")
                    /\ UNCHANGED <<pending, batch0Seq, needReset, epoch, promised>>
               [] r.st = "ooosn" ->              \* failProducerID(errReloadProducerID): local epoch bump + seq reset
                    /\ drainIdx' = 0 /\ seq' = batch0Seq /\ okOnSink' = FALSE
                    /\ epoch' = epoch + 1 /\ needReset' = TRUE
                    /\ UNCHANGED <<pending, batch0Seq, failing, promised>>
  /\ UNCHANGED <<blog, wEpoch, wSeen, wNext, wEntries, faults, nextBuf>>
MetaUpdate == /\ failing /\ failing' = FALSE
              /\ UNCHANGED <<pending, drainIdx, seq, batch0Seq, inflight, okOnSink, needReset, epoch, reqs, blog,
                             wEpoch, wSeen, wNext, wEntries, promised, faults, nextBuf>>
Next == Buffer \/ CreateReq \/ BrokerHandle(TRUE) \/ BrokerHandle(FALSE) \/ EnvFail("lost") \/ EnvFail("retry")
        \/ HandleResp \/ MetaUpdate
Spec == Init /\ [][Next]_vars /\ WF_vars(Buffer) /\ WF_vars(CreateReq) /\ WF_vars(BrokerHandle(FALSE))
             /\ WF_vars(HandleResp) /\ WF_vars(MetaUpdate)

AckedAtOffset == \A b \in DOMAIN promised : promised[b] < Len(blog) /\ blog[promised[b] + 1] = b
ExactlyOnce == \A i, j \in 1..Len(blog) : blog[i] = blog[j] => i = j
InOrder == \A i, j \in 1..Len(blog) : i < j => blog[i] < blog[j]
NoEpochBump == epoch = 0        \* with MaxInflight <= Window the client never needs the OOOSN recovery
SeqConsistent == seq = (batch0Seq + drainIdx) % SeqMod \/ needReset
AllAcked == <>(DOMAIN promised = Batches)
=============================================================================
