---------------------------------- MODULE Txn ----------------------------------
(* Design model for C11 (and the producer half of C10): one transactional producer (pkg/kgo/txn.go BeginTransaction,      *)
(* EndTransaction; producer.go producingTxn / endUnconfirmed / failProducerID) against the transaction coordinator and     *)
(* one partition log (pkg/kfake/txns.go), with the faults of the D-TXN driver: an EndTxn answer lost after the             *)
(* coordinator wrote the marker (the client retries the request), and an EndTxn answered with a fatal code without being    *)
(* handled (EndTransaction returns the error, the producer id is failed, the application retries with TryAbort).            *)
(*   Begin       BeginTransaction; a failed producer id is reloaded first: InitProducerID bumps the epoch and the           *)
(*               coordinator aborts whatever that id still had open ("fence-abort")                                          *)
(*   Produce     a record of the transaction is appended under the client's epoch (first one registers the partition);      *)
(*               or it fails and is not appended; or (Ghost) it is appended but the client is told it failed: the answer    *)
(*               was lost and the retry got a fatal code, so nothing is registered at the client ("attempted" only).        *)
(*               While an End is unconfirmed the client refuses records (not in txn).                                       *)
(*   EndSend     EndTransaction(commit | abort) with something to end: EndTxn goes out                                       *)
(*   EndNothing  EndTransaction with nothing registered: returns without a request — unless produces were attempted and the  *)
(*               broker bumps epochs per transaction (KIP-890 part 2): then an abort is sent whatever was asked, to clear     *)
(*               what the attempts may have left at the broker (EndSend with the commit flag forced to FALSE)               *)
(*   EndUnconf   EndTransaction after an unconfirmed End: a commit is refused with an error, an abort succeeds; both         *)
(*               through the producer id reload (fence-abort)                                                               *)
(*   Handle      the coordinator handles EndTxn: writes the marker if the transaction is ongoing; answers a retry of the     *)
(*               request it already completed with success; anything else is INVALID_TXN_STATE / fenced                      *)
(*   Deliver     the answer reaches the client: End returns nil (reported), or the error                                     *)
(*   Lose        the answer is lost after handling; the client sends the request again                                       *)
(*   Refuse      the coordinator answers with a fatal code without handling: End returns the error, producer id failed,      *)
(*               inTxn restored, endUnconfirmed set                                                                          *)
(* Reload = FALSE is the mutant "a failed producer id is not reloaded": the unconfirmed transaction's records ride along     *)
(* with the next commit. AbortAttempted = FALSE is the mutant "an abort with nothing registered sends nothing even though   *)
(* produces were attempted": a ghost record rides along with the next commit.                                               *)
EXTENDS Integers, Sequences, FiniteSets, TLC, Json
CONSTANTS MaxTxn, MaxRec, MaxFaults, Reload, Bump, AbortAttempted,   \* Bump: KIP-890 part 2, every EndTxn bumps the epoch
          Driver,   \* TRUE: scenario generation — the application of the D-TXN driver: records fail only while an End is unconfirmed,
                    \* a failed End is always retried as TryAbort
          OnePerRequest   \* fault model of the drivers: at most one fault on the transmissions of one EndTxn. Without it the answer of a
                          \* handled commit can be lost AND its retry refused: End reports an error for a committed transaction, which
                          \* no client can avoid (Txn_twofaults.cfg shows TLC finding exactly that)
VARIABLES cst, cep, clast, log,            \* coordinator: Empty / Ongoing / Complete, epoch, kind of the last completed end; the partition log
          ep, failed, inTxn, unconf, producing, txn, added, attempted,   \* client
          req,                             \* EndTxn in flight: [commit, ep, st] st: "sent" | "ok" | "bad", or None
          rec, report, faults,
          hist                             \* what the application and the faults did, for scenario export (hidden by VIEW)
vars == <<cst, cep, clast, log, ep, failed, inTxn, unconf, producing, txn, added, attempted, req, rec, report, faults, hist>>
view == <<cst, cep, clast, log, ep, failed, inTxn, unconf, producing, txn, added, attempted, req, rec, report, faults>>
H(e) == hist' = Append(hist, e)
None == [st |-> "none"]
Init == /\ cst = "Empty" /\ cep = 0 /\ clast = "none" /\ log = <<>>
        /\ ep = 0 /\ failed = FALSE /\ inTxn = FALSE /\ unconf = FALSE /\ producing = FALSE /\ txn = 0 /\ added = FALSE /\ attempted = FALSE
        /\ req = None /\ rec = <<>> /\ report = <<>> /\ faults = 0 /\ hist = <<>>
coord == <<cst, cep, clast, log>>

\* InitProducerID for the same transactional id: epoch bump, open transaction aborted
FenceAbort == /\ cep' = cep + 1
              /\ log' = IF cst = "Ongoing" THEN Append(log, [k |-> "marker", commit |-> FALSE]) ELSE log
              /\ cst' = "Empty" /\ clast' = "none"
ReloadPid == IF failed /\ Reload THEN FenceAbort /\ ep' = cep + 1 /\ failed' = FALSE
             ELSE UNCHANGED coord /\ ep' = ep /\ failed' = (failed /\ Reload)   \* the mutant keeps using the old id and epoch

Begin == /\ ~inTxn /\ req = None /\ txn < MaxTxn
         /\ ReloadPid
         /\ inTxn' = TRUE /\ producing' = TRUE /\ txn' = txn + 1 /\ added' = FALSE /\ attempted' = FALSE /\ unconf' = FALSE
         /\ report' = Append(report, "open") /\ H([op |-> "begin"])
         /\ UNCHANGED <<req, rec, faults>>

Produce == /\ inTxn /\ req = None /\ Len(rec) < MaxRec
           /\ \/ /\ producing /\ ep = cep /\ ~(attempted /\ ~added)   \* appended and acknowledged (not after a ghost: the application gives the transaction up)
                 /\ log' = Append(log, [k |-> "data", id |-> Len(rec) + 1])
                 /\ cst' = "Ongoing" /\ added' = TRUE /\ attempted' = TRUE
                 /\ rec' = Append(rec, [txn |-> txn, ok |-> TRUE]) /\ H([op |-> "produce", ok |-> TRUE, ghost |-> FALSE])
                 /\ UNCHANGED <<cep, clast, faults>>
              \/ /\ (Driver => unconf)
                 /\ rec' = Append(rec, [txn |-> txn, ok |-> FALSE]) /\ H([op |-> "produce", ok |-> FALSE, ghost |-> FALSE])   \* refused by the client or failed: never appended
                 /\ attempted' = (attempted \/ ~unconf)
                 /\ UNCHANGED <<coord, added, faults>>
              \/ /\ Bump /\ producing /\ ep = cep /\ ~added /\ ~attempted /\ faults < MaxFaults   \* ghost: in the log, reported as failed
                 /\ log' = Append(log, [k |-> "data", id |-> Len(rec) + 1])
                 /\ cst' = "Ongoing" /\ attempted' = TRUE /\ faults' = faults + 1
                 /\ rec' = Append(rec, [txn |-> txn, ok |-> FALSE]) /\ H([op |-> "produce", ok |-> FALSE, ghost |-> TRUE])
                 /\ UNCHANGED <<cep, clast, added>>
           /\ UNCHANGED <<ep, failed, inTxn, unconf, producing, txn, req, report>>

Report(r) == report' = [report EXCEPT ![txn] = r]
MustClear(commit) == Bump /\ attempted /\ (AbortAttempted \/ commit)   \* KIP-890 part 2: attempts may have left something at the broker
EndNothing(commit) == /\ inTxn /\ req = None /\ ~unconf /\ ~added /\ ~MustClear(commit)
                      /\ inTxn' = FALSE /\ producing' = FALSE /\ Report(IF commit THEN "committed" ELSE "aborted") /\ H([op |-> "end", commit |-> commit])
                      /\ UNCHANGED <<coord, ep, failed, unconf, txn, added, attempted, req, rec, faults>>
\* ask: what the application asked for (and is told on success); commit: what goes on the wire
EndSend(commit) == /\ inTxn /\ req = None /\ ~unconf /\ (added \/ MustClear(commit))
                   /\ inTxn' = FALSE /\ producing' = FALSE /\ added' = FALSE
                   /\ req' = [st |-> "sent", commit |-> (commit /\ added), ask |-> commit, ep |-> ep, f |-> FALSE] /\ H([op |-> "end", commit |-> commit])
                   /\ UNCHANGED <<coord, ep, failed, unconf, txn, attempted, rec, report, faults>>
EndUnconf(commit) == /\ inTxn /\ req = None /\ unconf /\ (Driver => ~commit) /\ H([op |-> "retry", commit |-> commit])
                     /\ ReloadPid
                     /\ inTxn' = FALSE /\ producing' = FALSE /\ unconf' = FALSE /\ added' = FALSE
                     /\ Report(IF commit THEN "error" ELSE "aborted")
                     /\ UNCHANGED <<txn, attempted, req, rec, faults>>

Handle == /\ req.st = "sent"
          /\ IF req.ep = cep /\ cst = "Ongoing"
               THEN /\ log' = Append(log, [k |-> "marker", commit |-> req.commit])
                    /\ cst' = "Complete" /\ clast' = (IF req.commit THEN "commit" ELSE "abort")
                    /\ cep' = IF Bump THEN cep + 1 ELSE cep
                    /\ req' = [req EXCEPT !.st = "ok"]
               ELSE IF cst = "Complete" /\ clast = (IF req.commit THEN "commit" ELSE "abort") /\ req.ep = (IF Bump THEN cep - 1 ELSE cep)
               THEN req' = [req EXCEPT !.st = "ok"] /\ UNCHANGED coord        \* the retry of the request that completed it
               ELSE req' = [req EXCEPT !.st = "bad"] /\ UNCHANGED coord
          /\ UNCHANGED <<ep, failed, inTxn, unconf, producing, txn, added, attempted, rec, report, faults, hist>>
Deliver == /\ req.st \in {"ok", "bad"}
           /\ IF req.st = "ok"
                THEN /\ Report(IF req.ask THEN "committed" ELSE "aborted") /\ ep' = cep
                     /\ UNCHANGED <<failed, inTxn, unconf>>
                ELSE /\ Report("error") /\ failed' = TRUE /\ inTxn' = TRUE /\ unconf' = TRUE /\ ep' = ep
           /\ req' = None
           /\ UNCHANGED <<coord, producing, txn, added, attempted, rec, faults, hist>>
Lose == /\ req.st = "ok" /\ faults < MaxFaults /\ (OnePerRequest => ~req.f)
        /\ req' = [req EXCEPT !.st = "sent", !.f = TRUE] /\ faults' = faults + 1 /\ H([op |-> "lose"])
        /\ UNCHANGED <<coord, ep, failed, inTxn, unconf, producing, txn, added, attempted, rec, report>>
Refuse == /\ req.st = "sent" /\ faults < MaxFaults /\ (OnePerRequest => ~req.f)
          /\ req' = [req EXCEPT !.st = "bad", !.f = TRUE] /\ faults' = faults + 1 /\ H([op |-> "refuse"])
          /\ UNCHANGED <<coord, ep, failed, inTxn, unconf, producing, txn, added, attempted, rec, report>>

Next == Begin \/ Produce \/ Handle \/ Deliver \/ Lose \/ Refuse
        \/ \E c \in BOOLEAN : EndNothing(c) \/ EndSend(c) \/ EndUnconf(c)
Spec == Init /\ [][Next]_vars
----------------------------------------------------------------------------
\* read_committed view: a record is visible iff the first marker after it is a commit
MarkerAfter(i) == {j \in DOMAIN log : j > i /\ log[j].k = "marker"}
Visible(id) == \E i \in DOMAIN log : /\ log[i].k = "data" /\ log[i].id = id /\ MarkerAfter(i) # {}
                                     /\ log[CHOOSE j \in MarkerAfter(i) : \A m \in MarkerAfter(i) : j <= m].commit
\* C11: reported commit => the acknowledged records are visible
CommitMeansVisible == \A id \in DOMAIN rec : (report[rec[id].txn] = "committed" /\ rec[id].ok) => Visible(id)
\* C11: reported abort or error => never visible, also after later transactions committed
AbortMeansNever == \A id \in DOMAIN rec : report[rec[id].txn] \in {"aborted", "error"} => ~Visible(id)
\* a record that was refused or failed is never visible
FailedNeverVisible == \A id \in DOMAIN rec : ~rec[id].ok => ~Visible(id)
\* the client never believes it is outside a transaction while the coordinator has one open that nobody will end
NoOrphan == (~inTxn /\ req = None /\ ~failed) => cst # "Ongoing"
\* scenario export: every finished application history with what End reported and what is visible at the end
Finished == txn = MaxTxn /\ ~inTxn /\ req = None
Emit == Finished => PrintT(<<"SCN", ToJson([hist |-> hist, report |-> report, visible |-> {id \in DOMAIN rec : Visible(id)}])>>)
=============================================================================
