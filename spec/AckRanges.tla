------------------------------- MODULE AckRanges -------------------------------
(* C12, the range builder: the acknowledgement batches sent for a partition are built from the pending user entries    *)
(* (one per Ack / MarkAcks call; a renew followed by a terminal leaves two entries for one record, both reading the     *)
(* record's live status; an entry whose status was reset to 0 is skipped) and the gap ranges (offsets the broker        *)
(* acquired for us that hold no record). Whatever the insertion order, the batches must be in ascending,                *)
(* non-overlapping offset order and carry, for every offset, exactly its acknowledgement type and (source, epoch) stamp. *)
EXTENDS Integers, Sequences, SequencesExt, FiniteSets, TLC, Json
CONSTANTS MaxOff, MaxEntries, OutFile
Offs == 0..MaxOff
Stamps == {0, 1}
(* a record's live status; entries are (offset) references in insertion order, possibly twice for one offset *)
StatusMaps == [Offs -> 0..4]
EntrySeqs == UNION {[1..n -> Offs] : n \in 0..MaxEntries}
TwiceAtMost(es) == \A o \in Offs : Cardinality({i \in DOMAIN es : es[i] = o}) <= 2
GapSets == {<<>>} \cup {<<[first |-> a, last |-> b]>> : a \in Offs, b \in Offs} \cup {<<[first |-> a, last |-> b], [first |-> c, last |-> d]>> : a \in Offs, b \in Offs, c \in Offs, d \in Offs}
WellFormed(gs) == /\ \A i \in DOMAIN gs : gs[i].first <= gs[i].last
                  /\ \A i, j \in DOMAIN gs : i < j => (gs[i].last < gs[j].first \/ gs[j].last < gs[i].first)
GoodGapSets == {g \in GapSets : WellFormed(g)}      \* evaluated once
GapOk(gs, es) == \A i \in DOMAIN gs : \A k \in DOMAIN es : es[k] < gs[i].first \/ es[k] > gs[i].last
InGap(gs, o) == \E i \in DOMAIN gs : gs[i].first <= o /\ o <= gs[i].last
(* expected content: offset -> type (0 = gap); offsets of entries with status 0 are absent *)
Want(es, st, gs) == {[off |-> o, type |-> IF InGap(gs, o) THEN 0 ELSE st[o]] : o \in {x \in Offs : InGap(gs, x) \/ (\E k \in DOMAIN es : es[k] = x /\ st[x] # 0)}}
Reduced == {st \in StatusMaps : \A o \in Offs : st[o] \in {0, 1, 2, 4}}      \* reject behaves like accept for the builder
(* the status of offsets without an entry is irrelevant: keep one representative *)
CasesFor(es, st) == {[entries |-> es, status |-> [i \in 1..(MaxOff + 1) |-> st[i - 1]], gaps |-> gs, estamp |-> s1, gstamp |-> s2,
                      want |-> SetToSortSeq(Want(es, st, gs), LAMBDA a, b : a.off < b.off)] :
                        gs \in {g \in GoodGapSets : GapOk(g, es)}, s1 \in Stamps, s2 \in Stamps}
Cases == UNION {UNION {CasesFor(es, st) : st \in {s \in Reduced : \A o \in Offs : (\A k \in DOMAIN es : es[k] # o) => s[o] = 0}} : es \in {e \in EntrySeqs : TwiceAtMost(e)}}
ASSUME ndJsonSerialize(OutFile, SetToSeq(Cases))
VARIABLE x
Init == x = 0
Next == UNCHANGED x
=============================================================================
