CONSTANTS Members = {"m1", "m2"} Parts = {"p0", "p1"} N = 3 Cooperative = FALSE RewindKept = FALSE MaxRevokes = 3
SPECIFICATION Spec
INVARIANTS NoDuplicate NoLoss CommitOnlyOwned Drained
CHECK_DEADLOCK FALSE
