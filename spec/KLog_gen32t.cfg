SPECIFICATION Spec
CONSTANTS Pids = {1, 2} MaxBatches = 5 MaxRecs = 2 MaxCompact = 0 EmitAt = 1
INVARIANTS Emit
CHECK_DEADLOCK FALSE
