SPECIFICATION Spec
CONSTANTS Pushers = {"p1", "p2"} PerPusher = 3 MaxLen = 0 MinCap = 2 Forcers = {} AllowDie = TRUE
INVARIANTS Fifo QueueIsUnprocessedSuffix OneWorkerAtATime ParkedOnlyWhileFull DeadRejects NoLossAtEnd
PROPERTY Termination
CHECK_DEADLOCK FALSE
