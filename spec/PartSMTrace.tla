----------------------------- MODULE PartSMTrace -----------------------------
(* Trace validation (binding V) of recorded partitioner calls against PartSM. *)
(* Events: reset(kind) starts a new trace; part(n, got, size); newbatch.       *)
(* A pick outside [0, n) is rejected (violation).  A pick inside the range     *)
(* that departs from the pinning rule is accepted but counted as drift.        *)
EXTENDS PartSM, Json
CONSTANT TraceFile
VARIABLES l, drift
TraceLog == ndJsonDeserialize(TraceFile)
TraceInit == /\ l = 1 /\ drift = 0 /\ kind = "none" /\ onPart = -1 /\ lastPart = -1 /\ rr = 0 /\ bytes = 0 /\ last = [n |-> 0, got |-> 0]
Ev == TraceLog[l]
Reset == /\ Ev.ev = "reset" /\ kind' = Ev.kind /\ onPart' = -1 /\ lastPart' = -1 /\ rr' = 0 /\ bytes' = 0
         /\ last' = [n |-> 0, got |-> 0] /\ UNCHANGED drift
TPart == /\ Ev.ev = "part" /\ Ev.got >= 0 /\ Ev.got < Ev.n                 \* the property, per step
         /\ \/ Part(Ev.n, Ev.got, Ev.size) /\ UNCHANGED drift
            \/ \* in range but not what the state machine allows: resynchronise on the observed pick
                 /\ ~ENABLED Part(Ev.n, Ev.got, Ev.size)
                 /\ drift' = drift + 1 /\ onPart' = Ev.got /\ rr' = Ev.got + 1
                 /\ bytes' = IF kind = "uniform" THEN (IF bytes + Ev.size >= Limit THEN Ev.size ELSE bytes + Ev.size) ELSE bytes
                 /\ last' = [n |-> Ev.n, got |-> Ev.got] /\ UNCHANGED <<kind, lastPart>>
TNewBatch == /\ Ev.ev = "newbatch" /\ UNCHANGED drift
             /\ IF kind \in {"sticky", "leastbackup"} THEN NewBatch ELSE UNCHANGED vars
TraceNext == l <= Len(TraceLog) /\ l' = l + 1 /\ (Reset \/ TPart \/ TNewBatch)
TraceSpec == TraceInit /\ [][TraceNext]_<<vars, l, drift>>
Accepted == (l = Len(TraceLog) + 1) => PrintT(<<"ACCEPTED", Len(TraceLog), "drift", drift>>)
Stuck == ~(l <= Len(TraceLog) /\ ~ENABLED TraceNext) \/ PrintT(<<"REJECTED-AT", l, ToJson(TraceLog[l])>>)
=============================================================================
