INIT Init
NEXT Next
CONSTANT OutFile = "serde_cases.ndjson"
