------------------------------- MODULE Negotiate -------------------------------
(* Request version negotiation (property C21), written from the property statement.                                *)
(* A request of one key is written with the highest version v such that                                           *)
(*      v <= clientMax, v <= brokerMax, v <= userMax, v <= pinMax   and   v >= brokerMin, v >= userMin, v >= pinMin *)
(* and when no such version exists it fails without being written. Absent bounds do not constrain.                 *)
(* Broker advertisement: a range, "missing" (ApiVersions answered without this key: the broker cannot serve it),   *)
(* or "none" (pre-ApiVersions broker: nothing is known, only client/user/pin bounds apply).                         *)
(* Versions are abstract levels 0..L; the runner maps level k to wire version clientMax - CM + k.                   *)
EXTENDS Integers, Sequences, SequencesExt, FiniteSets, TLC, Json
CONSTANTS L, CM, OutFile   \* levels 0..L, client maximum at level CM
Levels == 0..L
None == -1
Opt == Levels \cup {None}
MaxOf(S) == CHOOSE x \in S : \A y \in S : y <= x
Candidates(adv, bmin, bmax, umin, umax, pmin, pmax) ==
  {v \in Levels : /\ v <= CM
                  /\ (adv = "range" => v >= bmin /\ v <= bmax)
                  /\ (umax # None => v <= umax) /\ (umin # None => v >= umin)
                  /\ (pmax # None => v <= pmax) /\ (pmin # None => v >= pmin)}
Negotiate(adv, bmin, bmax, umin, umax, pmin, pmax) ==
  IF adv = "missing" THEN None
  ELSE LET C == Candidates(adv, bmin, bmax, umin, umax, pmin, pmax) IN IF C = {} THEN None ELSE MaxOf(C)
(* the two-step pinned flow of batched requests (FindCoordinator, OffsetFetch): first pinned to >= P, and if the   *)
(* broker is too old for that, re-issued pinned to <= P-1                                                           *)
TwoStep(adv, bmin, bmax, umin, umax, P) ==
  LET hi == Negotiate(adv, bmin, bmax, umin, umax, P, None) IN
  IF hi # None THEN hi ELSE Negotiate(adv, bmin, bmax, umin, umax, None, P - 1)
Ranges == {<<a, b>> \in Levels \X Levels : a <= b}
Cases(u) ==
  {[adv |-> "range", bmin |-> r[1], bmax |-> r[2], umin |-> umin, umax |-> umax,
    want |-> Negotiate("range", r[1], r[2], umin, umax, None, None),
    want2 |-> TwoStep("range", r[1], r[2], umin, umax, CM - 1)] : r \in Ranges, umin \in Opt, umax \in Opt}
  \cup {[adv |-> a, bmin |-> None, bmax |-> None, umin |-> umin, umax |-> umax,
    want |-> Negotiate(a, None, None, umin, umax, None, None),
    want2 |-> TwoStep(a, None, None, umin, umax, CM - 1)] : a \in {"missing"}, umin \in Opt, umax \in Opt}
(* sanity of the definition itself *)
ASSUME \A r \in Ranges, umin \in Opt, umax \in Opt :
         LET v == Negotiate("range", r[1], r[2], umin, umax, None, None) IN
         v # None => /\ v <= CM /\ v <= r[2] /\ v >= r[1] /\ (umax # None => v <= umax) /\ (umin # None => v >= umin)
                     /\ \A w \in Levels : (w > v) => w \notin Candidates("range", r[1], r[2], umin, umax, None, None)
ASSUME Negotiate("range", 0, 4, None, None, None, None) = CM
ASSUME Negotiate("range", 0, 1, 2, None, None, None) = None
ASSUME ndJsonSerialize(OutFile, SetToSeq(Cases(0)))
VARIABLE x
Init == x = 0
Next == UNCHANGED x
=============================================================================
