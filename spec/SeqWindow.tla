---------------------------- MODULE SeqWindow ----------------------------
(* Producer sequence numbers of one (producer id, partition) as the broker  *)
(* (pkg/kfake/txns.go pidwindow + 00_produce.go) must treat them, written    *)
(* from Kafka's rule: after a batch of n records starting at sequence s the  *)
(* next batch starts at (s+n) mod 2^31.  TLC integers are 32 bit, so the     *)
(* modulus is the constant SeqMod; the replayer maps the top half of         *)
(* 0..SeqMod-1 onto the top of 0..2^31-1 (s |-> 2^31-(SeqMod-s)) and the     *)
(* bottom half onto itself, so the model's wrap IS the real wrap.  Behaviours *)
(* never advance by SeqMod \div 2 or more in total, so they never cross the  *)
(* artificial seam in the middle.                                            *)
EXTENDS Integers, Sequences, FiniteSets, TLC, Json

CONSTANTS SeqMod,    \* stands for 2^31
          Win,       \* broker remembers the last Win batches (5)
          MaxN,      \* records per batch 1..MaxN
          Depth      \* operations per behaviour

Half == SeqMod \div 2
Inc(s, n) == (s + n) % SeqMod

VARIABLES seen, epoch, pepoch, first0, nextSeq, entries, hwm, advanced, hist
vars == <<seen, epoch, pepoch, first0, nextSeq, entries, hwm, advanced, hist>>

Init == /\ seen = FALSE /\ epoch = 0 /\ pepoch = 0 /\ first0 = 0 /\ nextSeq = 0
        /\ entries = <<>> /\ hwm = 0 /\ advanced = 0 /\ hist = <<>>

Dup(s, n) == {i \in 1..Len(entries) : entries[i].first = s /\ entries[i].next = Inc(s, n)}

\* the decision the broker must take for a batch (ep, s, n); also the client's Inc.
Outcome(ep, s, n) ==
  IF ep < pepoch THEN "fenced"
  ELSE IF ~seen \/ ep > epoch THEN (IF seen /\ s # 0 THEN "ooosn" ELSE "append")
  ELSE IF Dup(s, n) # {} THEN "dup"
  ELSE IF s # nextSeq THEN "ooosn"
  ELSE "append"

Push(e) == IF Len(entries) < Win THEN Append(entries, e) ELSE Append(Tail(entries), e)

\* sequences worth trying in the current state: expected, its neighbours, remembered firsts, zero, wrap point
Interesting == {nextSeq, Inc(nextSeq, 1), Inc(nextSeq, SeqMod - 1), 0, SeqMod - 1}
                 \cup {entries[i].first : i \in 1..Len(entries)}

Produce(ep, s, n) ==
  LET o == Outcome(ep, s, n) IN
  /\ Len(hist) < Depth
  /\ \/ o # "append"
     \/ ~seen \/ ep > epoch            \* a fresh epoch restarts the advance budget
     \/ advanced + n < Half            \* never cross the seam
  /\ (~seen => s >= Half)              \* start in the top half so that the wrap is reachable
  /\ (seen /\ ep > epoch /\ o = "append" => n < Half)
  /\ hist' = Append(hist, [ep |-> ep, s |-> s, n |-> n, out |-> o,
                           off |-> IF o = "append" THEN hwm
                                   ELSE IF o = "dup" THEN entries[CHOOSE i \in Dup(s, n) : TRUE].off ELSE -1,
                           next |-> Inc(s, n)])
  \* kfake (00_produce.go) raises the producer's fencing epoch as soon as it sees a higher epoch, even when the
  \* batch is then rejected for its sequence; modelled as the code does it (outside C29's statement).
  /\ pepoch' = IF ep > pepoch THEN ep ELSE pepoch
  /\ IF o = "append"
       THEN /\ seen' = TRUE /\ epoch' = ep
            /\ nextSeq' = Inc(s, n)
            /\ first0' = IF ~seen \/ ep > epoch THEN s ELSE first0
            /\ advanced' = IF ~seen \/ ep > epoch THEN n ELSE advanced + n
            /\ entries' = IF ~seen \/ ep > epoch THEN <<[first |-> s, next |-> Inc(s, n), off |-> hwm]>>
                          ELSE Push([first |-> s, next |-> Inc(s, n), off |-> hwm])
            /\ hwm' = hwm + n
       ELSE UNCHANGED <<seen, epoch, first0, nextSeq, entries, hwm, advanced>>

Next == \E ep \in {pepoch, pepoch + 1} \cup (IF pepoch > 0 THEN {pepoch - 1} ELSE {}) :
        \E s \in (IF seen THEN Interesting ELSE Half..(SeqMod - 1)) : \E n \in 1..MaxN :
          /\ ep <= 2
          /\ Produce(ep, s, n)
Spec == Init /\ [][Next]_vars

----------------------------------------------------------------------------
\* design-level invariants (Kafka's rule, stated over the model)
NextIsSum == seen => nextSeq = (first0 + advanced) % SeqMod
WindowChained == \A i \in 1..(Len(entries) - 1) : entries[i].next = entries[i + 1].first
                                                   /\ entries[i].off < entries[i + 1].off
WindowBounded == Len(entries) <= Win
LastIsNext == entries # <<>> => entries[Len(entries)].next = nextSeq
\* a duplicate never appends: hwm counts exactly the appended records
HwmExact == LET S == {i \in 1..Len(hist) : hist[i].out = "append"} IN
            hwm = IF S = {} THEN 0 ELSE LET m == CHOOSE i \in S : \A j \in S : j <= i IN hist[m].off + hist[m].n
WrapReached == ~(seen /\ nextSeq < Half /\ first0 >= Half /\ epoch = 0)   \* negated: used to show the wrap is reachable

\* behaviour export: one JSON line per complete behaviour
Emit == (Len(hist) = Depth) => PrintT(<<"BEH", ToJson(hist)>>)
Bound == Len(hist) <= Depth
View == <<seen, epoch, pepoch, first0, nextSeq, entries, hwm, advanced, Len(hist)>>
=============================================================================
