-------------------------------- MODULE Wire --------------------------------
(* Oracle for C17: Kafka's wire primitives over bit vectors (TLC integers are *)
(* 32-bit signed, so 32/64-bit quantities are sequences of bits, LSB first).  *)
(* TLC computes the expected encodings of boundary values and the expected    *)
(* verdict of the decoders on control-byte structures; the runner compares    *)
(* pkg/kbin (and checks the private copy in pkg/kmsg/internal/kbin is the     *)
(* same source).                                                              *)
EXTENDS Integers, Sequences, FiniteSets, TLC, Json, SequencesExt
CONSTANT OutFile
RECURSIVE Pow2(_)
Pow2(n) == IF n = 0 THEN 1 ELSE 2 * Pow2(n - 1)
\* ---- bit vectors
Zero(W) == [i \in 1..W |-> 0]
PowB(k, W) == [i \in 1..W |-> IF i = k + 1 THEN 1 ELSE 0]          \* 2^k
Ones(k, W) == [i \in 1..W |-> IF i <= k THEN 1 ELSE 0]             \* 2^k - 1
Not(b) == [i \in 1..Len(b) |-> 1 - b[i]]
RECURSIVE IncFrom(_, _)
IncFrom(b, i) == IF i > Len(b) THEN b ELSE IF b[i] = 0 THEN [b EXCEPT ![i] = 1] ELSE IncFrom([b EXCEPT ![i] = 0], i + 1)
Inc(b) == IncFrom(b, 1)
Neg(b) == Inc(Not(b))
Xor(a, b) == (a + b) % 2
Boundary(W) == UNION {{PowB(k, W), Ones(k, W), Neg(PowB(k, W)), Neg(Ones(k, W)), Inc(PowB(k, W)), Not(PowB(k, W)), Neg(Inc(PowB(k, W)))} : k \in 0..(W - 1)}
                 \cup {Ones(W, W), Zero(W)}
\* ---- zig-zag: (v << 1) ^ (v >> (W-1))
ZigZag(b) == LET W == Len(b) s == b[W] IN [i \in 1..W |-> IF i = 1 THEN s ELSE Xor(b[i - 1], s)]
UnZigZag(x) == LET W == Len(x) s == x[1] IN [i \in 1..W |-> IF i = W THEN s ELSE Xor(x[i + 1], s)]
\* ---- base-128 groups
HighBit(b) == LET S == {i \in 1..Len(b) : b[i] = 1} IN IF S = {} THEN 0 ELSE CHOOSE i \in S : \A j \in S : j <= i
Groups(b) == LET h == HighBit(b) IN IF h = 0 THEN 1 ELSE (h + 6) \div 7
GroupVal(b, g) == LET lo == 7 * (g - 1) IN
                  (IF lo + 1 <= Len(b) THEN b[lo + 1] ELSE 0) + 2 * (IF lo + 2 <= Len(b) THEN b[lo + 2] ELSE 0)
                  + 4 * (IF lo + 3 <= Len(b) THEN b[lo + 3] ELSE 0) + 8 * (IF lo + 4 <= Len(b) THEN b[lo + 4] ELSE 0)
                  + 16 * (IF lo + 5 <= Len(b) THEN b[lo + 5] ELSE 0) + 32 * (IF lo + 6 <= Len(b) THEN b[lo + 6] ELSE 0)
                  + 64 * (IF lo + 7 <= Len(b) THEN b[lo + 7] ELSE 0)
UvarintEnc(b) == LET n == Groups(b) IN [g \in 1..n |-> GroupVal(b, g) + (IF g < n THEN 128 ELSE 0)]
VarintEnc(b) == UvarintEnc(ZigZag(b))
\* ---- big endian
ByteAt(b, k) == LET lo == 8 * (k - 1) IN b[lo + 1] + 2 * b[lo + 2] + 4 * b[lo + 3] + 8 * b[lo + 4] + 16 * b[lo + 5] + 32 * b[lo + 6] + 64 * b[lo + 7] + 128 * b[lo + 8]
BigEndian(b) == LET n == Len(b) \div 8 IN [k \in 1..n |-> ByteAt(b, n + 1 - k)]
\* small naturals as bit vectors
RECURSIVE NatBits(_, _)
NatBits(n, W) == IF W = 0 THEN <<>> ELSE <<n % 2>> \o NatBits(n \div 2, W - 1)

\* ---- decoder over control-byte structures
MaxLen(W) == (W + 6) \div 7
LastMax(W) == Pow2(W - 7 * (MaxLen(W) - 1)) - 1           \* 0x0f for 32 bits, 0x01 for 64 bits
\* bits contributed by byte j (7 payload bits, the last byte of a maximal encoding contributes the remaining ones)
Assemble(bytes, n, W) == [i \in 1..W |-> LET g == ((i - 1) \div 7) + 1 o == (i - 1) % 7
                                         IN IF g > n THEN 0 ELSE (bytes[g] \div Pow2(o)) % 2]
\* returns [n |-> bytes consumed (0 short, negative overflow), bits |-> value]
UvarintDec(bytes, W) ==
  LET M == MaxLen(W)
      Term == {j \in 1..Len(bytes) : j <= M /\ (bytes[j] < 128 \/ j = M)}
  IN IF \A j \in 1..Len(bytes) : j <= M => (bytes[j] >= 128 /\ j < M) THEN [n |-> 0, bits |-> Zero(W)]     \* ran out of input
     ELSE LET j == CHOOSE t \in Term : \A u \in Term : t <= u IN
          IF j = M /\ bytes[j] > LastMax(W) THEN [n |-> -M, bits |-> Zero(W)]
          ELSE [n |-> j, bits |-> Assemble(bytes, j, W)]
Conts(W) == IF W = 32 THEN {128, 129, 255} ELSE {128, 255}
Terms == {0, 1, 15, 16, 127}
RECURSIVE SeqsOver(_, _)
SeqsOver(S, n) == IF n = 0 THEN {<<>>} ELSE {Append(s, x) : s \in SeqsOver(S, n - 1), x \in S}
Structures(W) == UNION {{pre \o t \o g : pre \in SeqsOver(Conts(W), j), t \in {<<>>} \cup {<<x>> : x \in Terms}, g \in {<<>>, <<170>>, <<170, 0, 255, 1>>, <<128, 128, 128, 128, 128, 128, 128, 128, 1>>}} : j \in 0..MaxLen(W)}

\* ---- cases
EncCases(W) == {[kind |-> "enc", w |-> W, bits |-> b, varint |-> VarintEnc(b), uvarint |-> UvarintEnc(b), be |-> BigEndian(b)] : b \in Boundary(W)}
SmallCases(u) == {[kind |-> "be", w |-> W, bits |-> b, be |-> BigEndian(b)] : W \in {8, 16}, b \in UNION {Boundary(x) : x \in {8, 16}} } 
DecCases(W) == {LET d == UvarintDec(s, W) IN [kind |-> "dec", w |-> W, bytes |-> s, n |-> d.n, ubits |-> d.bits, sbits |-> UnZigZag(d.bits)] : s \in Structures(W)}
\* length prefixes: what precedes a payload of the given length (or null)
Lens == {0, 1, 2, 63, 64, 127, 128, 8191, 8192, 16383, 16384}
PrefixCases(u) == {[kind |-> "prefix", len |-> l,
                    i16 |-> BigEndian(NatBits(l, 16)), i32 |-> BigEndian(NatBits(l, 32)),
                    compact |-> UvarintEnc(NatBits(l + 1, 32)), varint |-> VarintEnc(NatBits(l, 32))] : l \in Lens}
                  \cup {[kind |-> "prefix", len |-> -1, i16 |-> <<255, 255>>, i32 |-> <<255, 255, 255, 255>>, compact |-> <<0>>, varint |-> <<1>>]}
Cases == SetToSeq(EncCases(32)) \o SetToSeq(EncCases(64)) \o SetToSeq({c \in SmallCases(0) : Len(c.bits) = c.w})
         \o SetToSeq(DecCases(32)) \o SetToSeq(DecCases(64)) \o SetToSeq(PrefixCases(0))
ASSUME PrintT(<<"cases", Len(Cases)>>)
ASSUME ndJsonSerialize(OutFile, Cases)
\* anchors: 300 = 0xAC 0x02 ; zigzag(-1)=1 ; zigzag(1)=2 ; -2^31 |-> ff ff ff ff 0f
ASSUME UvarintEnc(NatBits(300, 32)) = <<172, 2>>
ASSUME VarintEnc(Ones(32, 32)) = <<1>> /\ VarintEnc(PowB(0, 32)) = <<2>>
ASSUME VarintEnc(PowB(31, 32)) = <<255, 255, 255, 255, 15>>
ASSUME UvarintDec(<<172, 2>>, 32).n = 2 /\ UvarintDec(<<172, 2>>, 32).bits = NatBits(300, 32)
ASSUME UvarintDec(<<128, 128, 128, 128, 16>>, 32).n = -5 /\ UvarintDec(<<128>>, 32).n = 0
VARIABLE x
Init == x = 0
Next == x' = x
=============================================================================
