------------------------------- MODULE XMutex -------------------------------
(* C31, second half: the channel-based Mutex / RWMutex of                     *)
(* pkg/kgo/internal/xsync/synctest_mutex.go.  Grain: one action per channel   *)
(* operation (send / receive / select-with-default); the code that follows an *)
(* operation up to the next one belongs to the same action.  pc[t] names the   *)
(* operation thread t will perform next.  gate, sig (writerSignal) and mu      *)
(* (the inner Mutex's channel) are buffered-1 channels: 1 = token present.     *)
EXTENDS Naturals, FiniteSets, TLC
CONSTANTS Writers, Readers, Tryers, Rounds
Threads == Writers \cup Readers \cup Tryers
VARIABLES gate, sig, mu, rc, pc, seen, rounds, holdW, holdR
vars == <<gate, sig, mu, rc, pc, seen, rounds, holdW, holdR>>
First(t) == IF t \in Writers THEN "recv_gate" ELSE IF t \in Readers THEN "r_recv_gate" ELSE "t_tryrecv_gate"
Init == /\ gate = 1 /\ sig = 0 /\ mu = 1 /\ rc = 0 /\ holdW = {} /\ holdR = {}
        /\ pc = [t \in Threads |-> First(t)] /\ seen = [t \in Threads |-> FALSE] /\ rounds = [t \in Threads |-> 0]
Goto(t, l) == pc' = [pc EXCEPT ![t] = l]
AfterRound(t) == IF t \in Tryers THEN "done" ELSE IF rounds[t] + 1 < Rounds THEN First(t) ELSE "done"
\* what a thread does after releasing the write lock / the read lock
AfterWUnlock(t) == IF t \in Tryers THEN "tr_tryrecv_gate" ELSE AfterRound(t)
Step(t) ==
  LET p == pc[t] IN
  \* ---------------- RWMutex.Lock (writers) and TryLock (tryers)
  \/ /\ p = "recv_gate" /\ gate = 1 /\ gate' = 0 /\ Goto(t, "drain_sig") /\ UNCHANGED <<sig, mu, rc, seen, rounds, holdW, holdR>>
  \/ /\ p = "t_tryrecv_gate"
     /\ IF gate = 1 THEN gate' = 0 /\ Goto(t, "drain_sig") ELSE UNCHANGED gate /\ Goto(t, "tr_tryrecv_gate")
     /\ UNCHANGED <<sig, mu, rc, seen, rounds, holdW, holdR>>
  \/ /\ p = "drain_sig" /\ sig' = 0 /\ Goto(t, "recv_mu") /\ UNCHANGED <<gate, mu, rc, seen, rounds, holdW, holdR>>     \* stale signal dropped
  \/ /\ p = "recv_mu" /\ mu = 1 /\ mu' = 0 /\ seen' = [seen EXCEPT ![t] = rc > 0] /\ Goto(t, "send_mu")
     /\ UNCHANGED <<gate, sig, rc, rounds, holdW, holdR>>
  \/ /\ p = "send_mu" /\ mu = 0 /\ mu' = 1
     /\ IF seen[t] THEN (IF t \in Tryers THEN Goto(t, "t_send_gate_back") ELSE Goto(t, "recv_sig")) /\ UNCHANGED holdW
                   ELSE Goto(t, "wcs") /\ holdW' = holdW \cup {t}
     /\ UNCHANGED <<gate, sig, rc, seen, rounds, holdR>>
  \/ /\ p = "recv_sig" /\ sig = 1 /\ sig' = 0 /\ Goto(t, "wcs") /\ holdW' = holdW \cup {t}
     /\ UNCHANGED <<gate, mu, rc, seen, rounds, holdR>>
  \/ /\ p = "t_send_gate_back" /\ gate = 0 /\ gate' = 1 /\ Goto(t, "tr_tryrecv_gate") /\ UNCHANGED <<sig, mu, rc, seen, rounds, holdW, holdR>>
  \/ /\ p = "wcs" /\ Goto(t, "send_gate") /\ UNCHANGED <<gate, sig, mu, rc, seen, rounds, holdW, holdR>>                  \* critical section done, calls Unlock
  \/ /\ p = "send_gate" /\ gate = 0 /\ gate' = 1 /\ holdW' = holdW \ {t}
     /\ rounds' = [rounds EXCEPT ![t] = @ + 1] /\ Goto(t, AfterWUnlock(t)) /\ UNCHANGED <<sig, mu, rc, seen, holdR>>
  \* ---------------- RLock (readers) and TryRLock (tryers)
  \/ /\ p = "r_recv_gate" /\ gate = 1 /\ gate' = 0 /\ Goto(t, "r_recv_mu") /\ UNCHANGED <<sig, mu, rc, seen, rounds, holdW, holdR>>
  \/ /\ p = "tr_tryrecv_gate"
     /\ IF gate = 1 THEN gate' = 0 /\ Goto(t, "r_recv_mu") ELSE UNCHANGED gate /\ Goto(t, "done")
     /\ UNCHANGED <<sig, mu, rc, seen, rounds, holdW, holdR>>
  \/ /\ p = "r_recv_mu" /\ mu = 1 /\ mu' = 0 /\ rc' = rc + 1 /\ Goto(t, "r_send_mu") /\ UNCHANGED <<gate, sig, seen, rounds, holdW, holdR>>
  \/ /\ p = "r_send_mu" /\ mu = 0 /\ mu' = 1 /\ Goto(t, "r_send_gate") /\ UNCHANGED <<gate, sig, rc, seen, rounds, holdW, holdR>>
  \/ /\ p = "r_send_gate" /\ gate = 0 /\ gate' = 1 /\ holdR' = holdR \cup {t} /\ Goto(t, "rcs")
     /\ UNCHANGED <<sig, mu, rc, seen, rounds, holdW>>
  \/ /\ p = "rcs" /\ Goto(t, "u_recv_mu") /\ UNCHANGED <<gate, sig, mu, rc, seen, rounds, holdW, holdR>>
  \/ /\ p = "u_recv_mu" /\ mu = 1 /\ mu' = 0 /\ rc' = rc - 1 /\ holdR' = holdR \ {t}
     /\ Goto(t, IF rc - 1 = 0 THEN "u_trysend_sig" ELSE "u_send_mu") /\ UNCHANGED <<gate, sig, seen, rounds, holdW>>
  \/ /\ p = "u_trysend_sig" /\ sig' = 1 /\ Goto(t, "u_send_mu") /\ UNCHANGED <<gate, mu, rc, seen, rounds, holdW, holdR>>   \* a second signal is dropped (default arm)
  \/ /\ p = "u_send_mu" /\ mu = 0 /\ mu' = 1 /\ rounds' = [rounds EXCEPT ![t] = @ + 1] /\ Goto(t, AfterRound(t))
     /\ UNCHANGED <<gate, sig, rc, seen, holdW, holdR>>
Next == \E t \in Threads : Step(t)
Spec == Init /\ [][Next]_vars /\ WF_vars(Next)
WriterAlone == holdW # {} => (Cardinality(holdW) = 1 /\ holdR = {})
CountExact == rc >= Cardinality(holdR)
AllDone == \A t \in Threads : pc[t] = "done"
NoDeadlock == AllDone \/ ENABLED Next
\* a send in the model is only taken when the channel is empty; the code panics otherwise ("unlock of unlocked"): never reachable
NoPanic == \A t \in Threads : (pc[t] \in {"send_mu", "r_send_mu", "u_send_mu"} => mu = 0) /\ (pc[t] \in {"send_gate", "r_send_gate", "t_send_gate_back"} => gate = 0)
Live == <>AllDone
=============================================================================
