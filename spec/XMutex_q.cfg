SPECIFICATION Spec
CONSTANTS Writers = {"w1", "w2"} Readers = {"r1", "r2"} Tryers = {"t1"} Rounds = 1
INVARIANTS WriterAlone CountExact NoDeadlock NoPanic
PROPERTY Live
CHECK_DEADLOCK FALSE
