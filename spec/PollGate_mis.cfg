SPECIFICATION Spec
CONSTANTS Pollers = {"p1", "p2"} Rebalancers = {"r1"} Rounds = 2 AllowMisuse = TRUE
INVARIANTS RevokeExcludesPolls NoBorrow NoDeadlock NoLostWakeup
CHECK_DEADLOCK FALSE
