INIT Init
NEXT Next
CONSTANT OutFile = "part_cases.ndjson"
