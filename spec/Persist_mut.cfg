SPECIFICATION Spec
CONSTANTS MaxEntries = 3 SyncBeforeRename = FALSE
INVARIANTS RecoveredContainsAcked OffsetsContiguous AckOnlyDurable
CHECK_DEADLOCK FALSE
