INIT Init
NEXT Next
CONSTANTS Mode = "pairs" N = 0 OutFile = "lag_cases.ndjson"
