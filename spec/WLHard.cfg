SPECIFICATION Spec
CONSTANTS MaxW = 4 Compensate = TRUE
INVARIANTS AtMostOneInBody NoLostWakeup
CHECK_DEADLOCK FALSE
