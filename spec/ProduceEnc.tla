------------------------------- MODULE ProduceEnc -------------------------------
(* C18: the size accounting of ProduceLayout.tla is safe (Accounted >= Actual) for every request over the boundary     *)
(* classes below; evaluated by TLC. ProduceEnc_old.cfg (CountTags = FALSE) is the accounting before the repair and is   *)
(* expected to fail.                                                                                                     *)
EXTENDS ProduceLayout
CONSTANTS Versions, NameLens, BatchLens, ClientIdLens, TxnIdLens, MaxTopics, MaxParts
(* ---------------- all small requests ---------------- *)
SeqsUpTo(S, n) == UNION {[1..k -> S] : k \in 1..n}
TopicSet == {[name |-> nl, parts |-> ps] : nl \in NameLens, ps \in SeqsUpTo(BatchLens, MaxParts)}
Ok(v, cid, txn, ts) == (Accounted(v, cid, txn, ts) >= Actual(v, cid, txn, ts) /\ AccountedUnknown(cid, txn, ts) >= Actual(v, cid, txn, ts))
       \/ ~PrintT(<<"UNSAFE", [version |-> v, clientId |-> cid, txnId |-> txn, topics |-> ts, accounted |-> Accounted(v, cid, txn, ts), accountedUnknown |-> AccountedUnknown(cid, txn, ts), actual |-> Actual(v, cid, txn, ts)]>>)
Safe == /\ \A v \in Versions, cid \in ClientIdLens, txn \in TxnIdLens, t1 \in TopicSet : Ok(v, cid, txn, <<t1>>)
        /\ (MaxTopics >= 2 => \A v \in Versions, cid \in ClientIdLens, txn \in TxnIdLens, t1 \in TopicSet, t2 \in TopicSet : Ok(v, cid, txn, <<t1, t2>>))
NRequests == Cardinality(Versions) * Cardinality(ClientIdLens) * Cardinality(TxnIdLens) * (Cardinality(TopicSet) + (IF MaxTopics >= 2 THEN Cardinality(TopicSet) * Cardinality(TopicSet) ELSE 0))
ASSUME PrintT(<<"requests", NRequests>>)
ASSUME Safe
VARIABLE x
Init == x = 0
Next == UNCHANGED x
=============================================================================
