------------------------------- MODULE ShareAckInd -------------------------------
(* Inductive-invariant form of ShareAck.tla for Apalache: unbounded check (no bound on the number of renews) that at    *)
(* most one final outcome is ever sent for a delivery and that it is the application's decision.                          *)
EXTENDS Integers, Sequences
VARIABLES
  \* @type: Int;
  status,
  \* @type: Int;
  queue,
  \* @type: Int;
  inflight,
  \* @type: Seq(Int);
  sentFinal,
  \* @type: Int;
  decided
Terminal(t) == t \in {1, 2, 3}
Init == status = 0 /\ queue = 0 /\ inflight = 0 /\ sentFinal = <<>> /\ decided = 0
Ack(t) == /\ IF t = 4 THEN status = 0 ELSE status \in {0, 4}
          /\ status' = t /\ queue' = queue + 1
          /\ decided' = (IF Terminal(t) /\ decided = 0 THEN t ELSE decided)
          /\ UNCHANGED <<inflight, sentFinal>>
Drain == /\ queue > 0 /\ inflight = 0 /\ queue' = 0
         /\ IF status = 0 THEN UNCHANGED <<inflight, sentFinal>>
            ELSE /\ inflight' = status
                 /\ sentFinal' = (IF Terminal(status) THEN Append(sentFinal, status) ELSE sentFinal)
         /\ UNCHANGED <<status, decided>>
Response == /\ inflight # 0 /\ inflight' = 0
            /\ status' = (IF inflight = 4 /\ status = 4 THEN 0 ELSE status)
            /\ UNCHANGED <<queue, sentFinal, decided>>
Next == (\E t \in 1..4 : Ack(t)) \/ Drain \/ Response
AtMostOneFinal == Len(sentFinal) <= 1
SentIsDecided == \A i \in DOMAIN sentFinal : sentFinal[i] = decided
(* the inductive invariant: type bounds, the link between status and decision, and "once a final outcome was sent the    *)
(* status is that terminal and stays it" *)
IndInv == /\ status \in 0..4 /\ queue >= 0 /\ inflight \in 0..4 /\ decided \in 0..3 /\ Len(sentFinal) <= 1
          /\ (Terminal(status) <=> decided # 0) /\ (Terminal(status) => status = decided)
          /\ (Len(sentFinal) = 1 => (Terminal(status) /\ sentFinal[1] = decided /\ queue = 0))
          /\ (Terminal(inflight) => (Len(sentFinal) = 1 /\ inflight = decided))
IndInit == /\ status \in 0..4 /\ queue \in Nat /\ inflight \in 0..4 /\ decided \in 0..3
           /\ sentFinal \in {<<>>, <<1>>, <<2>>, <<3>>}
           /\ IndInv
Safety == AtMostOneFinal /\ SentIsDecided
=============================================================================
