SPECIFICATION Spec
CONSTANTS Members = {"m1", "m2"} MaxLog = 4 MaxTake = 2 MaxLives = 3 CommitDirty = TRUE
INVARIANTS CommitCoversFinishedOnly NoSkip HeadBehindDirty
CHECK_DEADLOCK FALSE
