SPECIFICATION Spec
CONSTANT TraceFile = "fetch_trace.ndjson"
INVARIANTS ReturnedWereProduced ReturnedVisible Accepted Rejected
CHECK_DEADLOCK FALSE
