------------------------------- MODULE Shard -------------------------------
(* The split / issue / re-split loop of sharded requests (client.go handleShardedReq), property C23.              *)
(* A request carries a set of items (partitions, groups, transactional ids). Each item is owned by one broker      *)
(* (leader or coordinator), unknown items by nobody; ownership can move while the request runs. A piece of the     *)
(* request is split by the client's current view into one sub-request per broker plus error shards for unknown     *)
(* items; a sub-request either is answered (a response shard holding exactly its items), or fails retriably and    *)
(* is split again (only that sub-request), or fails for good (an error shard holding its items).                   *)
(* Result: the shards account for every requested item exactly once.                                                *)
EXTENDS Integers, FiniteSets, TLC
CONSTANTS Items, Unknown, Brokers, MaxTries, MaxMoves, ReissueParent   \* ReissueParent = TRUE: the mutant that re-splits the parent piece
ASSUME Unknown \subseteq Items
VARIABLES owner,      \* the true placement of known items
          view,       \* the client's cached placement
          pending,    \* set of pieces to split: [items, tries, parent]
          inflight,   \* set of sub-requests: [items, broker, tries, parent]
          shards,     \* bag of finished shards as a function id -> [items, err]
          nshards, moves
vars == <<owner, view, pending, inflight, shards, nshards, moves>>
Known == Items \ Unknown
Init == /\ owner \in [Known -> Brokers] /\ view = owner
        /\ pending = {[items |-> Items, tries |-> 0, parent |-> Items]} /\ inflight = {} /\ shards = <<>> /\ nshards = 0 /\ moves = 0
AddShard(s, its, err) == [i \in 1..(nshards + 1) |-> IF i <= nshards THEN s[i] ELSE [items |-> its, err |-> err]]
(* split one pending piece by the current view *)
Split(p) == /\ p \in pending
            /\ LET known == p.items \ Unknown
                   bs == {view[i] : i \in known}
                   subs == {[items |-> {i \in known : view[i] = b}, broker |-> b, tries |-> p.tries, parent |-> p.items] : b \in bs}
               IN /\ inflight' = inflight \cup subs
                  /\ IF p.items \cap Unknown # {} THEN shards' = AddShard(shards, p.items \cap Unknown, TRUE) /\ nshards' = nshards + 1
                                                   ELSE UNCHANGED <<shards, nshards>>
            /\ pending' = pending \ {p} /\ UNCHANGED <<owner, view, moves>>
(* the broker answers: it owns all the items of the sub-request *)
Answer(r) == /\ r \in inflight /\ \A i \in r.items : owner[i] = r.broker
             /\ shards' = AddShard(shards, r.items, FALSE) /\ nshards' = nshards + 1
             /\ inflight' = inflight \ {r} /\ UNCHANGED <<owner, view, pending, moves>>
(* retriable failure (not leader / not coordinator / connection died): metadata is refreshed and the piece re-split *)
FailRetry(r) == /\ r \in inflight /\ r.tries + 1 < MaxTries
                /\ view' = owner
                /\ pending' = pending \cup {[items |-> IF ReissueParent THEN r.parent ELSE r.items, tries |-> r.tries + 1, parent |-> IF ReissueParent THEN r.parent ELSE r.items]}
                /\ inflight' = inflight \ {r} /\ UNCHANGED <<owner, shards, nshards, moves>>
FailFinal(r) == /\ r \in inflight /\ r.tries + 1 >= MaxTries
                /\ shards' = AddShard(shards, r.items, TRUE) /\ nshards' = nshards + 1
                /\ inflight' = inflight \ {r} /\ UNCHANGED <<owner, view, pending, moves>>
Move(i, b) == /\ moves < MaxMoves /\ i \in Known /\ owner[i] # b /\ owner' = [owner EXCEPT ![i] = b] /\ moves' = moves + 1
              /\ UNCHANGED <<view, pending, inflight, shards, nshards>>
Next == (\E p \in pending : Split(p)) \/ (\E r \in inflight : Answer(r) \/ FailRetry(r) \/ FailFinal(r)) \/ (\E i \in Known, b \in Brokers : Move(i, b))
Spec == Init /\ [][Next]_vars
Done == pending = {} /\ inflight = {}
Count(i) == Cardinality({k \in 1..nshards : i \in shards[k].items})
ExactlyOnce == Done => \A i \in Items : Count(i) = 1
NeverTwice == \A i \in Items : Count(i) <= 1
UnknownOnlyInErrorShards == \A k \in 1..nshards : (shards[k].items \cap Unknown # {}) => shards[k].err
=============================================================================
