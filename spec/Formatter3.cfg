INIT Init
NEXT Next
CONSTANTS MaxFields = 3 NumFmts = {"ascii", "hex64", "big32", "little64", "byte"} OutFile = "fmt_cases.ndjson"
