------------------------------- MODULE CloseTrace -------------------------------
(* Trace specification (binding V) for C13. One scenario = reset, close_call, close_ret | close_stuck, after.   *)
(* The phases mirror Close.tla's pc: run -> closing -> closed -> checked.                                        *)
(*   close_ret.ms <= BoundMs + user_ms  Close returned within the bound (virtual time; the configured timeouts of the  *)
(*                                driver sum to well under it) plus the time user partitioner calls slept meanwhile *)
(*   after.promised = produced    every produce promise was called (exactly once: the driver counts calls)        *)
(*   after.poll = ErrClientClosed; a produce issued after Close has its promise called with an error               *)
(*   after.kgo_goroutines = 0     Close.tla's NothingRunning                                                       *)
EXTENDS Integers, Sequences, TLC, Json
CONSTANTS TraceFile, BoundMs
TraceLog == ndJsonDeserialize(TraceFile)
VARIABLES l, phase, traces
vars == <<l, phase, traces>>
Init == l = 1 /\ phase = "none" /\ traces = 0
Ev == TraceLog[l]
Checks(e) ==
  CASE e.ev = "close_call" -> << <<phase = "run", "close_call out of order">> >>
    [] e.ev = "close_ret" -> << <<phase = "closing", "close_ret out of order">>, <<e.ms <= BoundMs + e.user_ms, "Close returned only after the bound (plus the time user partitioner calls ran meanwhile)">> >>
    [] e.ev = "close_stuck" -> << <<FALSE, "Close did not return (10 virtual minutes)">> >>
    [] e.ev = "after" -> << <<phase = "closed", "after out of order">>,
                            <<e.promised >= e.produced, "a produce promise was never called after Close">>,
                            <<e.promised <= e.produced, "a produce promise was called twice">>,
                            <<e.poll = "ErrClientClosed", "a poll after Close did not return ErrClientClosed">>,
                            <<e.late_produce \notin {"", "<nil>"}, "the promise of a produce issued after Close was not called with an error">>,
                            <<e.kgo_goroutines = 0, "client goroutines are still running after Close">> >>
    [] e.ev = "driver_failed" -> << <<FALSE, "driver died (goroutines of the scenario blocked forever)">> >>
    [] OTHER -> <<>>
Ok(e) == \A i \in DOMAIN Checks(e) : Checks(e)[i][1]
Why(e) == LET C == Checks(e) bad == {i \in DOMAIN C : ~C[i][1]} IN IF bad = {} THEN "" ELSE C[CHOOSE i \in bad : \A j \in bad : i <= j][2]
Apply(e) ==
  CASE e.ev = "reset" -> phase' = "run" /\ traces' = traces + 1
    [] e.ev = "close_call" -> phase' = "closing" /\ UNCHANGED traces
    [] e.ev = "close_ret" -> phase' = "closed" /\ UNCHANGED traces
    [] e.ev = "after" -> phase' = "checked" /\ UNCHANGED traces
    [] OTHER -> UNCHANGED <<phase, traces>>
Next == l <= Len(TraceLog) /\ Ok(Ev) /\ Apply(Ev) /\ l' = l + 1
Spec == Init /\ [][Next]_vars
Accepted == (l = Len(TraceLog) + 1) => PrintT(<<"ACCEPTED", Len(TraceLog), traces>>)
Rejected == (l <= Len(TraceLog) /\ ~Ok(Ev)) => PrintT(<<"REJECTED-AT", l, Why(Ev), ToJson(Ev)>>)
=============================================================================
