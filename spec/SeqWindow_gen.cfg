SPECIFICATION Spec
CONSTANTS SeqMod = 16  Win = 5  MaxN = 3  Depth = 9
INVARIANTS NextIsSum WindowChained WindowBounded LastIsNext Emit
CHECK_DEADLOCK FALSE
