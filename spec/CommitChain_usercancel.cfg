SPECIFICATION Spec
CONSTANTS N = 3 MaxOff = 2 MaxRetry = 1 Policy = "wait" UserCancel = TRUE
INVARIANTS ArrivalInIssueOrder LastWins
CHECK_DEADLOCK FALSE
