SPECIFICATION Spec
CONSTANTS N = 3 MaxOff = 2 MaxRetry = 1 Policy = "nowait" UserCancel = FALSE
INVARIANTS ArrivalInIssueOrder LastWins
CHECK_DEADLOCK FALSE
