SPECIFICATION Spec
CONSTANTS Kinds = {"sticky", "roundrobin", "leastbackup", "uniform"} MaxN = 4 Limit = 6 Sizes = {2, 3}
INVARIANT InRange
CHECK_DEADLOCK FALSE
