------------------------------ MODULE Carrier ------------------------------
(* C37: the kotel record carrier as a string map over a record's header list. *)
(* State: the header list (duplicate keys possible in the initial list).       *)
(* Actions: Set(k, v), Get(k), Keys.  The map view of a header list is the     *)
(* first value per key.  Behaviours are exported and replayed on the real      *)
(* kotel.RecordCarrier (binding R).                                            *)
EXTENDS Integers, Sequences, FiniteSets, TLC, Json
CONSTANTS Keys, Vals, MaxInit, Depth
VARIABLES hdrs, hist, init
vars == <<hdrs, hist, init>>
Hdr == [k : Keys, v : Vals]
InitLists == UNION {[1..n -> Hdr] : n \in 0..MaxInit}
First(h, k) == LET I == {i \in 1..Len(h) : h[i].k = k} IN
               IF I = {} THEN "" ELSE h[CHOOSE i \in I : \A j \in I : i <= j].v
MapOf(h) == [k \in Keys |-> First(h, k)]
KeyList(h) == [i \in 1..Len(h) |-> h[i].k]
Init == hdrs \in InitLists /\ hist = <<>> /\ init = hdrs
Set(k, v) == /\ LET I == {i \in 1..Len(hdrs) : hdrs[i].k = k} IN
                hdrs' = IF I = {} THEN Append(hdrs, [k |-> k, v |-> v])
                        ELSE [hdrs EXCEPT ![CHOOSE i \in I : \A j \in I : i <= j].v = v]
             /\ hist' = Append(hist, [op |-> "set", k |-> k, v |-> v, keys |-> KeyList(hdrs'), vals |-> [i \in 1..Len(hdrs') |-> hdrs'[i].v]])
Get(k) == /\ hist' = Append(hist, [op |-> "get", k |-> k, v |-> First(hdrs, k), keys |-> KeyList(hdrs), vals |-> [i \in 1..Len(hdrs) |-> hdrs[i].v]])
          /\ UNCHANGED hdrs
KeysOp == /\ hist' = Append(hist, [op |-> "keys", k |-> "", v |-> "", keys |-> KeyList(hdrs), vals |-> [i \in 1..Len(hdrs) |-> hdrs[i].v]])
          /\ UNCHANGED hdrs
Next == /\ Len(hist) < Depth /\ UNCHANGED init
        /\ \/ \E k \in Keys, v \in Vals : Set(k, v)
           \/ \E k \in Keys : Get(k)
           \/ KeysOp
Spec == Init /\ [][Next]_vars
\* the map property as action properties / invariants of the model
SetIsMapUpdate == [][\A k \in Keys, v \in Vals : (hist' # hist /\ hist'[Len(hist')].op = "set" /\ hist'[Len(hist')].k = k /\ hist'[Len(hist')].v = v)
                       => (MapOf(hdrs') = [MapOf(hdrs) EXCEPT ![k] = v] /\ Len(hdrs') \in {Len(hdrs), Len(hdrs) + 1})]_vars
GetReadsMap == \A i \in 1..Len(hist) : hist[i].op = "get" => TRUE
Emit == (Len(hist) = Depth) => PrintT(<<"BEH", ToJson([init |-> init, ops |-> hist])>>)
View == <<hdrs, Len(hist)>>
=============================================================================
