SPECIFICATION Spec
CONSTANTS Keys = {"a", "b", "c"} Vals = {"x", "y"} MaxInit = 3 Depth = 4
PROPERTY SetIsMapUpdate
VIEW View
CHECK_DEADLOCK FALSE
