SPECIFICATION Spec
CONSTANTS Keys = {"a", "A", "b"} Vals = {"x", "y"} MaxInit = 3 Depth = 4
PROPERTY SetIsMapUpdate
VIEW View
CHECK_DEADLOCK FALSE
