SPECIFICATION Spec
CONSTANT TraceFile = "persist_trace.ndjson"
INVARIANTS Accepted Rejected
CHECK_DEADLOCK FALSE
