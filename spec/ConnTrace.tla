------------------------------- MODULE ConnTrace -------------------------------
(* Trace specification (binding V) for C22 over D-CONN. Mirrors Conn.tla's observable part:                        *)
(*   issue(id) .. complete(id): every issued request completes exactly once (CompletedOnce / EveryRequestCompletes), *)
(*   within BoundMs of virtual time (timeouts), with no panic;                                                        *)
(*   complete ok only for a request the broker answered with a well-formed frame under its own correlation id        *)
(*   (OnlyOwnResponse): behaviours ok / throttled / partial / swapped-but-in-its-own-frame are never "ok" unless      *)
(*   the frame was readable in order;                                                                                 *)
(*   payload(id): the bytes held by the caller after all later responses were read are those sent for its request.   *)
EXTENDS Integers, Sequences, FiniteSets, TLC, Json
CONSTANTS TraceFile, BoundMs
TraceLog == ndJsonDeserialize(TraceFile)
VARIABLES l, issued, done, sent, traces
vars == <<l, issued, done, sent, traces>>
EmptyF == [x \in {} |-> 0]
Init == l = 1 /\ issued = {} /\ done = EmptyF /\ sent = EmptyF /\ traces = 0
Ev == TraceLog[l]
Put(f, k, v) == [x \in (DOMAIN f) \cup {k} |-> IF x = k THEN v ELSE f[x]]
Grp(id) == "g" \o ToString(id)
Deliverable == {"ok", "throttled", "partial"}
Checks(e) ==
  CASE e.ev = "complete" -> << <<e.id \in issued, "completion of a request that was not issued">>,
                               <<e.id \notin DOMAIN done, "a request completed twice">>,
                               <<e.ms <= BoundMs, "a request waited beyond the configured timeouts">>,
                               <<e.ok => (Grp(e.id) \in DOMAIN sent /\ sent[Grp(e.id)] \in Deliverable \cup {"garbage"}),
                                 "a request completed successfully although the broker never sent a well-formed response under its correlation id">> >>
    [] e.ev = "payload" -> << <<(Grp(e.id) \in DOMAIN sent /\ sent[Grp(e.id)] \in Deliverable) => e.match,
                                "the response held by a request carries another request's payload">> >>
    [] e.ev = "panic" -> << <<FALSE, "panic while handling a response">> >>
    [] e.ev = "stuck" -> << <<FALSE, "requests still waiting after two virtual minutes">> >>
    [] e.ev = "end" -> << <<DOMAIN done = issued, "an issued request never completed">> >>
    [] e.ev = "driver_failed" -> << <<FALSE, "the client panicked while handling the connection (the driver died with it)">> >>
    [] OTHER -> <<>>
Ok(e) == \A i \in DOMAIN Checks(e) : Checks(e)[i][1]
Why(e) == LET C == Checks(e) bad == {i \in DOMAIN C : ~C[i][1]} IN IF bad = {} THEN "" ELSE C[CHOOSE i \in bad : \A j \in bad : i <= j][2]
Apply(e) ==
  CASE e.ev = "reset" -> issued' = {} /\ done' = EmptyF /\ sent' = EmptyF /\ traces' = traces + 1
    [] e.ev = "issue" -> issued' = issued \cup {e.id} /\ UNCHANGED <<done, sent, traces>>
    [] e.ev = "broker_send" -> sent' = Put(sent, e.group, e.behaviour) /\ UNCHANGED <<issued, done, traces>>
    [] e.ev = "complete" -> done' = Put(done, e.id, e.ok) /\ UNCHANGED <<issued, sent, traces>>
    [] OTHER -> UNCHANGED <<issued, done, sent, traces>>
Next == l <= Len(TraceLog) /\ Ok(Ev) /\ Apply(Ev) /\ l' = l + 1
Spec == Init /\ [][Next]_vars
Accepted == (l = Len(TraceLog) + 1) => PrintT(<<"ACCEPTED", Len(TraceLog), traces>>)
Rejected == (l <= Len(TraceLog) /\ ~Ok(Ev)) => PrintT(<<"REJECTED-AT", l, Why(Ev), ToJson(Ev)>>)
=============================================================================
