SPECIFICATION Spec
CONSTANT TraceFile = "conn_trace.ndjson"
CONSTANT BoundMs = 10000
INVARIANTS Accepted Rejected
CHECK_DEADLOCK FALSE
