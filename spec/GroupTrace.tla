------------------------------ MODULE GroupTrace ------------------------------
(* Trace specification (binding V) for the group consumer.                     *)
(*  C07: a partition is never in two members' hands: OnPartitionsAssigned for   *)
(*       it starts only after the previous owner's OnPartitionsRevoked/Lost     *)
(*       returned; once membership is final every partition of the subscribed   *)
(*       topics is owned by exactly one member.                                 *)
(*  C08: every offset that reaches the coordinator covers only records some     *)
(*       member returned from a poll and then started another poll; everything  *)
(*       below the final committed offset was returned to some member.          *)
(*  C09: commits arrive in issue order; the final committed offset (broker and  *)
(*       CommittedOffsets) is the value of the last successful commit.          *)
(* The cooperative protocol design itself is model-checked in Coop.tla.         *)
EXTENDS Integers, Sequences, FiniteSets, TLC, Json
CONSTANT TraceFile
TraceLog == ndJsonDeserialize(TraceFile)
VARIABLES l, mode, nparts, own, pending, done, returned, issued, okSet, arrived, lastArr, clientC, traces
vars == <<l, mode, nparts, own, pending, done, returned, issued, okSet, arrived, lastArr, clientC, traces>>
EmptyF == [x \in {} |-> 0]
Init == /\ l = 1 /\ mode = "" /\ nparts = 0 /\ own = [x \in {} |-> {}] /\ pending = [x \in {} |-> EmptyF] /\ done = EmptyF /\ returned = {}
        /\ issued = EmptyF /\ okSet = {} /\ arrived = {} /\ lastArr = -1 /\ clientC = -2 /\ traces = 0
Ev == TraceLog[l]
Put(f, k, v) == [x \in (DOMAIN f) \cup {k} |-> IF x = k THEN v ELSE f[x]]
Get(f, k, d) == IF k \in DOMAIN f THEN f[k] ELSE d
SeqSet(s) == {s[i] : i \in DOMAIN s}
Max(a, b) == IF a > b THEN a ELSE b
Key(r) == <<r.t, r.p>>
\* per-partition maximum of a poll result merged into a function
RECURSIVE Merge(_, _, _)
Merge(f, recs, i) == IF i > Len(recs) THEN f ELSE Merge(Put(f, Key(recs[i]), Max(Get(f, Key(recs[i]), -1), recs[i].o)), recs, i + 1)
RECURSIVE MergeF(_, _, _)
MergeF(f, g, ks) == IF ks = {} THEN f ELSE LET k == CHOOSE x \in ks : TRUE IN MergeF(Put(f, k, Max(Get(f, k, -1), g[k])), g, ks \ {k})
Others(m) == UNION {own[x] : x \in (DOMAIN own) \ {m}}
\* issue index of the commit that carried offset o (the driver gives every commit of a scenario a distinct offset; 0 = unknown)
KOf(o) == LET K == {k \in DOMAIN issued : issued[k] = o} IN IF K = {} THEN 0 ELSE CHOOSE k \in K : \A j \in K : j <= k
LastOk == IF okSet = {} THEN 0 ELSE CHOOSE k \in okSet : \A j \in okSet : j <= k
\* a commit later than the last confirmed one may have been applied without the client learning it (cancelled / failed after arrival)
AllowedFinal == {issued[LastOk]} \cup {issued[k] : k \in {j \in DOMAIN issued : j > LastOk /\ issued[j] \in arrived}}
Checks(e) ==
  CASE e.ev = "assign_begin" -> << <<SeqSet(e.parts) \cap Others(e.m) = {}, "a partition was assigned to a member while another member had not finished revoking it">> >>
    [] e.ev = "commit_arrive" /\ mode = "members" ->
         << <<\A i \in DOMAIN e.offsets : e.offsets[i].o <= Get(done, Key(e.offsets[i]), -1) + 1,
              "a committed offset covers records that were not yet returned by a poll that was followed by another poll">> >>
    [] e.ev = "commit_arrive" /\ mode = "commits" ->
         << <<\A i \in DOMAIN e.offsets : KOf(e.offsets[i].o) >= lastArr, "offset commits reached the coordinator out of issue order">> >>
    \* autocommit left on, positions only advance: whatever reaches the coordinator later was issued later and carries at least the same offset
    [] e.ev = "commit_arrive" /\ mode = "autocommits" ->
         << <<\A i \in DOMAIN e.offsets : (e.offsets[i].t = "a" /\ e.offsets[i].p = 0) => e.offsets[i].o >= lastArr,
              "an autocommit reached the coordinator after the later synchronous commit that was issued behind it (offset commits out of issue order)">> >>
    [] e.ev = "settled" ->
         << <<\A t \in SeqSet(e.subscribed) : \A p \in 0..(nparts - 1) :
                Cardinality({m \in SeqSet(e.live) : m \in DOMAIN own /\ (t \o "/" \o ToString(p)) \in own[m]}) = 1,
              "after membership stopped changing a partition of a subscribed topic is not owned by exactly one member">> >>
    [] e.ev = "final" /\ mode = "members" ->
         << <<\A i \in DOMAIN e.committed : e.committed[i].o <= Get(done, Key(e.committed[i]), -1) + 1,
              "the final committed offset covers records that were not returned and followed by another poll">>,
            <<\A i \in DOMAIN e.committed : \A o \in 0..(e.committed[i].o - 1) : <<e.committed[i].t, e.committed[i].p, o>> \in returned,
              "a record below the group's final committed offset was never returned to any member">> >>
    [] e.ev = "final" /\ mode = "autocommits" ->
         LET fin == {e.committed[i].o : i \in {j \in DOMAIN e.committed : e.committed[j].t = "a" /\ e.committed[j].p = 0}} IN
         << <<(okSet # {}) => fin = {issued[LastOk]}, "the final committed offset is not the value of the last successful commit (an older commit took effect last)">>,
            <<(okSet # {} /\ clientC # -2) => clientC = issued[LastOk], "CommittedOffsets does not report the last successful commit">> >>
    [] e.ev = "final" /\ mode = "commits" ->
         LET fin == {e.committed[i].o : i \in {j \in DOMAIN e.committed : e.committed[j].t = "a" /\ e.committed[j].p = 0}} IN
         << <<(okSet # {}) => (fin # {} /\ fin \subseteq AllowedFinal), "the final committed offset is not the value of the last successful commit (an older commit took effect last)">>,
            <<(okSet # {} /\ clientC # -2) => clientC \in AllowedFinal, "CommittedOffsets does not report the last successful commit">> >>
    [] e.ev = "driver_failed" -> << <<FALSE, "driver died (client goroutines blocked forever)">> >>
    [] OTHER -> <<>>
Ok(e) == \A i \in DOMAIN Checks(e) : Checks(e)[i][1]
Why(e) == LET C == Checks(e) bad == {i \in DOMAIN C : ~C[i][1]} IN IF bad = {} THEN "" ELSE C[CHOOSE i \in bad : \A j \in bad : i <= j][2]
U(S) == UNCHANGED S
Apply(e) ==
  CASE e.ev = "reset" -> /\ mode' = e.mode /\ nparts' = e.nparts /\ own' = [x \in {} |-> {}] /\ pending' = [x \in {} |-> EmptyF] /\ done' = EmptyF /\ returned' = {}
                         /\ issued' = EmptyF /\ okSet' = {} /\ arrived' = {} /\ lastArr' = -1 /\ clientC' = -2 /\ traces' = traces + 1
    [] e.ev = "assign_begin" -> own' = Put(own, e.m, Get(own, e.m, {}) \cup SeqSet(e.parts)) /\ U(<<mode, nparts, pending, done, returned, issued, okSet, arrived, lastArr, clientC, traces>>)
    [] e.ev \in {"revoke_end", "lost_end"} -> own' = Put(own, e.m, Get(own, e.m, {}) \ SeqSet(e.parts)) /\ U(<<mode, nparts, pending, done, returned, issued, okSet, arrived, lastArr, clientC, traces>>)
    [] e.ev = "stopped" -> own' = Put(own, e.m, {}) /\ U(<<mode, nparts, pending, done, returned, issued, okSet, arrived, lastArr, clientC, traces>>)
    [] e.ev = "poll_ret" -> /\ pending' = Put(pending, e.m, Merge(Get(pending, e.m, EmptyF), e.recs, 1))
                            /\ returned' = returned \cup {<<e.recs[i].t, e.recs[i].p, e.recs[i].o>> : i \in DOMAIN e.recs}
                            /\ U(<<mode, nparts, own, done, issued, okSet, arrived, lastArr, clientC, traces>>)
    [] e.ev = "poll_start" -> /\ done' = MergeF(done, Get(pending, e.m, EmptyF), DOMAIN Get(pending, e.m, EmptyF)) /\ pending' = Put(pending, e.m, EmptyF)
                              /\ U(<<mode, nparts, own, returned, issued, okSet, arrived, lastArr, clientC, traces>>)
    [] e.ev = "commit_issue" -> issued' = Put(issued, e.k, e.off) /\ U(<<mode, nparts, own, pending, done, returned, okSet, arrived, lastArr, clientC, traces>>)
    [] e.ev = "commit_done" -> okSet' = (IF e.ok THEN okSet \cup {e.k} ELSE okSet) /\ U(<<mode, nparts, own, pending, done, returned, issued, arrived, lastArr, clientC, traces>>)
    [] e.ev = "commit_arrive" /\ mode = "commits" ->
         /\ arrived' = arrived \cup {e.offsets[i].o : i \in DOMAIN e.offsets}
         /\ lastArr' = (IF Len(e.offsets) > 0 THEN KOf(e.offsets[1].o) ELSE lastArr)
         /\ U(<<mode, nparts, own, pending, done, returned, issued, okSet, clientC, traces>>)
    [] e.ev = "commit_arrive" /\ mode = "autocommits" ->
         /\ lastArr' = Max(lastArr, LET O == {e.offsets[i].o : i \in {j \in DOMAIN e.offsets : e.offsets[j].t = "a" /\ e.offsets[j].p = 0}} IN
                                    IF O = {} THEN lastArr ELSE CHOOSE o \in O : \A o2 \in O : o2 <= o)
         /\ U(<<mode, nparts, own, pending, done, returned, issued, okSet, arrived, clientC, traces>>)
    [] e.ev = "client_committed" -> clientC' = e.off /\ U(<<mode, nparts, own, pending, done, returned, issued, okSet, arrived, lastArr, traces>>)
    [] OTHER -> U(<<mode, nparts, own, pending, done, returned, issued, okSet, arrived, lastArr, clientC, traces>>)
Next == l <= Len(TraceLog) /\ Ok(Ev) /\ Apply(Ev) /\ l' = l + 1
Spec == Init /\ [][Next]_vars
NoDoubleOwner == \A a, b \in DOMAIN own : a # b => own[a] \cap own[b] = {}
Accepted == (l = Len(TraceLog) + 1) => PrintT(<<"ACCEPTED", Len(TraceLog), traces>>)
Rejected == (l <= Len(TraceLog) /\ ~Ok(Ev)) => PrintT(<<"REJECTED-AT", l, Why(Ev), ToJson(Ev)>>)
=============================================================================
