SPECIFICATION Spec
CONSTANTS Sig = {"s1", "s2", "s3"} MaxSig = 2
INVARIANTS AtMostOneWorker NoLostWakeup
CHECK_DEADLOCK FALSE
