SPECIFICATION Spec
CONSTANTS N = 3 MaxOff = 2 MaxRetry = 1 Policy = "wait" UserCancel = FALSE
INVARIANTS ArrivalInIssueOrder LastWins OkWasHandled OneInFlight
PROPERTIES AllFinish
CHECK_DEADLOCK FALSE
