INIT Init
NEXT Next
CONSTANTS MaxFields = 2 NumFmts = {"ascii", "hex64", "hex32", "hex8", "big64", "big32", "big16", "little64", "little16", "byte"} OutFile = "fmt_cases.ndjson"
