------------------------------- MODULE Persist -------------------------------
(* kfake persistence with DataDir + SyncWrites over a file system that can lose unsynced data (property C33).       *)
(* Two files: an append log of framed entries (length + CRC; recovery keeps the longest valid prefix) and a state     *)
(* file that is rewritten through a temporary file and a rename. A file has a volatile content and the content as     *)
(* of its last sync; a crash keeps, per file, anything between the two (a torn last entry fails its CRC). Directory   *)
(* operations (create, rename) are durable in order.                                                                  *)
(* Acknowledgement discipline under test: an entry is acknowledged only after the log was synced past it; the state   *)
(* file is replaced only by a temporary file that was synced first (SyncBeforeRename = FALSE is the mutant).          *)
EXTENDS Integers, Sequences, FiniteSets, TLC
CONSTANTS MaxEntries, SyncBeforeRename
VARIABLES log,        \* volatile log content: sequence of entry ids
          logSynced,  \* number of entries durable
          acked,      \* acknowledged entry ids
          stateFile,  \* [vol, dur]: sets of commit ids the state file holds (volatile / durable)
          tmp,        \* [on, vol, dur]: the temporary file of a rewrite in progress
          commits,    \* commit ids acknowledged so far (held in memory)
          phase,      \* "run" | "crashed"
          recLog, recState
vars == <<log, logSynced, acked, stateFile, tmp, commits, phase, recLog, recState>>
NoTmp == [on |-> FALSE, vol |-> {}, dur |-> {}]
Init == /\ log = <<>> /\ logSynced = 0 /\ acked = {} /\ stateFile = [vol |-> {}, dur |-> {}] /\ tmp = NoTmp /\ commits = {}
        /\ phase = "run" /\ recLog = <<>> /\ recState = {}
AppendEntry == phase = "run" /\ Len(log) < MaxEntries /\ log' = Append(log, Len(log) + 1) /\ UNCHANGED <<logSynced, acked, stateFile, tmp, commits, phase, recLog, recState>>
SyncLog == phase = "run" /\ logSynced < Len(log) /\ logSynced' = Len(log) /\ UNCHANGED <<log, acked, stateFile, tmp, commits, phase, recLog, recState>>
Ack(e) == phase = "run" /\ e \in 1..logSynced /\ e \notin acked /\ acked' = acked \cup {e} /\ UNCHANGED <<log, logSynced, stateFile, tmp, commits, phase, recLog, recState>>
(* an offset commit is appended to the state file and synced before it is acknowledged *)
Commit(c) == phase = "run" /\ ~tmp.on /\ c \notin commits /\ c \in 1..2
             /\ stateFile' = [vol |-> stateFile.vol \cup {c}, dur |-> stateFile.vol \cup {c}] /\ commits' = commits \cup {c}
             /\ UNCHANGED <<log, logSynced, acked, tmp, phase, recLog, recState>>
(* rewriting the state file (on Close or compaction): write everything to a temporary file, sync it, rename it over *)
RewriteStart == phase = "run" /\ ~tmp.on /\ commits # {} /\ tmp' = [on |-> TRUE, vol |-> commits, dur |-> {}] /\ UNCHANGED <<log, logSynced, acked, stateFile, commits, phase, recLog, recState>>
RewriteSync == phase = "run" /\ tmp.on /\ tmp.dur # tmp.vol /\ tmp' = [tmp EXCEPT !.dur = tmp.vol] /\ UNCHANGED <<log, logSynced, acked, stateFile, commits, phase, recLog, recState>>
RewriteRename == phase = "run" /\ tmp.on /\ (SyncBeforeRename => tmp.dur = tmp.vol)
                 /\ stateFile' = [vol |-> tmp.vol, dur |-> tmp.dur] /\ tmp' = NoTmp /\ UNCHANGED <<log, logSynced, acked, commits, phase, recLog, recState>>
LateSync == phase = "run" /\ stateFile.dur # stateFile.vol /\ stateFile' = [stateFile EXCEPT !.dur = stateFile.vol] /\ UNCHANGED <<log, logSynced, acked, tmp, commits, phase, recLog, recState>>
(* crash: every file keeps something between its durable and its volatile content; recovery reads what is there *)
Crash == /\ phase = "run" /\ phase' = "crashed"
         /\ \E n \in logSynced..Len(log) : recLog' = SubSeq(log, 1, n)
         /\ \E S \in SUBSET stateFile.vol : stateFile.dur \subseteq S /\ recState' = S
         /\ UNCHANGED <<log, logSynced, acked, stateFile, tmp, commits>>
Next == AppendEntry \/ SyncLog \/ (\E e \in 1..MaxEntries : Ack(e)) \/ (\E c \in 1..2 : Commit(c)) \/ RewriteStart \/ RewriteSync \/ RewriteRename \/ LateSync \/ Crash
Spec == Init /\ [][Next]_vars
RecoveredContainsAcked == phase = "crashed" => (\A e \in acked : e \in {recLog[i] : i \in DOMAIN recLog}) /\ commits \subseteq recState
OffsetsContiguous == phase = "crashed" => \A i \in DOMAIN recLog : recLog[i] = i
AckOnlyDurable == acked \subseteq 1..logSynced
=============================================================================
