------------------------------- MODULE GroupHandover -------------------------------
(* Partition hand-over in a consumer group (property C07), for the three protocols the client speaks:               *)
(*   eager       on a rebalance every member revokes everything, rejoins, and is assigned afresh;                     *)
(*   cooperative a member revokes only what the new target assignment takes away, rejoins, and the partitions are     *)
(*               given to their new owner in the following generation;                                                *)
(*   next-gen    (KIP-848) the coordinator reconciles per member: a partition is offered to its new owner only after   *)
(*               the previous owner acknowledged (by heartbeat) that it revoked it.                                    *)
(* A member "owns" a partition from the start of its OnPartitionsAssigned callback to the end of its                   *)
(* OnPartitionsRevoked / OnPartitionsLost callback for it; callbacks take time (they are separate begin / end steps).  *)
(* Safety: no partition is owned by two members at once. AckBeforeRevokeEnds = TRUE is the mutant in which a member     *)
(* reports a revocation to the coordinator while its callback is still running.                                        *)
EXTENDS Integers, FiniteSets, TLC
CONSTANTS Members, Parts, Protocol, AckBeforeRevokeEnds, MaxChanges
VARIABLES live,       \* members currently in the group
          target,     \* coordinator: partition -> member it should end up with (or "none")
          granted,    \* coordinator: partition -> member it is currently granted to (or "none"); a grant is withdrawn only after the member says so
          owns,       \* member -> partitions it owns (callback view)
          revoking,   \* member -> partitions whose revoke callback is running
          acked,      \* member -> partitions whose revocation it has reported but the coordinator has not processed
          changes
vars == <<live, target, granted, owns, revoking, acked, changes>>
None == "none"
Init == /\ live = {} /\ target = [p \in Parts |-> None] /\ granted = [p \in Parts |-> None]
        /\ owns = [m \in Members |-> {}] /\ revoking = [m \in Members |-> {}] /\ acked = [m \in Members |-> {}] /\ changes = 0
(* the coordinator (or the group leader's balancer) spreads the partitions over the live members: any total assignment *)
Retarget(L) == \E f \in [Parts -> L] : target' = f
Join(m) == /\ m \notin live /\ changes < MaxChanges /\ live' = live \cup {m} /\ Retarget(live \cup {m}) /\ changes' = changes + 1
           /\ UNCHANGED <<granted, owns, revoking, acked>>
Leave(m) == /\ m \in live /\ Cardinality(live) > 1 /\ changes < MaxChanges /\ owns[m] = {} /\ revoking[m] = {}   \* a member leaves after giving everything back
            /\ live' = live \ {m} /\ Retarget(live \ {m}) /\ changes' = changes + 1
            /\ granted' = [p \in Parts |-> IF granted[p] = m THEN None ELSE granted[p]]
            /\ acked' = [acked EXCEPT ![m] = {}]            \* reports of a previous membership (member epoch) are void
            /\ UNCHANGED <<owns, revoking>>
(* a member learns that partitions it owns are no longer its: the revoke callback starts *)
ToGiveUp(m) == {p \in owns[m] : IF Protocol = "eager" THEN \E q \in Parts : target[q] # granted[q] ELSE target[p] # m}
RevokeBegin(m) == /\ m \in live /\ revoking[m] = {} /\ ToGiveUp(m) # {}
                  /\ revoking' = [revoking EXCEPT ![m] = ToGiveUp(m)]
                  /\ acked' = [acked EXCEPT ![m] = IF AckBeforeRevokeEnds THEN @ \cup ToGiveUp(m) ELSE @]
                  /\ UNCHANGED <<live, target, granted, owns, changes>>
RevokeEnd(m) == /\ revoking[m] # {}
                /\ owns' = [owns EXCEPT ![m] = @ \ revoking[m]] /\ acked' = [acked EXCEPT ![m] = @ \cup revoking[m]] /\ revoking' = [revoking EXCEPT ![m] = {}]
                /\ UNCHANGED <<live, target, granted, changes>>
(* the coordinator processes a member's report (rejoin / heartbeat): the grant is withdrawn *)
CoordRelease(m) == /\ acked[m] # {} /\ granted' = [p \in Parts |-> IF p \in acked[m] /\ granted[p] = m THEN None ELSE granted[p]]
                   /\ acked' = [acked EXCEPT ![m] = {}] /\ UNCHANGED <<live, target, owns, revoking, changes>>
(* a free partition is granted to its target, whose assign callback starts owning it *)
Grant(p) == /\ granted[p] = None /\ target[p] # None /\ target[p] \in live
            /\ granted' = [granted EXCEPT ![p] = target[p]] /\ owns' = [owns EXCEPT ![target[p]] = @ \cup {p}]
            /\ UNCHANGED <<live, target, revoking, acked, changes>>
Next == (\E m \in Members : Join(m) \/ Leave(m) \/ RevokeBegin(m) \/ RevokeEnd(m) \/ CoordRelease(m)) \/ (\E p \in Parts : Grant(p))
Spec == Init /\ [][Next]_vars
NoDoubleOwner == \A a, b \in Members : a # b => owns[a] \cap owns[b] = {}
GrantCoversOwner == \A m \in Members : \A p \in owns[m] : granted[p] = m \/ AckBeforeRevokeEnds
=============================================================================
