CONSTANTS MaxTxn = 3 MaxRec = 4 MaxFaults = 2 AbortAttempted = TRUE Reload = TRUE Bump = FALSE OnePerRequest = TRUE Driver = FALSE
SPECIFICATION Spec
VIEW view
INVARIANTS CommitMeansVisible AbortMeansNever FailedNeverVisible NoOrphan
CHECK_DEADLOCK FALSE
