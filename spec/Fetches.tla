------------------------------ MODULE Fetches ------------------------------
(* Oracle for C38: the canonical content of a kgo.Fetches value (a sequence  *)
(* of per-broker fetches, each a sequence of topics with partitions holding   *)
(* records and/or an error) and what every accessor must report for it.       *)
(* NB: TLC evaluates zero-arity constant definitions eagerly; big sets take a dummy argument. *)
EXTENDS Integers, Sequences, FiniteSets, TLC, Json, SequencesExt
CONSTANTS N, MaxFetches, OutFile
Names == {"a", "b", "c"}
POpt == [n : 0..2, err : BOOLEAN]
RandSeq(S, max) == [i \in 1..RandomElement(0..max) |-> RandomElement(S)]
RandParts(u) == LET ps == RandSeq(POpt, 2) IN [i \in 1..Len(ps) |-> [p |-> i - 1, n |-> ps[i].n, err |-> ps[i].err]]
\* topics of one fetch are distinct (a broker response lists a topic once)
RandTopics(u) == LET names == SetToSeq(RandomElement(SUBSET Names))
                 IN [i \in 1..Len(names) |-> [topic |-> names[i], hasId |-> RandomElement(BOOLEAN), parts |-> RandParts(0)]]
RandFetches(u) == [i \in 1..RandomElement(0..MaxFetches) |-> RandTopics(0)]

RECURSIVE FlatN(_, _)
FlatN(ss, n) == IF n = 0 THEN <<>> ELSE FlatN(ss, n - 1) \o ss[n]
Flat(ss) == FlatN(ss, Len(ss))
\* canonical order: fetch, topic, partition, record
PartsOf(fs) == Flat([f \in 1..Len(fs) |-> Flat([t \in 1..Len(fs[f]) |->
                  [q \in 1..Len(fs[f][t].parts) |-> [f |-> f, t |-> t, topic |-> fs[f][t].topic, p |-> fs[f][t].parts[q].p,
                                                       n |-> fs[f][t].parts[q].n, err |-> fs[f][t].parts[q].err, q |-> q]]])])
RecsOf(fs) == LET ps == PartsOf(fs) IN Flat([i \in 1..Len(ps) |-> [r \in 1..ps[i].n |-> <<ps[i].f, ps[i].t, ps[i].q, r>>]])
TopicNames(fs) == UNION {{fs[f][t].topic : t \in 1..Len(fs[f])} : f \in 1..Len(fs)}
Expect(fs) == [recs |-> RecsOf(fs), num |-> Len(RecsOf(fs)), empty |-> Len(RecsOf(fs)) = 0,
               parts |-> PartsOf(fs),
               topics |-> SetToSeq({[topic |-> nm,
                                      hasId |-> \E f \in 1..Len(fs) : \E t \in 1..Len(fs[f]) : fs[f][t].topic = nm /\ fs[f][t].hasId,
                                      parts |-> SelectSeq(PartsOf(fs), LAMBDA x : x.topic = nm)] : nm \in TopicNames(fs)}),
               errs |-> SelectSeq(PartsOf(fs), LAMBDA x : x.err)]
Cases == [i \in 1..N |-> LET fs == RandFetches(0) IN [in |-> fs, exp |-> Expect(fs)]]
ASSUME PrintT(<<"cases", Len(Cases)>>)
ASSUME ndJsonSerialize(OutFile, Cases)
VARIABLE x
Init == x = 0
Next == x' = x
=============================================================================
