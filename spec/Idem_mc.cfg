SPECIFICATION Spec
CONSTANTS NBatches = 4 MaxInflight = 3 Window = 3 SeqMod = 4 MaxFaults = 3
INVARIANTS AckedAtOffset ExactlyOnce InOrder NoEpochBump SeqConsistent
PROPERTY AllAcked
CHECK_DEADLOCK FALSE
