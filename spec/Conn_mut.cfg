SPECIFICATION Spec
CONSTANTS Reqs = {1, 2, 3} MatchHead = FALSE
INVARIANTS OnlyOwnResponse AtMostOnce CompletedOnce
PROPERTIES EveryRequestCompletes
CHECK_DEADLOCK FALSE
