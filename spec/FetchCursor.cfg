SPECIFICATION Spec
CONSTANTS MaxLog = 5 MaxEpoch = 2 AdvanceEpochOnPartialTake = TRUE
INVARIANTS InOrderOnceNoGap PositionFollowsDelivery
CHECK_DEADLOCK FALSE
