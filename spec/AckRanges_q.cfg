INIT Init
NEXT Next
CONSTANTS MaxOff = 4 MaxEntries = 2 OutFile = "ack_cases.ndjson"
