------------------------------- MODULE ProduceLayout -------------------------------
(* Size accounting of produce requests (property C18): "a written produce request never exceeds                     *)
(* BrokerMaxWriteBytes". Actual(r) is the number of bytes on the wire, from the protocol layout of Produce v3..v13    *)
(* (request header v1 / v2, nullable / compact strings and arrays, topic names or topic ids, tagged-field bytes);     *)
(* Accounted(r) is what the client adds up while it packs batches into a request (sink.go: baseProduceRequestLength,   *)
(* tryAddBatch, wireLengthForProduceVersion), which is what it compares with the limit. The packing is safe iff        *)
(* Accounted(r) >= Actual(r) for every request it can build. CountTags = FALSE is the accounting as it was before the  *)
(* repair (no tagged-field bytes per topic / partition, length prefixes of compact fields taken of n instead of n+1).   *)
EXTENDS Integers, Sequences, FiniteSets, TLC
CONSTANT CountTags
NullLen == 99999   \* stands for a null client / transactional id
Uvarlen(n) == IF n < 128 THEN 1 ELSE IF n < 16384 THEN 2 ELSE IF n < 2097152 THEN 3 ELSE IF n < 268435456 THEN 4 ELSE 5
Flexible(v) == v >= 9
TopicIds(v) == v >= 13
RECURSIVE Sum(_, _)
Sum(f, i) == IF i = 0 THEN 0 ELSE f[i] + Sum(f, i - 1)
(* a request: version, client id length (NullLen = null), transactional id length (NullLen = null), topics: seq of [name, parts: seq of batch lengths] *)
(* ---------------- bytes on the wire ---------------- *)
HeaderLen(v, cid) == 4 + 2 + 2 + 4 + 2 + (IF cid = NullLen THEN 0 ELSE cid) + (IF Flexible(v) THEN 1 ELSE 0)
TxnLen(v, txn) == IF Flexible(v) THEN (IF txn = NullLen THEN 1 ELSE Uvarlen(txn + 1) + txn) ELSE 2 + (IF txn = NullLen THEN 0 ELSE txn)
PartLen(v, bl) == 4 + (IF Flexible(v) THEN Uvarlen(bl + 1) + bl + 1 ELSE 4 + bl)
TopicLen(v, t) == (IF TopicIds(v) THEN 16 ELSE IF Flexible(v) THEN Uvarlen(t.name + 1) + t.name ELSE 2 + t.name)
                  + (IF Flexible(v) THEN Uvarlen(Len(t.parts) + 1) ELSE 4)
                  + Sum([i \in 1..Len(t.parts) |-> PartLen(v, t.parts[i])], Len(t.parts))
                  + (IF Flexible(v) THEN 1 ELSE 0)
Actual(v, cid, txn, topics) == HeaderLen(v, cid) + TxnLen(v, txn) + 2 + 4
                               + (IF Flexible(v) THEN Uvarlen(Len(topics) + 1) ELSE 4)
                               + Sum([i \in 1..Len(topics) |-> TopicLen(v, topics[i])], Len(topics))
                               + (IF Flexible(v) THEN 1 ELSE 0)
(* ---------------- what the client adds up ---------------- *)
Base(cid, txn) == (4 + 2 + 2 + 4 + 2) + (2 + 2 + 4 + 4) + (IF cid = NullLen THEN 0 ELSE cid) + (IF txn = NullLen THEN 0 ELSE txn)
BatchAcc(v, bl) == IF Flexible(v) THEN Uvarlen(IF CountTags THEN bl + 1 ELSE bl) + bl ELSE 4 + bl
(* adding the k-th partition (k >= 1) of a topic *)
AddPart(v, t, k) == 4 + BatchAcc(v, t.parts[k])
                    + (IF k = 1 THEN (IF TopicIds(v) THEN 16 + 1
                                      ELSE IF Flexible(v) THEN Uvarlen(IF CountTags THEN t.name + 1 ELSE t.name) + t.name + 1
                                      ELSE 2 + t.name + 4)
                                     + (IF Flexible(v) /\ CountTags THEN 1 ELSE 0)             \* the topic's tagged-field byte
                       ELSE IF Flexible(v) THEN Uvarlen(k + 1) - Uvarlen(k) ELSE 0)             \* growth of the partition array prefix
                    + (IF Flexible(v) /\ CountTags THEN 1 ELSE 0)                               \* the partition's tagged-field byte
Accounted(v, cid, txn, topics) ==
  Base(cid, txn) + Sum([i \in 1..Len(topics) |-> Sum([k \in 1..Len(topics[i].parts) |-> AddPart(v, topics[i], k)], Len(topics[i].parts))], Len(topics))
(* the first request on a connection is packed before the produce version is known (Unknown): every batch is charged     *)
(* its largest form and a topic the larger of its non-flexible name form and the topic-id form                             *)
Max2(a, b) == IF a > b THEN a ELSE b
AddPartUnknown(t, k) == 4 + Max2(4 + t.parts[k], Uvarlen(t.parts[k] + 1) + t.parts[k])
                        + (IF k = 1 THEN (IF CountTags THEN Max2(2 + t.name + 4, 16 + 1 + 1) ELSE 2 + t.name + 4) ELSE 0)
AccountedUnknown(cid, txn, topics) ==
  Base(cid, txn) + Sum([i \in 1..Len(topics) |-> Sum([k \in 1..Len(topics[i].parts) |-> AddPartUnknown(topics[i], k)], Len(topics[i].parts))], Len(topics))
=============================================================================
