------------------------------ MODULE Balancer ------------------------------
(* C25 / C26 / C27 (binding O2).  Mode "gen": TLC generates group situations   *)
(* (topics, members, subscriptions, generations, prior ownership, racks).     *)
(* The runner feeds each to the real balancers and writes (input, balancer,    *)
(* plan) rows.  Mode "eval": TLC evaluates the acceptance predicates on each   *)
(* row and writes the rows that violate one.                                   *)
(* NB: TLC evaluates zero-arity constant definitions eagerly; big sets take a dummy argument. *)
EXTENDS Integers, Sequences, FiniteSets, TLC, Json, SequencesExt
CONSTANTS Mode, N, Seed, InFile, OutFile
Topics == {"t1", "t2", "t3", "t4"}
MemberIds == {"m1", "m2", "m3", "m4", "m5"}
Racks == {"ra", "rb"}

\* ------------------------------------------------------------------ generation
\* Choices are derived from (case number, choice index, Seed) by a small hash instead of RandomElement:
\* TLC re-evaluates LET-bound random expressions per use under bound variables, which would make a case inconsistent.
H(a, b) == (((a % 9973) * 7919 + (b % 9973) * 10007 + (Seed % 9973) * 3137 + (a \div 9973) * 131) % 1000003)
Rn(i, k) == H(H(i, k), k + 17)
Pick(S, r) == SetToSeq(S)[(r % Cardinality(S)) + 1]
TpIdx(tp) == (IF tp[1] = "t1" THEN 0 ELSE IF tp[1] = "t2" THEN 10 ELSE IF tp[1] = "t3" THEN 20 ELSE IF tp[1] = "t4" THEN 30 ELSE 40) + tp[2]
MIdx(m) == IF m = "m1" THEN 1 ELSE IF m = "m2" THEN 2 ELSE IF m = "m3" THEN 3 ELSE IF m = "m4" THEN 4 ELSE 5
GenCase(i) ==
  LET style == Pick({"fresh", "prev", "prevsub", "prevsub2", "chaos", "chain", "dip"}, Rn(i, 4))
      chain == style \in {"chain", "dip"}      \* 4-5 members whose subscriptions overlap pairwise along a chain of topics
      ts == IF chain THEN Topics ELSE Pick({S \in SUBSET Topics : Cardinality(S) \in 1..3}, Rn(i, 1))
      np == [t \in Topics |-> IF style = "dip" /\ t = "t2" THEN (Rn(i, 12) % 2) + 1 ELSE IF style = "dip" /\ t = "t1" THEN (Rn(i, 13) % 3) + 2
                                ELSE (Rn(i, 2 + TpIdx(<<t, 0>>)) % 4) + 1]
      ms == IF chain THEN (IF Rn(i, 7) % 2 = 0 THEN {"m1", "m2", "m3", "m4"} ELSE MemberIds)
            ELSE IF Rn(i, 7) % 10 = 0 THEN Pick({S \in SUBSET MemberIds : Cardinality(S) = 1}, Rn(i, 3))
            ELSE Pick({S \in SUBSET MemberIds : Cardinality(S) \in 2..4}, Rn(i, 3))
      AllP == UNION {{<<t, p>> : p \in 0..(np[t] - 1)} : t \in ts}
      Weird == {<<"t1", 5>>, <<"tx", 0>>}
      subsAll == (Rn(i, 5) % 2) = 0
      \* chain positions are dealt to the members by a permutation, so that member-id order and chain order are independent
      perm == Pick(Permutations(MemberIds), Rn(i, 9))
      PosSubs(q) == IF q = "m1" THEN {"t1"} ELSE IF q = "m2" THEN {"t1", "t2"} ELSE IF q = "m3" THEN {"t2", "t3"}
                    ELSE IF q = "m4" THEN (IF Rn(i, 8) % 2 = 0 THEN {"t3"} ELSE {"t3", "t4"}) ELSE {"t4"}
      subs == [m \in MemberIds |-> IF chain THEN PosSubs(perm[m]) ELSE IF subsAll THEN ts ELSE Pick(SUBSET (ts \cup {"tx"}), Rn(i, 100 + MIdx(m)))]
      prev == [tp \in AllP |-> Pick(MemberIds \cup {"none"}, Rn(i, 200 + TpIdx(tp)))]
      \* "prevsub": a previous valid plan for the current subscriptions (each partition on a subscribed member, if any)
      \* in chain style the previous plan is skewed towards the far end of the chain (large imbalance to repair)
      prevsub == [tp \in AllP |-> LET c == {m \in ms : tp[1] \in subs[m]} IN IF c = {} THEN "none"
                                   \* "dip": loads go up, down and far up along the chain (1, k, 1, many): the first t1 partition to position 1, the rest of t1 to 2, t2 to 3, t3/t4 to the far end
                                   ELSE IF style = "dip" THEN (IF tp = <<"t1", 0>> THEN CHOOSE m \in c : \A o \in c : MIdx(perm[m]) <= MIdx(perm[o])
                                                              ELSE CHOOSE m \in c : \A o \in c : MIdx(perm[o]) <= MIdx(perm[m]))
                                   ELSE IF chain /\ Rn(i, 300 + TpIdx(tp)) % 4 # 0 THEN CHOOSE m \in c : \A o \in c : MIdx(perm[o]) <= MIdx(perm[m])
                                   ELSE Pick(c, Rn(i, 300 + TpIdx(tp)))]
      owned == [m \in MemberIds |-> IF style = "fresh" THEN {}
                              ELSE IF style = "prev" THEN {tp \in AllP : prev[tp] = m}
                              ELSE IF style \in {"prevsub", "prevsub2", "chain", "dip"} THEN {tp \in AllP : prevsub[tp] = m}
                              ELSE Pick(SUBSET (AllP \cup Weird), Rn(i, 400 + MIdx(m)))]
      gen == [m \in MemberIds |-> IF style = "fresh" THEN -1 ELSE IF style = "chaos" THEN (Rn(i, 500 + MIdx(m)) % 3) + 1 ELSE 3]
      useRacks == (Rn(i, 6) % 3) = 0
  IN [id |-> i, style |-> style,
      topics |-> SetToSeq({[t |-> t, n |-> np[t]] : t \in ts}),
      members |-> SetToSeq({[id |-> m, subs |-> SetToSeq(subs[m]), gen |-> gen[m], owned |-> SetToSeq(owned[m]),
                             rack |-> IF useRacks THEN Pick(Racks \cup {""}, Rn(i, 600 + MIdx(m))) ELSE ""] : m \in ms}),
      prack |-> IF useRacks THEN SetToSeq({[t |-> tp[1], p |-> tp[2], racks |-> SetToSeq(Pick((SUBSET Racks) \ {{}}, Rn(i, 700 + TpIdx(tp))))] : tp \in AllP}) ELSE <<>>]
GenCases(u) == [i \in 1..N |-> GenCase(i)]

\* ------------------------------------------------------------------ evaluation
Rows(u) == ndJsonDeserialize(InFile)
Ms(r) == {r.in.members[i].id : i \in DOMAIN r.in.members}
Mem(r, m) == r.in.members[CHOOSE i \in DOMAIN r.in.members : r.in.members[i].id = m]
Subs(r, m) == ToSet(Mem(r, m).subs)
Owned(r, m) == ToSet(Mem(r, m).owned)
Gen(r, m) == Mem(r, m).gen
Known(r) == {r.in.topics[i].t : i \in DOMAIN r.in.topics}
NP(r, t) == r.in.topics[CHOOSE i \in DOMAIN r.in.topics : r.in.topics[i].t = t].n
Wanted(r) == UNION {{<<t, p>> : p \in 0..(NP(r, t) - 1)} : t \in {t2 \in Known(r) : \E m \in Ms(r) : t2 \in Subs(r, m)}}
PlanSeq(r, m) == LET I == {i \in DOMAIN r.plan : r.plan[i].m = m} IN IF I = {} THEN <<>> ELSE r.plan[CHOOSE i \in I : TRUE].parts
Plan(r, m) == ToSet(PlanSeq(r, m))
Holders(r, tp) == {m \in Ms(r) : tp \in Plan(r, m)}
MaxClaim(r, tp) == LET G == {Gen(r, m) : m \in {x \in Ms(r) : tp \in Owned(r, x)}} IN CHOOSE g \in G : \A h \in G : h <= g
Claimants(r, tp) == {m \in Ms(r) : tp \in Owned(r, m)}
CurrentOwners(r, tp) == {m \in Claimants(r, tp) : Gen(r, m) = MaxClaim(r, tp)}

\* C25: every partition of every subscribed topic to exactly one subscribed member, nothing else
WellFormed(r) == /\ \A i \in DOMAIN r.plan : r.plan[i].m \in Ms(r) /\ Len(r.plan[i].parts) = Cardinality(ToSet(r.plan[i].parts))
                 /\ \A i, j \in DOMAIN r.plan : i # j => r.plan[i].m # r.plan[j].m
                 /\ \A m \in Ms(r) : \A tp \in Plan(r, m) : tp \in Wanted(r) /\ tp[1] \in Subs(r, m)
                 /\ \A tp \in Wanted(r) : Cardinality(Holders(r, tp)) <= 1
Complete(r) == \A tp \in Wanted(r) : Cardinality(Holders(r, tp)) = 1
\* cooperative-sticky may leave a partition unassigned only while it moves away from a member that (claims to) own it
CoopWithheldOnlyMoving(r) == \A tp \in Wanted(r) : Holders(r, tp) = {} => \E o \in Claimants(r, tp) : tp \notin Plan(r, o)
ValidPlan(r) == WellFormed(r) /\ IF r.balancer = "cooperative-sticky" THEN CoopWithheldOnlyMoving(r) ELSE Complete(r)

\* C27 (one round): never give a partition to a member while another member with a current claim still owns it
CoopSafe(r) == \A m \in Ms(r) : \A tp \in Plan(r, m) :
                 (m \notin CurrentOwners(r, tp)) => (Claimants(r, tp) = {} \/ CurrentOwners(r, tp) \ {m} = {})

\* C26: no steal path in an assignment A (function member -> set of partitions)
Load(A, m) == Cardinality(A[m])
Edge(r, A, a, b) == a # b /\ \E tp \in A[a] : tp[1] \in Subs(r, b)
RECURSIVE ReachN(_, _, _, _)
ReachN(r, A, S, n) == IF n = 0 THEN S ELSE ReachN(r, A, S \cup {b \in Ms(r) : \E a \in S : Edge(r, A, a, b)}, n - 1)
Reach(r, A, a) == ReachN(r, A, {a}, Cardinality(Ms(r)))
NoStealPath(r, A) == \A a \in Ms(r) : \A b \in Reach(r, A, a) : Load(A, a) < Load(A, b) + 2
PlanFn(r) == [m \in Ms(r) |-> Plan(r, m)]
PriorFn(r) == [m \in Ms(r) |-> Owned(r, m)]
PriorValid(r) == /\ \A m \in Ms(r) : \A tp \in Owned(r, m) : tp \in Wanted(r) /\ tp[1] \in Subs(r, m)
                 /\ \A tp \in Wanted(r) : Cardinality(Claimants(r, tp)) = 1
                 /\ \A m1, m2 \in Ms(r) : Gen(r, m1) = Gen(r, m2)
StickyOK(r) == /\ Complete(r) => NoStealPath(r, PlanFn(r))
               /\ (PriorValid(r) /\ NoStealPath(r, PriorFn(r))) => PlanFn(r) = PriorFn(r)

\* C27 convergence: chain rows carry the three rounds of one group (members revoke what they lost and rejoin)
Plan3(r, m) == LET I == {i \in DOMAIN r.plan3 : r.plan3[i].m = m} IN IF I = {} THEN {} ELSE ToSet(r.plan3[CHOOSE i \in I : TRUE].parts)
Converges(r) == /\ Complete(r) /\ \A m \in Ms(r) : Plan3(r, m) = Plan(r, m)

Verdict(r) == IF r.kind = "chain" THEN (IF Converges(r) THEN <<>> ELSE <<"C27 converge">>)
              ELSE (IF r.err # "" THEN <<"C25 error">> ELSE
                    (IF ValidPlan(r) THEN <<>> ELSE <<"C25 valid">>)
                    \o (IF r.balancer = "cooperative-sticky" /\ ~CoopSafe(r) THEN <<"C27 safe">> ELSE <<>>)
                    \o (IF r.balancer \in {"sticky", "cooperative-sticky"} /\ WellFormed(r) /\ ~StickyOK(r) THEN <<"C26 sticky">> ELSE <<>>))
BadRows(u) == LET R == Rows(0) IN SelectSeq([i \in 1..Len(R) |-> [row |-> i, why |-> Verdict(R[i])]], LAMBDA x : x.why # <<>>)
Stats(u) == LET R == Rows(0) IN [rows |-> Len(R),
              priorvalid |-> Cardinality({i \in 1..Len(R) : R[i].kind = "plan" /\ R[i].balancer = "sticky" /\ PriorValid(R[i]) /\ NoStealPath(R[i], PriorFn(R[i]))}),
              withheld |-> Cardinality({i \in 1..Len(R) : R[i].kind = "plan" /\ R[i].balancer = "cooperative-sticky" /\ ~Complete(R[i])})]
ASSUME IF Mode = "gen" THEN ndJsonSerialize(OutFile, GenCases(0))
       ELSE ndJsonSerialize(OutFile, BadRows(0)) /\ PrintT(<<"STATS", ToJson(Stats(0))>>)
VARIABLE x
Init == x = 0
Next == x' = x
=============================================================================
