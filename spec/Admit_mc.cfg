SPECIFICATION Spec
CONSTANTS Recs = {"r1", "r2", "r3"} MaxRecs = 1 Cancellable = {"r2", "r3"} PostBroadcast = TRUE
INVARIANTS Bound GaugeExact BlockedExact FlushSound
PROPERTIES AllPromised FlushReturns
CHECK_DEADLOCK FALSE
