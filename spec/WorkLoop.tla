---------------------------- MODULE WorkLoop ----------------------------
(* Prototype of the start-work latch of pkg/kgo/atomic_maybe_work.go.     *)
(* Grain: one action per atomic operation (Load / CAS / Store).           *)
EXTENDS Naturals, FiniteSets, TLC
CONSTANTS Sig,        \* signaller threads
          MaxSig      \* signals per signaller
Unstarted == 0  Working == 1  Continue == 2

VARIABLES state,      \* the atomic word
          work,       \* units of work signalled and not yet consumed
          spc, sseen, scount,  \* signaller: pc, value loaded, signals done
          wpc, wseen, wagain,  \* worker instances: pc, loaded value, local 'again'
          nworkers    \* worker goroutines ever spawned (ids 1..nworkers)
vars == <<state, work, spc, sseen, scount, wpc, wseen, wagain, nworkers>>

MaxW == Cardinality(Sig) * MaxSig + 1
W == 1..MaxW

Init == /\ state = Unstarted /\ work = 0
        /\ spc = [s \in Sig |-> "idle"] /\ sseen = [s \in Sig |-> 0] /\ scount = [s \in Sig |-> 0]
        /\ wpc = [w \in W |-> "none"] /\ wseen = [w \in W |-> 0] /\ wagain = [w \in W |-> FALSE]
        /\ nworkers = 0

(* signaller: work++ ; maybeBegin ; if true: go worker *)
SigAdd(s) == /\ spc[s] = "idle" /\ scount[s] < MaxSig
             /\ work' = work + 1 /\ scount' = [scount EXCEPT ![s] = @ + 1]
             /\ spc' = [spc EXCEPT ![s] = "load"]
             /\ UNCHANGED <<state, sseen, wpc, wseen, wagain, nworkers>>
MBLoad(s) == /\ spc[s] = "load"
             /\ sseen' = [sseen EXCEPT ![s] = state]
             /\ spc' = [spc EXCEPT ![s] = IF state = Continue THEN "idle" ELSE "cas"]
             /\ UNCHANGED <<state, work, scount, wpc, wseen, wagain, nworkers>>
MBCas(s) == /\ spc[s] = "cas"
            /\ IF state = sseen[s]
                 THEN /\ state' = sseen[s] + 1            \* Unstarted->Working, Working->Continue
                      /\ IF sseen[s] = Unstarted
                           THEN /\ nworkers' = nworkers + 1   \* returned true: spawn a worker
                                /\ wpc' = [wpc EXCEPT ![nworkers + 1] = "body"]
                           ELSE UNCHANGED <<nworkers, wpc>>
                      /\ spc' = [spc EXCEPT ![s] = "idle"]
                 ELSE /\ spc' = [spc EXCEPT ![s] = "load"]  \* CAS failed: retry loop
                      /\ UNCHANGED <<state, nworkers, wpc>>
            /\ UNCHANGED <<work, sseen, scount, wseen, wagain>>

(* worker: for again { body: consume all work ; again = maybeFinish(false) } *)
WBody(w) == /\ wpc[w] = "body"
            /\ work' = 0
            /\ wpc' = [wpc EXCEPT ![w] = "mfload"]
            /\ UNCHANGED <<state, spc, sseen, scount, wseen, wagain, nworkers>>
MFLoad(w) == /\ wpc[w] = "mfload"
             /\ wseen' = [wseen EXCEPT ![w] = state]
             /\ wpc' = [wpc EXCEPT ![w] = IF state = Working THEN "mfcas"
                                           ELSE IF state = Continue THEN "mfstore" ELSE "exit"]
             /\ UNCHANGED <<state, work, spc, sseen, scount, wagain, nworkers>>
MFCas(w) == /\ wpc[w] = "mfcas"
            /\ IF state = Working
                 THEN state' = Unstarted /\ wpc' = [wpc EXCEPT ![w] = "none"]   \* finished
                 ELSE UNCHANGED state /\ wpc' = [wpc EXCEPT ![w] = "body"]      \* something slipped in: again
            /\ UNCHANGED <<work, spc, sseen, scount, wseen, wagain, nworkers>>
MFStore(w) == /\ wpc[w] = "mfstore"
              /\ state' = Working /\ wpc' = [wpc EXCEPT ![w] = "body"]
              /\ UNCHANGED <<work, spc, sseen, scount, wseen, wagain, nworkers>>
WExit(w) == /\ wpc[w] = "exit" /\ wpc' = [wpc EXCEPT ![w] = "none"]
            /\ UNCHANGED <<state, work, spc, sseen, scount, wseen, wagain, nworkers>>

Next == \/ \E s \in Sig : SigAdd(s) \/ MBLoad(s) \/ MBCas(s)
        \/ \E w \in W : WBody(w) \/ MFLoad(w) \/ MFCas(w) \/ MFStore(w) \/ WExit(w)
Spec == Init /\ [][Next]_vars /\ WF_vars(Next)

InLoop(w) == wpc[w] \in {"body", "mfload", "mfcas", "mfstore"}
AtMostOneWorker == Cardinality({w \in W : InLoop(w)}) <= 1
Quiescent == (\A s \in Sig : spc[s] = "idle") /\ (\A w \in W : wpc[w] = "none")
NoLostWakeup == Quiescent => work = 0
StateMatches == (state = Unstarted) <=> (\A w \in W : ~InLoop(w) \/ FALSE) \/ (\E w \in W : wpc[w] = "none")
Progress == <>[](work = 0 \/ ~Quiescent)
=============================================================================
