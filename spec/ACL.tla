------------------------------- MODULE ACL -------------------------------
(* Oracle for C34: Apache Kafka's authorizer decision, written from the     *)
(* StandardAuthorizer / Authorizer.authorizeByResourceType rules and the     *)
(* property statement, not from kfake's code.  TLC enumerates ACL sets over  *)
(* a small alphabet and writes, per set, every allowed (principal, host,     *)
(* resource, operation) query and every allowed any-resource query; the Go   *)
(* runner loads the same ACLs into kfake and compares every decision.        *)
EXTENDS Naturals, Sequences, FiniteSets, TLC, Json, Randomization, SequencesExt
CONSTANTS Mode,        \* "pairs" | "all2" | "triples" | "rand"
          NTriples, OutFile
Principals == {"User:alice", "User:bob"}
AclPrincipals == {"User:alice", "User:*"}
Hosts == {"h1", "h2"}
AclHosts == {"h1", "*"}
Names == {"a", "ab", "b", "abc", "c"}
Patterns == {[pt |-> "LITERAL", name |-> n] : n \in {"a", "ab", "b", "*"}} \cup {[pt |-> "PREFIXED", name |-> n] : n \in {"a", "ab"}}
Ops == {"READ", "WRITE", "DELETE", "DESCRIBE", "ALTER_CONFIGS", "DESCRIBE_CONFIGS"}
AnyOps == {"READ", "WRITE", "ALTER_CONFIGS"}   \* any-resource queries on operations without implication rules
AclOps == Ops \cup {"ALL"}
Perms == {"ALLOW", "DENY"}
AclUniverse == [principal : AclPrincipals, host : AclHosts, pat : Patterns, op : AclOps, perm : Perms]

IsPrefixStr(p, s) ==   \* strings are over this tiny alphabet: prefix relation by table (p = s included, as startsWith)
  \/ p = s
  \/ (p = "a" /\ s \in {"a", "ab", "abc"})
  \/ (p = "ab" /\ s \in {"ab", "abc"})
MatchRes(acl, name) == IF acl.pat.pt = "LITERAL" THEN acl.pat.name = name \/ acl.pat.name = "*"
                                                 ELSE IsPrefixStr(acl.pat.name, name)
MatchWho(acl, pr, h) == (acl.principal = pr \/ acl.principal = "User:*") /\ (acl.host = h \/ acl.host = "*")
\* ALLOW is implied for Describe by Read/Write/Delete/Alter and for DescribeConfigs by AlterConfigs; DENY is not implied
AllowOps(op) == IF op = "DESCRIBE" THEN {"DESCRIBE", "READ", "WRITE", "DELETE", "ALTER", "ALL"}
                ELSE IF op = "DESCRIBE_CONFIGS" THEN {"DESCRIBE_CONFIGS", "ALTER_CONFIGS", "ALL"}
                ELSE {op, "ALL"}
DenyOps(op) == {op, "ALL"}
Allowed(acls, pr, h, name, op) ==
  /\ ~ \E a \in acls : a.perm = "DENY" /\ MatchWho(a, pr, h) /\ MatchRes(a, name) /\ a.op \in DenyOps(op)
  /\ \E a \in acls : a.perm = "ALLOW" /\ MatchWho(a, pr, h) /\ MatchRes(a, name) /\ a.op \in AllowOps(op)
\* authorizeByResourceType (KIP-679): an ALLOW pattern counts only if no matching DENY pattern dominates it
AnyAllowed(acls, pr, h, op) ==
  LET m == {a \in acls : MatchWho(a, pr, h) /\ a.op \in {op, "ALL"}}
      denyLit == {a.pat.name : a \in {x \in m : x.perm = "DENY" /\ x.pat.pt = "LITERAL"}}
      denyPre == {a.pat.name : a \in {x \in m : x.perm = "DENY" /\ x.pat.pt = "PREFIXED"}}
      allowLit == {a.pat.name : a \in {x \in m : x.perm = "ALLOW" /\ x.pat.pt = "LITERAL"}}
      allowPre == {a.pat.name : a \in {x \in m : x.perm = "ALLOW" /\ x.pat.pt = "PREFIXED"}}
      Dominated(s) == \E d \in denyPre : IsPrefixStr(d, s)
  IN IF "*" \in denyLit THEN FALSE
     ELSE IF "*" \in allowLit THEN TRUE
     ELSE \/ \E s \in allowLit : s \notin denyLit /\ ~Dominated(s)
          \/ \E s \in allowPre : ~Dominated(s)

Decisions(acls) == [acls |-> SetToSeq(acls),
                    allowed |-> SetToSeq({<<pr, h, n, op>> \in Principals \X Hosts \X Names \X Ops : Allowed(acls, pr, h, n, op)}),
                    any |-> SetToSeq({<<pr, h, op>> \in Principals \X Hosts \X AnyOps : AnyAllowed(acls, pr, h, op)})]
Deny == {x \in AclUniverse : x.perm = "DENY"}
Allow == {x \in AclUniverse : x.perm = "ALLOW"}
Sets(u) == IF Mode = "pairs" THEN {{a} : a \in AclUniverse} \cup {{a, b} : a \in Deny, b \in Allow}
        ELSE IF Mode = "all2" THEN {s \in SUBSET AclUniverse : Cardinality(s) \in {1, 2}}
        ELSE IF Mode = "rand" THEN {s \in RandomSetOfSubsets(NTriples, 2, AclUniverse) \cup RandomSetOfSubsets(NTriples \div 2, 3, AclUniverse) : Cardinality(s) \in 1..4}
        ELSE {s \in RandomSetOfSubsets(NTriples, 3, AclUniverse) : Cardinality(s) \in 2..4}
Cases == SetToSeq({Decisions(s) : s \in Sets(0)})
ASSUME PrintT(<<"universe", Cardinality(AclUniverse), "cases", Len(Cases)>>)
ASSUME ndJsonSerialize(OutFile, Cases)
\* sanity anchors of the oracle itself (a wrong oracle is a spec bug, not a violation)
A(pr, h, pt, n, op, perm) == [principal |-> pr, host |-> h, pat |-> [pt |-> pt, name |-> n], op |-> op, perm |-> perm]
ASSUME Allowed({A("User:alice", "*", "LITERAL", "a", "WRITE", "ALLOW")}, "User:alice", "h1", "a", "DESCRIBE")
ASSUME ~Allowed({A("User:alice", "*", "LITERAL", "a", "WRITE", "ALLOW")}, "User:alice", "h1", "a", "READ")
ASSUME ~Allowed({A("User:*", "*", "LITERAL", "*", "ALL", "ALLOW"), A("User:alice", "h1", "PREFIXED", "ab", "ALL", "DENY")}, "User:alice", "h1", "ab", "READ")
ASSUME ~AnyAllowed({A("User:*", "*", "PREFIXED", "ab", "WRITE", "ALLOW"), A("User:*", "*", "PREFIXED", "a", "WRITE", "DENY")}, "User:bob", "h2", "WRITE")
ASSUME AnyAllowed({A("User:*", "*", "PREFIXED", "a", "WRITE", "ALLOW"), A("User:*", "*", "PREFIXED", "ab", "WRITE", "DENY")}, "User:bob", "h2", "WRITE")
VARIABLE x
Init == x = 0
Next == x' = x
=============================================================================
