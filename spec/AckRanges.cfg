INIT Init
NEXT Next
CONSTANTS MaxOff = 4 MaxEntries = 3 OutFile = "ack_cases.ndjson"
