SPECIFICATION Spec
CONSTANTS Depth = 4 Mode = "partitions"
INVARIANTS SelectedExist Emit
CHECK_DEADLOCK FALSE
