SPECIFICATION Spec
CONSTANTS NRec = 2  BlockRebalance = TRUE  StopFailsInflight = TRUE
INVARIANTS TypeOK NothingRunning PromisesCalled AtMostOnce
PROPERTIES CloseReturns EveryPromise
CHECK_DEADLOCK FALSE
