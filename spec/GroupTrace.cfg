SPECIFICATION Spec
CONSTANT TraceFile = "group_trace.ndjson"
INVARIANTS NoDoubleOwner Accepted Rejected
CHECK_DEADLOCK FALSE
