------------------------------ MODULE FetchTrace ------------------------------
(* Trace specification (binding V) for the direct consumer: C04 (every data    *)
(* record at or after the start position exactly once, in offset order, only    *)
(* control / aborted offsets skipped, across pause/resume, small PollRecords,   *)
(* session errors, leader moves, killed connections), C05 (read_committed never *)
(* exposes aborted or open transactions and eventually returns everything       *)
(* committed) and the fetch half of C14 (buffered/unbuffered hook pairing,       *)
(* gauges back to zero).  Ground truth comes from the producers in the same run  *)
(* (what was acknowledged at which offset, how each transaction ended).          *)
EXTENDS Integers, Sequences, FiniteSets, TLC, Json
CONSTANT TraceFile
TraceLog == ndJsonDeserialize(TraceFile)
VARIABLES l, rc, produced, outcome, last, returned, pausedT, pausedP, buf, traces
vars == <<l, rc, produced, outcome, last, returned, pausedT, pausedP, buf, traces>>
EmptyF == [x \in {} |-> 0]
Init == /\ l = 1 /\ rc = FALSE /\ produced = EmptyF /\ outcome = EmptyF /\ last = EmptyF /\ returned = {} /\ pausedT = {} /\ pausedP = {} /\ buf = EmptyF /\ traces = 0
Ev == TraceLog[l]
Put(f, k, v) == [x \in (DOMAIN f) \cup {k} |-> IF x = k THEN v ELSE f[x]]
Get(f, k) == IF k \in DOMAIN f THEN f[k] ELSE 0
\* a produced record is visible to this consumer when it is plain, or its transaction committed; read_uncommitted sees all data
Visible(id) == LET q == produced[id] IN ~rc \/ q.txn = 0 \/ (<<q.p, q.txn>> \in DOMAIN outcome /\ outcome[<<q.p, q.txn>>] = "committed")
Decided(id) == LET q == produced[id] IN q.txn = 0 \/ (<<q.p, q.txn>> \in DOMAIN outcome /\ outcome[<<q.p, q.txn>>] # "open")
Reason(r, prev, lst) ==
  IF r.id \notin DOMAIN produced THEN "consumer returned a record that no producer was acknowledged for"
  ELSE LET q == produced[r.id] IN
       IF q.topic # r.t \/ q.part # r.p \/ q.offset # r.o THEN "consumer returned a record with a different topic/partition/offset than it was produced at"
       ELSE IF r.o <= prev THEN "consumer returned a record twice or out of offset order"
       ELSE IF rc /\ ~Visible(r.id) THEN "read_committed consumer returned a record of an aborted or still-open transaction"
       ELSE IF r.t \in pausedT \/ <<r.t, r.p>> \in pausedP THEN "consumer returned a record of a paused partition"
       ELSE IF \E i \in DOMAIN produced : produced[i].topic = r.t /\ produced[i].part = r.p /\ produced[i].offset > prev /\ produced[i].offset < r.o
                                          /\ Decided(i) /\ Visible(i)
            THEN "consumer skipped a record (a later offset of the partition was returned first)"
       ELSE ""
RECURSIVE Scan(_, _, _)
Scan(recs, i, lst) == IF i > Len(recs) THEN [why |-> "", last |-> lst]
                      ELSE LET r == recs[i] key == <<r.t, r.p>> prev == IF key \in DOMAIN lst THEN lst[key] ELSE -1 why == Reason(r, prev, lst)
                           IN IF why # "" THEN [why |-> why, last |-> lst] ELSE Scan(recs, i + 1, Put(lst, key, r.o))
Missing == {i \in DOMAIN produced : Decided(i) /\ Visible(i) /\ i \notin returned}
Checks(e) ==
  CASE e.ev = "poll_ret" -> << <<Scan(e.recs, 1, last).why = "", Scan(e.recs, 1, last).why>> >>
    \* a record can be fetched again after a discard, and unbuffered hooks of a discard are dispatched asynchronously: the two
    \* bufferings may overlap in the trace; what must hold is one unbuffered per buffered, never more unbuffered than buffered
    [] e.ev = "fetch_unbuffered" -> << <<Get(buf, e.id) > 0, "OnFetchRecordUnbuffered for a record more often than OnFetchRecordBuffered">> >>
    [] e.ev = "drained" -> << <<Missing = {}, "consumer never returned a visible record (skipped)">>,
                              <<e.bufferedRecords = 0 /\ e.bufferedBytes = 0, "BufferedFetchRecords/Bytes not zero although nothing is buffered">> >>
    [] e.ev = "closed" -> << <<\A i \in DOMAIN buf : buf[i] = 0, "a record passed to OnFetchRecordBuffered was never passed to OnFetchRecordUnbuffered">>,
                             <<e.bufferedRecords = 0 /\ e.bufferedBytes = 0, "BufferedFetchRecords/Bytes not zero after Close">> >>
    [] e.ev = "driver_failed" -> << <<FALSE, "driver died (client goroutines blocked forever)">> >>
    [] OTHER -> <<>>
Ok(e) == \A i \in DOMAIN Checks(e) : Checks(e)[i][1]
Why(e) == LET C == Checks(e) bad == {i \in DOMAIN C : ~C[i][1]} IN IF bad = {} THEN "" ELSE C[CHOOSE i \in bad : \A j \in bad : i <= j][2]
Apply(e) ==
  CASE e.ev = "reset" -> /\ rc' = e.rc /\ produced' = EmptyF /\ outcome' = EmptyF /\ last' = EmptyF /\ returned' = {} /\ pausedT' = {} /\ pausedP' = {} /\ buf' = EmptyF /\ traces' = traces + 1
    [] e.ev = "produced" -> produced' = Put(produced, e.id, [topic |-> e.topic, part |-> e.part, offset |-> e.offset, p |-> e.p, txn |-> e.txn]) /\ UNCHANGED <<rc, outcome, last, returned, pausedT, pausedP, buf, traces>>
    [] e.ev = "txn_begin" -> outcome' = Put(outcome, <<e.p, e.txn>>, "open") /\ UNCHANGED <<rc, produced, last, returned, pausedT, pausedP, buf, traces>>
    [] e.ev = "txn_end" -> outcome' = Put(outcome, <<e.p, e.txn>>, IF e.committed THEN "committed" ELSE "aborted") /\ UNCHANGED <<rc, produced, last, returned, pausedT, pausedP, buf, traces>>
    [] e.ev = "poll_ret" -> /\ last' = Scan(e.recs, 1, last).last /\ returned' = returned \cup {e.recs[i].id : i \in DOMAIN e.recs}
                            /\ UNCHANGED <<rc, produced, outcome, pausedT, pausedP, buf, traces>>
    [] e.ev = "pause" -> /\ (IF e.part < 0 THEN pausedT' = pausedT \cup {e.topic} /\ UNCHANGED pausedP ELSE pausedP' = pausedP \cup {<<e.topic, e.part>>} /\ UNCHANGED pausedT)
                         /\ UNCHANGED <<rc, produced, outcome, last, returned, buf, traces>>
    [] e.ev = "resume" -> /\ (IF e.part < 0 THEN pausedT' = pausedT \ {e.topic} /\ UNCHANGED pausedP ELSE pausedP' = pausedP \ {<<e.topic, e.part>>} /\ UNCHANGED pausedT)
                          /\ UNCHANGED <<rc, produced, outcome, last, returned, buf, traces>>
    [] e.ev = "resume_all" -> pausedT' = {} /\ pausedP' = {} /\ UNCHANGED <<rc, produced, outcome, last, returned, buf, traces>>
    [] e.ev = "fetch_buffered" -> buf' = Put(buf, e.id, Get(buf, e.id) + 1) /\ UNCHANGED <<rc, produced, outcome, last, returned, pausedT, pausedP, traces>>
    [] e.ev = "fetch_unbuffered" -> buf' = Put(buf, e.id, Get(buf, e.id) - 1) /\ UNCHANGED <<rc, produced, outcome, last, returned, pausedT, pausedP, traces>>
    [] OTHER -> UNCHANGED <<rc, produced, outcome, last, returned, pausedT, pausedP, buf, traces>>
Next == l <= Len(TraceLog) /\ Ok(Ev) /\ Apply(Ev) /\ l' = l + 1
Spec == Init /\ [][Next]_vars
\* invariants of every validated state
ReturnedWereProduced == returned \subseteq DOMAIN produced
ReturnedVisible == rc => \A i \in returned : i \in DOMAIN produced => (produced[i].txn = 0 \/ <<produced[i].p, produced[i].txn>> \in DOMAIN outcome)
Accepted == (l = Len(TraceLog) + 1) => PrintT(<<"ACCEPTED", Len(TraceLog), traces>>)
Rejected == (l <= Len(TraceLog) /\ ~Ok(Ev)) => PrintT(<<"REJECTED-AT", l, Why(Ev), ToJson(Ev)>>)
=============================================================================
