SPECIFICATION Spec
CONSTANTS Depth = 4 Mode = "topics"
INVARIANTS SelectedExist Emit
CHECK_DEADLOCK FALSE
