------------------------------- MODULE KLog -------------------------------
(* A Kafka partition log as brokers and consumers see it (properties C06 and C32).                                 *)
(* The log is a sequence of batches; transactional producers open a transaction with their first batch and end it  *)
(* with a control batch (marker). Compaction removes records from batches but never changes offsets.               *)
(* Derived: high watermark, last stable offset, the aborted-transaction index, and Fetch(asked, iso): which        *)
(* batches a broker returns, which aborted transactions it lists, and what a correct consumer hands to the         *)
(* application (View) with the offset it asks for next (NextOff).                                                  *)
EXTENDS Integers, Sequences, FiniteSets, TLC, Json
CONSTANTS Pids,        \* transactional producer ids, e.g. {1, 2}
          MaxBatches,  \* bound on Len(log)
          MaxRecs,     \* records per data batch 1..MaxRecs
          MaxCompact,  \* number of compaction steps per history
          EmitAt       \* emit fetch cases for states with at least this many batches (case generation only)
VARIABLES log,         \* sequence of [base, n, present, pid, txn, ctrl]; ctrl \in {"none","commit","abort"}
          open,        \* pid -> first offset of its ongoing transaction, or -1
          aborted,     \* sequence of [pid, first, last]: the broker's aborted-transaction index, in marker order
          compactions,
          dupes        \* number of idempotent retries answered from the window (C32)
vars == <<log, open, aborted, compactions, dupes>>
Plain == 0             \* the non-transactional producer (pid -1 on the wire when not idempotent)
LEO == IF log = <<>> THEN 0 ELSE log[Len(log)].base + log[Len(log)].n
HW == LEO
Min(S) == CHOOSE x \in S : \A y \in S : x <= y
OpenFirsts == {open[p] : p \in {q \in Pids : open[q] >= 0}}
LSO == IF OpenFirsts = {} THEN HW ELSE Min(OpenFirsts)
Init == log = <<>> /\ open = [p \in Pids |-> -1] /\ aborted = <<>> /\ compactions = 0 /\ dupes = 0
Batch(pid, txn, n, ctrl) == [base |-> LEO, n |-> n, present |-> 0..(n - 1), pid |-> pid, txn |-> txn, ctrl |-> ctrl]
ProducePlain(n) == Len(log) < MaxBatches /\ log' = Append(log, Batch(Plain, FALSE, n, "none")) /\ UNCHANGED <<open, aborted, compactions, dupes>>
ProduceTxn(p, n) == Len(log) < MaxBatches /\ log' = Append(log, Batch(p, TRUE, n, "none"))
                    /\ open' = [open EXCEPT ![p] = IF open[p] = -1 THEN LEO ELSE open[p]] /\ UNCHANGED <<aborted, compactions, dupes>>
EndTxn(p, commit) == Len(log) < MaxBatches /\ open[p] >= 0
                    /\ log' = Append(log, Batch(p, TRUE, 1, IF commit THEN "commit" ELSE "abort"))
                    /\ aborted' = (IF commit THEN aborted ELSE Append(aborted, [pid |-> p, first |-> open[p], last |-> LEO]))
                    /\ open' = [open EXCEPT ![p] = -1] /\ UNCHANGED <<compactions, dupes>>
(* a transaction that is ended without any data (AddPartitionsToTxn, then EndTxn): the marker is written, nothing enters the aborted index *)
EmptyEnd(p, commit) == Len(log) < MaxBatches /\ open[p] = -1
                    /\ log' = Append(log, Batch(p, TRUE, 1, IF commit THEN "commit" ELSE "abort"))
                    /\ UNCHANGED <<open, aborted, compactions, dupes>>
(* compaction removes a non-empty set of records from a closed data batch (never from the last batch: the active segment) *)
Compact(i, gone) == compactions < MaxCompact /\ i < Len(log) /\ log[i].ctrl = "none" /\ gone # {} /\ gone \subseteq log[i].present
                    /\ (log[i].txn => open[log[i].pid] = -1 \/ open[log[i].pid] > log[i].base)   \* only records of ended transactions
                    /\ log' = [log EXCEPT ![i].present = @ \ gone] /\ compactions' = compactions + 1 /\ UNCHANGED <<open, aborted, dupes>>
(* a retried idempotent batch (same producer, same sequence) is answered with its original offset and not appended *)
RetryLast == log # <<>> /\ dupes < 1 /\ dupes' = dupes + 1 /\ UNCHANGED <<log, open, aborted, compactions>>
Next == \/ \E n \in 1..MaxRecs : ProducePlain(n) \/ \E p \in Pids : ProduceTxn(p, n)
        \/ \E p \in Pids, c \in BOOLEAN : EndTxn(p, c) \/ EmptyEnd(p, c)
        \/ \E i \in DOMAIN log : \E gone \in SUBSET log[i].present : Compact(i, gone)
Spec == Init /\ [][Next]_vars
(* ---------------- derived truth about transactions ---------------- *)
Last(b) == b.base + b.n - 1
(* the marker that ends the transaction data batch i belongs to: the first control batch of the same pid after i *)
MarkerOf(i) == LET later == {j \in DOMAIN log : j > i /\ log[j].pid = log[i].pid /\ log[j].ctrl # "none"} IN IF later = {} THEN 0 ELSE Min(later)
Fate(i) == IF ~log[i].txn THEN "commit" ELSE IF MarkerOf(i) = 0 THEN "open" ELSE log[MarkerOf(i)].ctrl
(* ---------------- what a broker returns ---------------- *)
Upper(iso) == IF iso = 1 THEN LSO ELSE HW
Returned(asked, iso) == {i \in DOMAIN log : Last(log[i]) >= asked /\ log[i].base < Upper(iso)}
(* with a byte limit the broker returns a non-empty prefix of Returned; k = number of batches *)
RetSeq(asked, iso, k) == LET R == Returned(asked, iso) lo == Min(R) IN [j \in 1..k |-> lo + j - 1]
AbortedListed(asked, iso, k) ==   \* aborted transactions overlapping the returned range; in no particular order
  IF iso = 0 \/ Returned(asked, iso) = {} THEN {}
  ELSE LET rs == RetSeq(asked, iso, k) up == Last(log[rs[k]]) + 1 IN
       {a \in {aborted[x] : x \in DOMAIN aborted} : a.last >= asked /\ a.first < up}
(* ---------------- what a correct consumer delivers ---------------- *)
Offsets(i) == {log[i].base + d : d \in log[i].present}
View(asked, iso, k) == IF Returned(asked, iso) = {} THEN {} ELSE
  LET rs == RetSeq(asked, iso, k) IN
  UNION {{o \in Offsets(rs[j]) : o >= asked} : j \in {x \in 1..k : log[rs[x]].ctrl = "none" /\ (iso = 1 => Fate(rs[x]) = "commit")}}
NextOff(asked, iso, k) == IF Returned(asked, iso) = {} THEN asked ELSE LET rs == RetSeq(asked, iso, k) IN Last(log[rs[k]]) + 1
(* ---------------- invariants (C32) ---------------- *)
Contiguous == \A i \in DOMAIN log : log[i].base = (IF i = 1 THEN 0 ELSE log[i - 1].base + log[i - 1].n)
LSOBound == LSO <= HW /\ \A p \in Pids : open[p] >= 0 => LSO <= open[p]
(* under read_committed nothing of an open or aborted transaction is ever delivered, everything committed below the LSO is *)
CommittedExactly == \A asked \in 0..LEO : Returned(asked, 1) # {} =>
  LET k == Cardinality(Returned(asked, 1)) IN
  View(asked, 1, k) = UNION {{o \in Offsets(i) : o >= asked} : i \in {x \in DOMAIN log : log[x].ctrl = "none" /\ Fate(x) = "commit" /\ log[x].base < LSO}}
AbortedIndexSound == \A x \in DOMAIN aborted : log[Len(log)].base >= aborted[x].last /\ aborted[x].first <= aborted[x].last
NeverPassesData == \A asked \in 0..LEO, iso \in {0, 1} : Returned(asked, iso) # {} => \A k \in 1..Cardinality(Returned(asked, iso)) :
  \A i \in DOMAIN log : \A o \in Offsets(i) : (o >= asked /\ o < NextOff(asked, iso, k) /\ log[i].ctrl = "none" /\ (iso = 1 => Fate(i) = "commit")) => o \in View(asked, iso, k)
(* ---------------- case emission (O1 generators for C06 / C32) ---------------- *)
SetToSeq(S) == LET RECURSIVE f(_) f(T) == IF T = {} THEN <<>> ELSE LET m == Min(T) IN <<m>> \o f(T \ {m}) IN f(S)
FetchCases == [asked \in 0..LEO |-> [iso \in {0, 1} |->
   IF Returned(asked, iso) = {} THEN <<>> ELSE
   [k \in 1..Cardinality(Returned(asked, iso)) |->
      [batches |-> RetSeq(asked, iso, k), aborted |-> SetToSeq({a.pid * 1000 + a.first : a \in AbortedListed(asked, iso, k)}),
       view |-> SetToSeq(View(asked, iso, k)), next |-> NextOff(asked, iso, k)]]]]
LogJson == [i \in DOMAIN log |-> [base |-> log[i].base, n |-> log[i].n, present |-> SetToSeq(log[i].present), pid |-> log[i].pid, txn |-> log[i].txn, ctrl |-> log[i].ctrl]]
Emit == (Len(log) >= EmitAt) => PrintT(<<"CASE", ToJson([log |-> LogJson, hw |-> HW, lso |-> LSO, fetch |-> FetchCases])>>)
=============================================================================
