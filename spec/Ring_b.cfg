SPECIFICATION Spec
CONSTANTS Pushers = {"p1", "p2", "p3"} PerPusher = 2 MaxLen = 2 MinCap = 2 Forcers = {"p3"} AllowDie = TRUE
INVARIANTS Fifo QueueIsUnprocessedSuffix OneWorkerAtATime ParkedOnlyWhileFull DeadRejects NoLossAtEnd
PROPERTY Termination
CHECK_DEADLOCK FALSE
