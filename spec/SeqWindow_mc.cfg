SPECIFICATION Spec
CONSTANTS SeqMod = 16  Win = 5  MaxN = 3  Depth = 7
INVARIANTS NextIsSum WindowChained WindowBounded LastIsNext
VIEW View
CHECK_DEADLOCK FALSE
