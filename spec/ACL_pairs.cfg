INIT Init
NEXT Next
CONSTANTS Mode = "pairs" NTriples = 0 OutFile = "acl_cases.ndjson"
