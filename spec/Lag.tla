-------------------------------- MODULE Lag --------------------------------
(* NB: TLC evaluates zero-arity constant definitions eagerly, so the big sets take a dummy argument. *)
(* Oracle for C35 (kadm CalculateGroupLag / ...WithStartOffsets), written     *)
(* from the property statement.  A case assigns to each of up to four          *)
(* partitions (t1/0, t1/1, t2/0, t2/1) who owns it, what the group committed,  *)
(* and what the end / start listings say.  Sentinels: -1 absent, -2 error.     *)
EXTENDS Integers, Sequences, FiniteSets, TLC, Json, Randomization, SequencesExt
CONSTANTS Mode, N, OutFile
Keys == {"t1/0", "t1/1", "t2/0", "t2/1"}
PState == [asg : {0, 1, 2},              \* 0 nobody, 1 member m1, 2 member m2
           commit : {-1, -2, 0, 3, 9},   \* -1 no commit entry, -2 commit entry with error, else committed offset
           end : {-1, -2, 0, 3, 7},      \* -1 missing from the listing, -2 listed with error
           start : {-1, -2, 0, 3}]
\* covered by the property: assigned to a member or committed by the group
Covered(s) == s.asg # 0 \/ s.commit # -1
HasErr(s) == s.end < 0 \/ s.commit = -2
Max0(x) == IF x < 0 THEN 0 ELSE x
ExpLag(s, withStart) ==
  IF HasErr(s) THEN -1
  ELSE IF s.commit >= 0 THEN Max0(s.end - s.commit)
  ELSE IF withStart /\ s.start >= 0 THEN Max0(s.end - s.start)
  ELSE s.end
Expect(c) == [k \in DOMAIN c |-> [covered |-> Covered(c[k]), err |-> HasErr(c[k]),
                                   lag |-> ExpLag(c[k], FALSE), lagStart |-> ExpLag(c[k], TRUE)]]
Case(c) == [in |-> c, exp |-> Expect(c)]
Interesting == {s \in PState : Covered(s)}
\* exhaustive: every state of one partition against every covered state of a second one (same topic, other topic)
Pairs(u) == UNION {{("t1/0" :> a) @@ (k :> b) : a \in PState, b \in Interesting} : k \in {"t1/1", "t2/0"}}
Rand(u) == {[k \in Keys |-> RandomElement(PState)] : i \in 1..N}
          \cup {[k \in {"t1/0", "t2/0", "t2/1"} |-> RandomElement(PState)] : i \in 1..(N \div 2)}
Cases == SetToSeq({Case(c) : c \in (IF Mode = "pairs" THEN Pairs(0) ELSE Rand(0))})
ASSUME PrintT(<<"cases", Len(Cases)>>)
ASSUME ndJsonSerialize(OutFile, Cases)
\* anchors for the oracle itself
ASSUME ExpLag([asg |-> 1, commit |-> -1, end |-> 7, start |-> 3], TRUE) = 4
ASSUME ExpLag([asg |-> 1, commit |-> -1, end |-> 7, start |-> 3], FALSE) = 7
ASSUME ExpLag([asg |-> 1, commit |-> 9, end |-> 7, start |-> 3], TRUE) = 0
ASSUME ExpLag([asg |-> 0, commit |-> -2, end |-> 7, start |-> 3], TRUE) = -1
VARIABLE x
Init == x = 0
Next == x' = x
=============================================================================
