----------------------------- MODULE Partitioner -----------------------------
(* C28.  Part 1 (oracle, binding O1): murmur2 over bit vectors / bytes (TLC   *)
(* integers are 32 bit), Kafka's (h & 0x7fffffff) % n and Sarama's signed      *)
(* remainder, evaluated on keys from byte and length classes.                  *)
(* Part 2 (state machines, binding V): the pinned-partition partitioners as    *)
(* nondeterministic state machines; recorded call traces of the real           *)
(* partitioners are validated against them (module PartitionerTrace).          *)
EXTENDS Integers, Sequences, FiniteSets, TLC, Json, SequencesExt
CONSTANT OutFile
RECURSIVE Pow2(_)
Pow2(n) == IF n = 0 THEN 1 ELSE 2 * Pow2(n - 1)
\* ---- 32-bit words as 4 bytes, little endian
Word(b0, b1, b2, b3) == <<b0, b1, b2, b3>>
Mul(a, b) == LET c0 == a[1] * b[1]
                 c1 == a[1] * b[2] + a[2] * b[1] + (c0 \div 256)
                 c2 == a[1] * b[3] + a[2] * b[2] + a[3] * b[1] + (c1 \div 256)
                 c3 == a[1] * b[4] + a[2] * b[3] + a[3] * b[2] + a[4] * b[1] + (c2 \div 256)
             IN <<c0 % 256, c1 % 256, c2 % 256, c3 % 256>>
BitsOf(w) == [i \in 1..32 |-> (w[((i - 1) \div 8) + 1] \div Pow2((i - 1) % 8)) % 2]
ByteAt(b, k) == LET lo == 8 * (k - 1) IN b[lo + 1] + 2 * b[lo + 2] + 4 * b[lo + 3] + 8 * b[lo + 4] + 16 * b[lo + 5] + 32 * b[lo + 6] + 64 * b[lo + 7] + 128 * b[lo + 8]
WordOf(bits) == <<ByteAt(bits, 1), ByteAt(bits, 2), ByteAt(bits, 3), ByteAt(bits, 4)>>
XorW(a, b) == LET x == BitsOf(a) y == BitsOf(b) IN WordOf([i \in 1..32 |-> (x[i] + y[i]) % 2])
ShrW(a, r) == LET x == BitsOf(a) IN WordOf([i \in 1..32 |-> IF i + r <= 32 THEN x[i + r] ELSE 0])
M == Word(149, 233, 209, 91)             \* 0x5bd1e995
SeedW == Word(140, 178, 71, 151)         \* 0x9747b28c
NatWord(n) == <<n % 256, (n \div 256) % 256, (n \div 65536) % 256, 0>>
RECURSIVE Body(_, _, _)
Body(h, key, i) == IF i + 3 > Len(key) THEN h
                   ELSE LET k0 == Mul(Word(key[i], key[i + 1], key[i + 2], key[i + 3]), M)
                            k1 == Mul(XorW(k0, ShrW(k0, 24)), M)
                        IN Body(XorW(Mul(h, M), k1), key, i + 4)
TailMix(h, key) == LET r == Len(key) % 4  b == Len(key) - r
                IN IF r = 0 THEN h
                   ELSE LET t == Word(key[b + 1], IF r >= 2 THEN key[b + 2] ELSE 0, IF r >= 3 THEN key[b + 3] ELSE 0, 0)
                        IN Mul(XorW(h, t), M)
Murmur2(key) == LET h0 == XorW(SeedW, NatWord(Len(key)))
                    h1 == TailMix(Body(h0, key, 1), key)
                    h2 == Mul(XorW(h1, ShrW(h1, 13)), M)
                IN XorW(h2, ShrW(h2, 15))
\* value of a bit vector modulo n without ever holding the value
RECURSIVE ModFrom(_, _, _, _)
ModFrom(bits, i, acc, n) == IF i = 0 THEN acc ELSE ModFrom(bits, i - 1, (acc * 2 + bits[i]) % n, n)
ModBits(bits, n) == ModFrom(bits, Len(bits), 0, n)
KafkaPick(h, n) == ModBits([i \in 1..32 |-> IF i = 32 THEN 0 ELSE BitsOf(h)[i]], n)
\* Sarama: int32(h) % int32(n), negated when negative  ==  |int32(h)| % n
Not(b) == [i \in 1..Len(b) |-> 1 - b[i]]
RECURSIVE IncFrom(_, _)
IncFrom(b, i) == IF i > Len(b) THEN b ELSE IF b[i] = 0 THEN [b EXCEPT ![i] = 1] ELSE IncFrom([b EXCEPT ![i] = 0], i + 1)
Abs32(bits) == IF bits[32] = 1 THEN IncFrom(Not(bits), 1) ELSE bits
SaramaPick(h, n) == ModBits(Abs32(BitsOf(h)), n)

Classes == {0, 97, 127, 128, 255}
RECURSIVE SeqsOver(_, _)
SeqsOver(S, n) == IF n = 0 THEN {<<>>} ELSE {Append(s, x) : s \in SeqsOver(S, n - 1), x \in S}
Keys(u) == UNION {SeqsOver(Classes, l) : l \in 0..4}
           \cup {[i \in 1..l |-> IF i % 2 = 0 THEN a ELSE b] : l \in 5..13, a \in Classes, b \in {97, 255}}
Ns == {1, 2, 3, 7, 8, 100, 65536}
HashVals == {Word(0, 0, 0, 0), Word(1, 0, 0, 0), Word(255, 255, 255, 127), Word(0, 0, 0, 128), Word(1, 0, 0, 128), Word(255, 255, 255, 255), Word(57, 48, 0, 128), Word(210, 4, 0, 192)}
KeyCases(u) == {LET h == Murmur2(k) IN [kind |-> "key", key |-> k, hash |-> h, picks |-> [n \in Ns |-> KafkaPick(h, n)]] : k \in Keys(0)}
SaramaCases(u) == {[kind |-> "sarama", hash |-> h, picks |-> [n \in Ns |-> SaramaPick(h, n)], kafka |-> [n \in Ns |-> KafkaPick(h, n)]] : h \in HashVals}
Str(s) == s
Cases == SetToSeq(KeyCases(0)) \o SetToSeq(SaramaCases(0))
ASSUME PrintT(<<"cases", Len(Cases)>>)
ASSUME ndJsonSerialize(OutFile, Cases)
\* anchors: Kafka's UtilsTest.testMurmur2 golden vectors ("21" -> 0xC5F2F8EC, "foobar" -> 0xD0E47BBE, "abc" -> 479470107 = 0x1C94221B)
ASSUME Murmur2(<<50, 49>>) = Word(236, 248, 242, 197)
ASSUME Murmur2(<<102, 111, 111, 98, 97, 114>>) = Word(190, 123, 228, 208)
ASSUME Murmur2(<<97, 98, 99>>) = Word(27, 34, 148, 28)
ASSUME KafkaPick(Murmur2(<<97, 98, 99>>), 7) = 479470107 % 7
VARIABLE x
Init == x = 0
Next == x' = x
=============================================================================
