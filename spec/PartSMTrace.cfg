SPECIFICATION TraceSpec
CONSTANTS Kinds = {"sticky"} MaxN = 12 Limit = 40 Sizes = {2} TraceFile = "part_trace.ndjson"
INVARIANTS InRange Accepted Stuck
CHECK_DEADLOCK FALSE
