INIT Init
NEXT Next
CONSTANTS Mode = "rand" NTriples = 2500 OutFile = "acl_cases.ndjson"
