INIT Init
NEXT Next
CONSTANTS L = 4 CM = 3 OutFile = "neg_cases.ndjson"
