---------------------------- MODULE PollGate ----------------------------
(* Prototype of the BlockRebalanceOnPoll gate in pkg/kgo/consumer.go:     *)
(* waitAndAddPoller / unaddPoller / allowRebalance /                      *)
(* waitAndAddRebalanceMaybeSignal / unaddRebalance. One action per        *)
(* critical section under pollWaitMu; cond.Wait splits an action.         *)
EXTENDS Naturals, FiniteSets, TLC
CONSTANTS Pollers, Rebalancers, Rounds, AllowMisuse
VARIABLES lo, hi,           \* low 32 bits: pollers; high 32 bits: waiting/active rebalances
          ppc, prounds,     \* poller: "idle" | "parked" | "holding" (returned records, not yet allowed)
          rpc, rrounds,     \* rebalancer: "idle" | "parked" | "in" (inside revoke)
          woken,            \* threads woken by Broadcast that must re-check
          misused           \* AllowRebalance was called while another poll was in flight (contract violation)
vars == <<lo, hi, ppc, prounds, rpc, rrounds, woken, misused>>
Init == /\ lo = 0 /\ hi = 0 /\ woken = {} /\ misused = FALSE
        /\ ppc = [p \in Pollers |-> "idle"] /\ prounds = [p \in Pollers |-> 0]
        /\ rpc = [r \in Rebalancers |-> "idle"] /\ rrounds = [r \in Rebalancers |-> 0]
Parked == {p \in Pollers : ppc[p] = "parked"} \cup {r \in Rebalancers : rpc[r] = "parked"}
Broadcast == woken' = woken \cup Parked

\* waitAndAddPoller: if lo = 0, wait while hi # 0; then lo++
PollEnter(p) == /\ ppc[p] = "idle" /\ prounds[p] < Rounds
                /\ IF lo = 0 /\ hi # 0
                     THEN ppc' = [ppc EXCEPT ![p] = "parked"] /\ UNCHANGED <<lo, prounds>>
                     ELSE /\ lo' = lo + 1 /\ ppc' = [ppc EXCEPT ![p] = "added"] /\ UNCHANGED prounds
                /\ UNCHANGED <<hi, rpc, rrounds, woken, misused>>
PollRecheck(p) == /\ ppc[p] = "parked" /\ p \in woken /\ woken' = woken \ {p}
                  /\ IF hi # 0 THEN UNCHANGED <<lo, ppc>>            \* inner loop only re-tests hi
                               ELSE lo' = lo + 1 /\ ppc' = [ppc EXCEPT ![p] = "added"]
                  /\ UNCHANGED <<hi, prounds, rpc, rrounds, misused>>
\* fill(): returns records (stay counted until AllowRebalance) or nothing (unaddPoller)
PollReturnRecords(p) == /\ ppc[p] = "added" /\ ppc' = [ppc EXCEPT ![p] = "holding"]
                        /\ prounds' = [prounds EXCEPT ![p] = @ + 1]
                        /\ UNCHANGED <<lo, hi, rpc, rrounds, woken, misused>>
PollReturnEmpty(p) == /\ ppc[p] = "added"                      \* unaddPoller: guarded decrement + Broadcast
                      /\ lo' = IF lo > 0 THEN lo - 1 ELSE lo
                      /\ ppc' = [ppc EXCEPT ![p] = "idle"] /\ prounds' = [prounds EXCEPT ![p] = @ + 1]
                      /\ Broadcast /\ UNCHANGED <<hi, rpc, rrounds, misused>>
\* AllowRebalance: the application says all its pollers are done
Allow == /\ \E p \in Pollers : ppc[p] = "holding"
         /\ \A p \in Pollers : ppc[p] # "added"                \* contract: no poll in flight
         /\ lo' = 0 /\ ppc' = [p \in Pollers |-> IF ppc[p] = "holding" THEN "idle" ELSE ppc[p]]
         /\ Broadcast /\ UNCHANGED <<hi, prounds, rpc, rrounds, misused>>
\* the documented misuse: AllowRebalance while another goroutine's poll is still in flight. The in-flight poll keeps
\* running; its later release must not borrow from the rebalance count (guarded decrement).
AllowMis == /\ AllowMisuse /\ \E p \in Pollers : ppc[p] = "added"
            /\ lo' = 0 /\ ppc' = [p \in Pollers |-> IF ppc[p] = "holding" THEN "idle" ELSE ppc[p]]
            /\ misused' = TRUE
            /\ Broadcast /\ UNCHANGED <<hi, prounds, rpc, rrounds>>
\* waitAndAddRebalance: hi++ ; wait while lo # 0
RebEnter(r) == /\ rpc[r] = "idle" /\ rrounds[r] < Rounds
               /\ hi' = hi + 1
               /\ rpc' = [rpc EXCEPT ![r] = IF lo # 0 THEN "parked" ELSE "in"]
               /\ UNCHANGED <<lo, ppc, prounds, rrounds, woken, misused>>
RebRecheck(r) == /\ rpc[r] = "parked" /\ r \in woken /\ woken' = woken \ {r}
                 /\ rpc' = [rpc EXCEPT ![r] = IF lo # 0 THEN "parked" ELSE "in"]
                 /\ UNCHANGED <<lo, hi, ppc, prounds, rrounds, misused>>
RebExit(r) == /\ rpc[r] = "in" /\ hi' = hi - 1                 \* unaddRebalance + Broadcast
              /\ rpc' = [rpc EXCEPT ![r] = "idle"] /\ rrounds' = [rrounds EXCEPT ![r] = @ + 1]
              /\ Broadcast /\ UNCHANGED <<lo, ppc, prounds, misused>>
Next == \/ \E p \in Pollers : PollEnter(p) \/ PollRecheck(p) \/ PollReturnRecords(p) \/ PollReturnEmpty(p)
        \/ Allow \/ AllowMis
        \/ \E r \in Rebalancers : RebEnter(r) \/ RebRecheck(r) \/ RebExit(r)
Spec == Init /\ [][Next]_vars /\ WF_vars(Next)

RevokeExcludesPolls == misused \/ ((\E r \in Rebalancers : rpc[r] = "in") => (\A p \in Pollers : ppc[p] \notin {"added", "holding"}))
CountsExact == /\ misused \/ lo = Cardinality({p \in Pollers : ppc[p] \in {"added", "holding"}})
               /\ hi = Cardinality({r \in Rebalancers : rpc[r] \in {"parked", "in"}})
Finished == (\A p \in Pollers : prounds[p] = Rounds /\ ppc[p] = "idle") /\ (\A r \in Rebalancers : rrounds[r] = Rounds)
\* no lost wake-up: a parked thread whose wait condition is false has a wake-up pending
NoLostWakeup == /\ \A p \in Pollers : (ppc[p] = "parked" /\ hi = 0) => p \in woken
                /\ \A r \in Rebalancers : (rpc[r] = "parked" /\ lo = 0) => r \in woken
NoBorrow == lo >= 0 /\ hi >= 0 /\ hi = Cardinality({r \in Rebalancers : rpc[r] \in {"parked", "in"}})
NoDeadlock == Finished \/ ENABLED Next
Live == <>Finished
=============================================================================
