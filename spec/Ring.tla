------------------------------ MODULE Ring ------------------------------
(* Prototype of pkg/kgo/ring.go with its spawn-on-first-push worker.     *)
(* Grain: one action per critical section under r.mu; cond.Wait splits   *)
(* a push into PushPark / PushResume.                                    *)
EXTENDS Naturals, Sequences, FiniteSets, TLC
CONSTANTS Pushers, PerPusher, MaxLen, MinCap, Forcers, AllowDie
None == 0

VARIABLES elems, head, l, cap, dead,
          parked,       \* pushers waiting on cond
          signalled,    \* parked pushers that were woken and must re-check
          ppc, pelem, pcount,  \* pusher pc, element being pushed, pushes completed
          worker,       \* "none" | "work" (processing head) | "drop" (about to dropPeek)
          cur,          \* element the worker currently holds
          nextId, accepted, processed, rejected, spawned
vars == <<elems, head, l, cap, dead, parked, signalled, ppc, pelem, pcount, worker, cur,
          nextId, accepted, processed, rejected, spawned>>

Slots == 0..(8*MinCap - 1)
Init == /\ elems = [i \in Slots |-> None] /\ head = 0 /\ l = 0 /\ cap = 0 /\ dead = FALSE
        /\ parked = {} /\ signalled = {}
        /\ ppc = [p \in Pushers |-> "idle"] /\ pelem = [p \in Pushers |-> None] /\ pcount = [p \in Pushers |-> 0]
        /\ worker = "none" /\ cur = None /\ nextId = 1
        /\ accepted = <<>> /\ processed = <<>> /\ rejected = {} /\ spawned = 0

Max(a,b) == IF a > b THEN a ELSE b
\* resize(newCap): copy in linear order, head := 0 (two-segment copy written out)
Resized(newCap) ==
  [i \in Slots |-> IF i < l THEN elems[(head + i) % cap] ELSE None]

Full == MaxLen > 0 /\ l >= MaxLen
DoAppend(p, e) ==
  LET grow   == l = cap
      ncap   == IF grow THEN Max(cap * 2, MinCap) ELSE cap
      base   == IF grow /\ cap > 0 THEN Resized(ncap) ELSE elems
      nhead  == IF grow THEN 0 ELSE head
      pos    == (nhead + l) % ncap
  IN /\ elems' = [base EXCEPT ![pos] = e]
     /\ head' = nhead /\ cap' = ncap /\ l' = l + 1
     /\ accepted' = Append(accepted, e)
     /\ IF l = 0                                  \* first == (l' = 1): spawn the worker
          THEN worker' = "work" /\ cur' = e /\ spawned' = spawned + 1
          ELSE UNCHANGED <<worker, cur, spawned>>

PushStart(p) ==                                   \* enter doPush
  /\ ppc[p] = "idle" /\ pcount[p] < PerPusher
  /\ nextId' = nextId + 1
  /\ IF (p \notin Forcers) /\ Full /\ ~dead
       THEN /\ parked' = parked \cup {p} /\ ppc' = [ppc EXCEPT ![p] = "parked"] /\ pelem' = [pelem EXCEPT ![p] = nextId]
            /\ UNCHANGED <<elems, head, l, cap, accepted, worker, cur, spawned, rejected, pcount>>
       ELSE IF dead
         THEN /\ rejected' = rejected \cup {nextId} /\ pcount' = [pcount EXCEPT ![p] = @ + 1]
              /\ UNCHANGED <<elems, head, l, cap, accepted, worker, cur, spawned, parked, ppc, pelem>>
         ELSE /\ DoAppend(p, nextId) /\ pcount' = [pcount EXCEPT ![p] = @ + 1]
              /\ UNCHANGED <<parked, ppc, pelem, rejected>>
  /\ UNCHANGED <<dead, signalled, processed>>

PushResume(p) ==                                  \* woken from cond.Wait, re-check loop condition
  /\ p \in signalled /\ ppc[p] = "parked"
  /\ signalled' = signalled \ {p}
  /\ LET e == pelem[p] IN
     IF Full /\ ~dead
       THEN /\ parked' = parked \cup {p}
            /\ UNCHANGED <<elems, head, l, cap, accepted, worker, cur, spawned, rejected, pcount, ppc>>
       ELSE IF dead
         THEN /\ rejected' = rejected \cup {e} /\ pcount' = [pcount EXCEPT ![p] = @ + 1]
              /\ ppc' = [ppc EXCEPT ![p] = "idle"]
              /\ UNCHANGED <<elems, head, l, cap, accepted, worker, cur, spawned, parked>>
         ELSE /\ DoAppend(p, e) /\ pcount' = [pcount EXCEPT ![p] = @ + 1]
              /\ ppc' = [ppc EXCEPT ![p] = "idle"] /\ UNCHANGED <<parked, rejected>>
  /\ UNCHANGED <<dead, nextId, processed, pelem>>

Work ==                                           \* the worker runs the user callback on cur
  /\ worker = "work"
  /\ processed' = Append(processed, cur) /\ worker' = "drop"
  /\ UNCHANGED <<elems, head, l, cap, dead, parked, signalled, ppc, pelem, pcount, cur, nextId, accepted, rejected, spawned>>

DropPeek ==
  /\ worker = "drop"
  /\ LET nh == (head + 1) % cap
         nl == l - 1
         cleared == [elems EXCEPT ![head] = None]
         shrink == nl <= MinCap \div 2 /\ cap > MinCap
         afterE == IF shrink THEN [i \in Slots |-> IF i < nl THEN cleared[(nh + i) % cap] ELSE None] ELSE cleared
         afterH == IF shrink THEN 0 ELSE nh
         afterC == IF shrink THEN MinCap ELSE cap
     IN /\ elems' = afterE /\ head' = afterH /\ cap' = afterC /\ l' = nl
        /\ IF nl > 0 THEN worker' = "work" /\ cur' = afterE[afterH]
                     ELSE worker' = "none" /\ cur' = None
  /\ \/ parked = {} /\ UNCHANGED <<parked, signalled>>      \* cond.Signal: wake one waiter (any)
     \/ \E p \in parked : parked' = parked \ {p} /\ signalled' = signalled \cup {p}
  /\ UNCHANGED <<dead, ppc, pelem, pcount, nextId, accepted, processed, rejected, spawned>>

Die == /\ AllowDie /\ ~dead /\ dead' = TRUE
       /\ signalled' = signalled \cup parked /\ parked' = {}  \* Broadcast
       /\ UNCHANGED <<elems, head, l, cap, ppc, pelem, pcount, worker, cur, nextId, accepted, processed, rejected, spawned>>

Next == (\E p \in Pushers : PushStart(p) \/ PushResume(p)) \/ Work \/ DropPeek \/ Die
Spec == Init /\ [][Next]_vars /\ WF_vars(Work) /\ WF_vars(DropPeek) /\ \A p \in Pushers : (WF_vars(PushResume(p)) /\ WF_vars(PushStart(p)))

Contents == [i \in 1..l |-> elems[(head + (i-1)) % cap]]
IsPrefix(s, t) == Len(s) <= Len(t) /\ \A i \in 1..Len(s) : s[i] = t[i]
Fifo == IsPrefix(processed, accepted)
QueueIsUnprocessedSuffix ==
  LET done == Len(processed) - (IF worker = "drop" THEN 1 ELSE 0)
  IN Contents = SubSeq(accepted, done + 1, Len(accepted))
OneWorkerAtATime == (worker = "none") <=> (l = 0)
ParkedOnlyWhileFull == parked # {} => (~dead /\ MaxLen > 0 /\ l + Cardinality(signalled) >= MaxLen)
DeadRejects == \A e \in rejected : \A i \in 1..Len(accepted) : accepted[i] # e
Done == (\A p \in Pushers : pcount[p] = PerPusher)
NoLossAtEnd == (Done /\ worker = "none") => processed = accepted
Termination == <>(Done /\ worker = "none")
=============================================================================
