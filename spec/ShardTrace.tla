------------------------------- MODULE ShardTrace -------------------------------
(* Trace specification (binding V) for C23. One scenario = reset(requested), shard*, sharded_done, merged.        *)
(* The accounting of Shard.tla is replayed on the recorded shards:                                                  *)
(*   every shard's items are requested items not yet accounted for (NeverTwice);                                    *)
(*   a shard with a response carries exactly the items of its own sub-request, each once;                           *)
(*   at sharded_done every requested item has been accounted for (ExactlyOnce);                                     *)
(*   the merged response of Request holds no item twice and nothing that was not requested, and, when Request       *)
(*   returned no error, every requested item.                                                                         *)
EXTENDS Integers, Sequences, FiniteSets, TLC, Json
CONSTANT TraceFile
TraceLog == ndJsonDeserialize(TraceFile)
VARIABLES l, requested, seen, traces
vars == <<l, requested, seen, traces>>
Init == l = 1 /\ requested = {} /\ seen = {} /\ traces = 0
Ev == TraceLog[l]
SeqSet(s) == {s[i] : i \in DOMAIN s}
NoDup(s) == \A i, j \in DOMAIN s : i # j => s[i] # s[j]
Checks(e) ==
  CASE e.ev = "shard" -> << <<NoDup(e.req), "an item appears twice in one shard's request">>,
                            <<SeqSet(e.req) \subseteq requested, "a shard carries an item that was not requested">>,
                            <<SeqSet(e.req) \cap seen = {}, "a requested item is accounted for in two shards">>,
                            <<e.hasresp => (NoDup(e.resp) /\ SeqSet(e.resp) = SeqSet(e.req)), "a shard's response does not hold exactly the items of its request">>,
                            <<(~e.hasresp) => e.err # "", "a shard has neither a response nor an error">> >>
    [] e.ev = "sharded_done" -> << <<seen = requested, "a requested item is in no shard">> >>
    [] e.ev = "merged" -> << <<NoDup(e.items), "the merged response holds an item twice">>,
                             <<e.broadcast \/ SeqSet(e.items) \subseteq requested, "the merged response holds an item that was not requested">>,
                             <<(e.err = "" /\ ~e.broadcast) => SeqSet(e.items) = requested, "the merged response misses a requested item although Request returned no error">>,
                             <<e.err = "" => e.hasresp, "Request returned neither response nor error">> >>
    [] e.ev = "driver_failed" -> << <<FALSE, "driver died">> >>
    [] OTHER -> <<>>
Ok(e) == \A i \in DOMAIN Checks(e) : Checks(e)[i][1]
Why(e) == LET C == Checks(e) bad == {i \in DOMAIN C : ~C[i][1]} IN IF bad = {} THEN "" ELSE C[CHOOSE i \in bad : \A j \in bad : i <= j][2]
Apply(e) ==
  CASE e.ev = "reset" -> requested' = SeqSet(e.requested) /\ seen' = {} /\ traces' = traces + 1
    [] e.ev = "shard" -> seen' = seen \cup SeqSet(e.req) /\ UNCHANGED <<requested, traces>>
    [] OTHER -> UNCHANGED <<requested, seen, traces>>
Next == l <= Len(TraceLog) /\ Ok(Ev) /\ Apply(Ev) /\ l' = l + 1
Spec == Init /\ [][Next]_vars
Accepted == (l = Len(TraceLog) + 1) => PrintT(<<"ACCEPTED", Len(TraceLog), traces>>)
Rejected == (l <= Len(TraceLog) /\ ~Ok(Ev)) => PrintT(<<"REJECTED-AT", l, Why(Ev), ToJson(Ev)>>)
=============================================================================
