"""One entry per claimed property; bin/mkmanifest turns this into MANIFEST.json."""
CHECKS = {
 "C29": dict(
    level="model_checking", design="5/C29, 4.8",
    technique="TLA+ spec SeqWindow.tla model-checked by TLC; TLC-generated behaviours replayed on real kgo/kfake (binding R)",
    text="SeqWindow.tla models the per-(producer,partition) sequence window with the modulus as a constant (16 standing for 2^31). TLC checks its invariants exhaustively, then emits every behaviour to depth 2-3 plus simulated depth-9 behaviours; each is replayed step by step on kgo's incrementSequence, on kfake's pidwindow and on a running kfake cluster through raw idempotent ProduceRequests at the real 2^31 boundary, comparing accept/duplicate(original offset)/OUT_OF_ORDER/fenced with the spec.",
    note="kfake stands in for Kafka; the scaled modulus is mapped so the model's wrap is the real wrap; large-n arithmetic is additionally checked on boundary classes with 64-bit arithmetic in the harness."),
}

NOT_APPLICABLE = {
 "C15": "Encode/decode fidelity of ~200 generated straight-line codec types against an independent interpreter of the definition DSL: no state machine to specify; a TLA+ model would be a second schema interpreter with unverified correctness (DESIGN.md section 6).",
 "C16": "Quantifies over all byte strings for every decoder (no panic, bounded memory): a fuzzing/memory-safety question with no transition system; not decidable by model checking (DESIGN.md section 6).",
 "C19": "Round-trip fidelity and bomb limits of third-party compression codecs over arbitrary bytes: numeric per-input behaviour with no protocol state (DESIGN.md section 6).",
}
