"""One entry per claimed property; bin/mkmanifest turns this into MANIFEST.json."""
CHECKS = {
 "C29": dict(
    level="model_checking", design="5/C29, 4.8",
    technique="TLA+ spec SeqWindow.tla model-checked by TLC; TLC-generated behaviours replayed on real kgo/kfake (binding R)",
    text="SeqWindow.tla models the per-(producer,partition) sequence window with the modulus as a constant (16 standing for 2^31). TLC checks its invariants exhaustively, then emits every behaviour to depth 2-3 plus simulated depth-9 behaviours; each is replayed step by step on kgo's incrementSequence, on kfake's pidwindow and on a running kfake cluster through raw idempotent ProduceRequests at the real 2^31 boundary, comparing accept/duplicate(original offset)/OUT_OF_ORDER/fenced with the spec.",
    note="kfake stands in for Kafka; the scaled modulus is mapped so the model's wrap is the real wrap; large-n arithmetic is additionally checked on boundary classes with 64-bit arithmetic in the harness."),
 "C34": dict(
    level="exploration", design="5/C34, 4.13",
    technique="TLA+ oracle ACL.tla evaluated by TLC over enumerated ACL sets; decisions compared with kfake (binding O1), sample replayed end-to-end",
    text="ACL.tla states Kafka's authorizer decision (DENY first, implied Describe/DescribeConfigs, literal/wildcard/prefixed, User:*, host *, authorizeByResourceType with DENY dominance). TLC enumerates ACL sets over a 336-entry universe (thorough: all singletons, all DENYxALLOW pairs, 30k random sets of 2-4) and computes every decision; the runner loads each set into kfake's ACL store and compares all 132 decisions per set, and replays a sample through SASL users, CreateACLs, Metadata authorized-operations and InitProducerID, including the superuser bypass.",
    note="Small alphabet (5 resource names, prefix relation by table); the oracle is a transcription of Kafka's rules anchored by ASSUMEd decisions; any-resource queries only on operations without implication rules."),
 "C35": dict(
    level="exploration", design="5/C35, 4.13",
    technique="TLA+ oracle Lag.tla evaluated by TLC over enumerated group/commit/listing situations; compared with kadm (binding O1)",
    text="Lag.tla defines the lag of a partition from (owner, commit, end listing, start listing) exactly as the property states. TLC enumerates cases (thorough: every state of one partition against every covered state of a second partition in the same and in another topic, 168k cases, plus random 3-4 partition cases) and prints expected lag and error flag; the runner builds DescribedGroup/OffsetResponses/ListedOffsets and compares CalculateGroupLag, CalculateGroupLagWithStartOffsets, Lookup/Sorted uniqueness, Total and TotalByTopic.",
    note="Offsets from {0,3,7,9}; at most 2 members and 4 partitions; listed-only partitions are outside the property and not asserted."),
 "C36": dict(
    level="exploration", design="5/C36, 4.13",
    technique="TLA+ oracle SerdeHdr.tla: TLC computes wire bytes and verdicts over structural classes; compared with pkg/sr (binding O1)",
    text="SerdeHdr.tla defines the Confluent header bytes (magic 0, big-endian id, index with single-zero shortcut, zig-zag varints) and the decoder verdicts. TLC generates ~2300 cases: exact Encode bytes for boundary ids x all index paths up to depth 3; DecodeID/UpdateID on short and wrong-magic inputs; DecodeIndex over declared-count classes (negative, zero shortcut, exceeding maxLength, exceeding the input, 2^62, overflowing, truncated) x indices present x maxLength; Serde.Decode/DecodeNew/Encode round trips against a fixed registry with unregistered ids/paths and truncations; panics are caught and reported.",
    note="'Arbitrary bytes never panic' is decided for these structural classes only; unbounded byte strings are outside the technique (DESIGN.md section 6)."),
 "C38": dict(
    level="exploration", design="5/C38, 4.13",
    technique="TLA+ oracle Fetches.tla evaluated by TLC on generated Fetches shapes; all accessors compared (binding O1)",
    text="Fetches.tla defines the canonical record sequence, partition multiset, per-topic merge (with topic id) and error list of an abstract Fetches value. TLC generates thousands of shapes (multi-fetch, repeated topics with and without ids, empty pieces, errors mixed with records) with the expected outputs; the runner builds the kgo.Fetches and compares RecordIter, RecordsAll (incl. early break), EachRecord, Records, NumRecords, Empty, EachPartition, EachTopic, Errors and EachError.",
    note="Shapes are sampled by TLC's RandomElement (seeded), not enumerated exhaustively; topics are distinct within one fetch as in broker responses."),
 "C37": dict(
    level="model_checking", design="5/C37",
    technique="TLA+ spec Carrier.tla model-checked by TLC (map-update action property); all behaviours replayed on kotel.RecordCarrier (binding R) + end-to-end propagation run",
    text="Carrier.tla models the header list with Set/Get/Keys and checks, as an action property, that Set is exactly a map update on the first-value-per-key view. TLC emits every behaviour (all initial lists incl. duplicate keys x all operation sequences to the bound); each is replayed on the real carrier comparing the whole header list after every step. The injected-then-extracted clause is run through kgo+kfake with the real kotel hooks and W3C propagator.",
    note="Alphabet 3 keys x 2 values, lists <=3, 3-4 operations; the end-to-end clause samples 12 records over one kfake broker."),
 "C24": dict(
    level="exploration", design="5/C24",
    technique="TLA+ predicates (Tables.tla) evaluated by TLC over an exhaustive dump of the public tables (binding O2)",
    text="The runner dumps kerr.ErrorForCode/TypedErrorForCode for all 65536 int16 codes, kmsg.RequestForKey/ResponseForKey/NameForKey (key, min/max version, type names, ResponseKind) for all 65536 int16 keys, and every named kversion release (32 named, Stable, Tip, VersionStrings) per key with the codec's maximum. Tables.tla states the three consistency predicates (code maps to itself on the contiguous Kafka range, 0 to nil, others to UNKNOWN_SERVER_ERROR; request/response agree on key, name, versions; no release exceeds the codec) and TLC evaluates them on every row.",
    note="Finite data invariant, exhaustive over the int16 domains; the Kafka code range is read off the table (contiguity enforced, lower bounds guard against vacuity)."),
 "C17": dict(
    level="exploration", design="5/C17",
    technique="TLA+ oracle Wire.tla over bit vectors evaluated by TLC; encodings/decoder verdicts compared with pkg/kbin (binding O1)",
    text="Wire.tla defines zig-zag, base-128 groups, big-endian bytes and the decoder (value, bytes consumed, short, overflow) over bit vectors, because TLC integers are 32-bit. TLC computes ~29k cases: encodings of every boundary value of every 7-bit group for 8/16/32/64 bits, decoder verdicts for every control-byte structure up to 5/10 continuation bytes, and length prefixes around the varint borders and null; the runner compares every Append*/length/decoder/Reader method, checks short inputs never panic or over-read, and checks the private copy in pkg/kmsg/internal/kbin is the same source.",
    note="Class coverage instead of 'every 32-bit value'; overlong means longer than the maximal 5/10-byte form (non-minimal shorter forms are accepted by Kafka and by the code)."),
 "C25": dict(
    level="exploration", design="5/C25, 4.13",
    technique="TLA+ predicates (Balancer.tla: ValidPlan, CoopWithheldOnlyMoving) evaluated by TLC on plans the real balancers produce for spec-generated group situations (binding O2)",
    text="Balancer.tla generates group situations (members, subscriptions incl. unknown topics, generations, prior ownership from valid previous plans to conflicting stale claims, racks, subscription chains) and states the acceptance predicates. The runner feeds each situation to RangeBalancer, RoundRobinBalancer, StickyBalancer, CooperativeStickyBalancer (public MemberBalancer/BalanceOrError/IntoSyncAssignment path, rack map via a verif shim) and to kfake's uniform and range assignors (through computeTargetAssignment); TLC evaluates ValidPlan on every (input, plan).",
    note="Sampled (seeded hash) rather than exhaustive: 3000 situations quick, 40000 thorough, <=5 members, <=4 topics x <=4 partitions; kfake assignors are fed only server-consistent prior targets."),
 "C26": dict(
    level="exploration", design="5/C26, 4.13",
    technique="TLA+ predicates (Balancer.tla: NoStealPath via graph reachability, StickyFixedPoint) evaluated by TLC on real sticky plans (binding O2)",
    text="For every sticky and (complete) cooperative-sticky plan of the generated situations TLC evaluates NoStealPath: no member can reach, over edges 'holds a partition of a topic the other subscribes to', a member holding at least two fewer partitions; and StickyFixedPoint: a valid prior without steal path is returned unchanged. The generator includes chain-shaped subscriptions with permuted member ids and up-down-up load profiles, where the steal search must pass through a less loaded member.",
    note="Sampled; chains up to 5 members; optimality is judged by the property's own chain criterion, not by comparing with another implementation."),
 "C27": dict(
    level="model_checking", design="5/C27, 4.9",
    technique="TLA+ spec Coop.tla model-checked by TLC (protocol design) + the real CooperativeStickyBalancer iterated round by round and judged by Balancer.tla (CoopSafe, Converges) (binding R/O2)",
    text="Coop.tla (members, any valid leader plan, AdjustCooperative, revoke-then-rejoin) is checked exhaustively for NoDoubleOwner, AllOwnedOnce, TwoRounds and convergence. The real balancer is then run for three rounds per generated situation, members revoking what they lost and rejoining with a bumped generation; TLC evaluates CoopSafe on every round (no partition given to a member while another member with a current-generation claim owns it) and Converges on every chain (round 2 complete, round 3 unchanged).",
    note="Round iteration applies the member-side rule in the harness (owned := adjusted plan); the end-to-end callback order is C07's subject. Known finding: with rack information a third round can be needed."),
 "C28": dict(
    level="model_checking", design="5/C28, 4.13",
    technique="TLA+ murmur2/placement oracle (Partitioner.tla) evaluated by TLC (O1) + state-machine spec PartSM.tla model-checked and used to validate recorded call traces of the real partitioners (V)",
    text="Partitioner.tla implements murmur2 over byte tuples (32-bit-safe schoolbook multiplication, xor/shift over bit vectors), Kafka's sign-masked modulo and Sarama's signed remainder via bitwise modular reduction; it is anchored on Kafka's golden vectors and evaluated on ~870 keys x 7 partition counts and on boundary hashes, compared with the default key partitioner, UniformBytes(keys), KafkaHasher and SaramaCompatHasher (equal keys twice). PartSM.tla models sticky, round-robin, least-backup and uniform-bytes as pinned-partition state machines with shrinking/growing n; InRange is model-checked, and every operation sequence to depth 5-6 is run on the real partitioners and validated event by event (a pick outside [0,n) rejects the trace).",
    note="Random choices inside the partitioners are left nondeterministic in the spec; in-range departures from the pinning rule are counted as drift, not violations (0 on the current tree)."),
 "C30": dict(
    level="model_checking", design="5/C30, 4.1, 4.2",
    technique="TLA+ specs Ring.tla / WorkLoop.tla / WLHard.tla model-checked by TLC; every edge of the state graphs replayed on the current ring.go / atomic_maybe_work.go under a deterministic scheduler (binding R)",
    text="Ring.tla (one action per critical section, cond.Wait split into park/resume, Signal waking a nondeterministically chosen waiter, growth/shrink, die) and WorkLoop.tla (one action per atomic Load/CAS/Store) are checked exhaustively for FIFO, no loss/duplication, at most one worker, parked-only-while-full, dead-rejects, no lost wake-up and termination. The TLC state graph is dumped, walks covering every edge (plus random walks) are exported, and each is executed on the CURRENT source files copied with sync/xsync/atomic rewritten to harness/ctl, where every primitive operation is a scheduler step and the replayer picks the thread and the waiter a Signal wakes; after each step the real state (length, contents, parked/woken pushers, worker, processed/accepted/rejected; latch word, pending work, thread positions) is compared with the spec state, and two live workers or stranded work are flagged directly.",
    note="Bounds: up to 4 pushers / 3 signallers, 1-3 operations each, maxLen 0-2, minRingCap scaled to 2 so growth/shrink are reached; the extractor exits 2 if a file no longer matches; the transient hardFinish user in source.go is covered at design level only (WLHard.tla)."),
 "C31": dict(
    level="model_checking", design="5/C31, 4.3",
    technique="TLA+ specs PollGate.tla / XMutex.tla model-checked by TLC (exclusion, counters, no lost wake-up, no deadlock, liveness); every edge of the state graphs replayed on the current sources under a deterministic scheduler (binding R)",
    text="PollGate.tla models the BlockRebalanceOnPoll gate (one action per critical section under pollWaitMu, cond.Wait split, Broadcast, the guarded decrement, AllowRebalance, and the documented misuse as a named environment action); XMutex.tla models the channel-based RWMutex at the grain of single channel operations. TLC checks RevokeExcludesPolls, CountsExact, NoBorrow, NoLostWakeup, WriterAlone, NoPanic, NoDeadlock and liveness exhaustively; the state graphs are dumped and every edge (plus random walks) is executed on the poll-gate methods copied from consumer.go and on synctest_mutex.go with channel operations rewritten to controlled channels, comparing counters, parked/woken threads, channel contents, reader count and thread positions after each step, and checking exclusion on the real run; the plain Mutex is explored by direct enumeration of all schedules.",
    note="Bounds: 2 pollers x 2 rebalancers x 2 rounds; 2 writers, 2 readers, 1 try-locker, 1-2 rounds. The end-to-end BlockRebalanceOnPoll behaviour in a running group consumer is not part of this check."),
 "C01": dict(
    level="model_checking", design="5/C01, 4.4",
    technique="TLA+ design spec Admit.tla model-checked by TLC (safety + liveness of admission/cancel/Flush/promise protocol); traces of the real kgo client under seeded fault scenarios validated event by event against ProdTrace.tla (binding V)",
    text="Admit.tla (one action per critical section of p.mu, explicit Wait/Broadcast) is checked exhaustively incl. AllPromised and FlushReturns. The D-PROD driver runs hundreds to thousands of seeded scenarios on kgo+kfake inside a synctest bubble (virtual time, quiescence between steps): Produce/TryProduce/ProduceSync on existing, unknown and missing topics, context cancels, Flush, AbortBufferedRecords, purge, slow promises and partitioners, responses dropped after the broker handled the request, killed connections, retriable/fatal codes, stalls, and always Close (sometimes racing in-flight calls). Every call, return, hook, promise and every admission/finish under p.mu is recorded and TLC validates each trace against ProdTrace.tla: promise at most once and only for produced records, every record promised by quiescence (also after Close), gauges zero, no Flush or call left blocked.",
    note="Schedules are those the Go runtime produces for each scenario (virtual time makes them deterministic per seed); kfake stands in for Kafka; a driver that deadlocks is reported as a hang of the last scenario."),
 "C03": dict(
    level="model_checking", design="5/C03, 4.4",
    technique="TLA+ design spec Admit.tla model-checked by TLC (all interleavings of blocked Produce, cancel, Flush, broadcasts: Bound, GaugeExact, FlushSound, FlushReturns) + real-client traces validated against ProdTrace.tla (binding V)",
    text="The admission protocol is checked exhaustively at design level for 3 records (2 cancellable), MaxRecs=1, one Flush, incl. the liveness properties that fail without the post-cancel broadcast. On the real client, verif hooks inside p.mu log bufferedRecords/blocked at admit, block, unblock and finish; ProdTrace.tla keeps its own counters, requires every logged value to equal them, rejects an admission beyond MaxBufferedRecords/MaxBufferedBytes, a block while there is room, ErrMaxBuffered for an accepted record, and a nil Flush return before every record whose Produce had returned (and was accepted) before Flush began was promised; at quiescence nothing may stay blocked.",
    note="Gate-replay of every TLC interleaving on the real client (DESIGN.md 3.4-2) is not built; the real-code binding is trace validation over seeded scenarios. Pre-buffer failures are outside the Flush clause (DESIGN.md Appendix A)."),
}

NOT_APPLICABLE = {
 "C15": "Encode/decode fidelity of ~200 generated straight-line codec types against an independent interpreter of the definition DSL: no state machine to specify; a TLA+ model would be a second schema interpreter with unverified correctness (DESIGN.md section 6).",
 "C16": "Quantifies over all byte strings for every decoder (no panic, bounded memory): a fuzzing/memory-safety question with no transition system; not decidable by model checking (DESIGN.md section 6).",
 "C19": "Round-trip fidelity and bomb limits of third-party compression codecs over arbitrary bytes: numeric per-input behaviour with no protocol state (DESIGN.md section 6).",
}
