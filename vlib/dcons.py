"""D-CONS pipeline shared by C04, C05, C14 (fetch half) and C39."""
import json, os
from vlib import core, tracev

REASONS = {
    "C05": ["read_committed consumer returned a record of an aborted"],
    "C14": ["OnFetchRecordBuffered", "OnFetchRecordUnbuffered", "BufferedFetchRecords/Bytes not zero"],
    "C39": ["paused partition", "not selected"],
}


def owner(why, rc):
    for p, pats in REASONS.items():
        if any(x in why for x in pats):
            return p
    if rc and ("never returned a visible record" in why or "skipped" in why):
        return "C04+C05"
    return "C04"


def run(ctx, prop, n=None):
    if prop == "C04":
        # design model of the cursor: partial takes, buffer discard and epoch validation on leader change; mutant = stale epoch
        ctx.design("FetchCursor", "FetchCursor.cfg", workers=4, timeout=600, tag="cursor_design")
        m = ctx.tlc("FetchCursor", "FetchCursor_mut.cfg", workers=4, timeout=600, tag="cursor_mutant", allow_fail=True)
        ctx.notes["design_mutant_stale_epoch_after_partial_take_rejected"] = bool(m.violated)
    n = n or (450 if ctx.tier == "quick" else 3000)
    out = os.path.join(ctx.work, "fetch_trace_raw.ndjson")
    if os.path.exists(out):
        os.remove(out)
    env = {"VERIF_OUT": out, "VERIF_N": n}
    if ctx.replay:
        sc = json.load(open(ctx.replay))["replay"]["scenario"]
        scf = os.path.join(ctx.work, "scenario.ndjson")
        core.write_ndjson(scf, [sc])
        env["VERIF_SCENARIOS"] = scf
    rc, o = ctx.go_test("./dcons/", run="TestScenarios", env=env, tags="verif,synctests", timeout=600)
    rows = core.read_ndjson(out) if os.path.exists(out) else []
    stats = [r for r in ctx.go_results(o) if r.get("kind") == "stat"]
    if not stats and not rows:
        raise core.Infra("consumer driver produced no events:\n" + o[-3000:])
    if not stats:
        rows.append({"ev": "driver_failed", "seq": 0, "output": o[-1500:]})
    accepted, rej = tracev.validate(ctx, "FetchTrace", "FetchTrace.cfg", "fetch_trace.ndjson", rows, "fetchtrace")
    for s, line, why, ev in rej:
        isrc = bool(s and s[0].get("rc"))
        p = owner(why, isrc)
        if prop not in p.split("+") and not (prop == "C04" and p not in ("C05", "C14", "C39")):
            continue
        sc = json.loads(s[0]["scenario"]) if s and "scenario" in s[0] else None
        ctx.violation("consumer: " + why, "%s (event %d of the scenario: %s)" % (why, line, json.dumps(ev)[:500]), {"scenario": sc, "trace_prefix": [e for e in s[:line] if not e["ev"].startswith("fetch_")][-40:]})
    scen = tracev.split_scenarios(rows)
    ctx.cov["traces_validated_against_impl"] = accepted + len(rej)
    ctx.cov["evaluations"] = len(rows)
    ctx.notes["scenarios_rejected_any_property"] = len(rej)
    ctx.notes["rejection_reasons_any_property"] = sorted({why for _, _, why, _ in rej})
    cnt = {}
    for r in rows:
        cnt[r["ev"]] = cnt.get(r["ev"], 0) + 1
    ctx.notes["event_counts"] = cnt
    ctx.cov["distinct_nontrivial"] = sum(1 for s in scen if any(e["ev"] in ("fault", "pause") or (e["ev"] == "txn_end") for e in s))
    ctx.cov["rule"] = ("seeded scenarios on kgo+kfake (2 brokers, 2 topics x 2 partitions) in a synctest bubble: plain and two transactional producers with interleaved open transactions that commit or abort,"
                       " PollFetches and PollRecords(1..3), topic/partition pause and resume, fetch connections killed, fetch-session errors, retriable partition errors, stalls, leader moves, small FetchMaxPartitionBytes,"
                       " topic-list / regex / explicit-partition consumers, read_committed and read_uncommitted; the producers' acknowledgements and transaction outcomes are the ground truth;"
                       " every event validated against FetchTrace.tla. non-trivial = scenario with faults, pauses or transactions")
    if scen:
        ctx.sample([{k: v for k, v in e.items() if k != "scenario"} for e in scen[0] if not e["ev"].startswith("fetch_")][:25])
    return rows
