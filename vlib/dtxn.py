"""D-TXN pipeline shared by C11 (mode txn) and C10 (mode eos)."""
import json, os
from vlib import core, tracev


def run(ctx, prop, n=None):
    mode = "eos" if prop == "C10" else "txn"
    n = n or ((400 if mode == "txn" else 60) if ctx.tier == "quick" else (4000 if mode == "txn" else 600))
    out = os.path.join(ctx.work, "txn_trace_raw.ndjson")
    if os.path.exists(out):
        os.remove(out)
    env = {"VERIF_OUT": out, "VERIF_N": n, "VERIF_MODE": mode}
    if ctx.replay:
        sc = json.load(open(ctx.replay))["replay"]["scenario"]
        scf = os.path.join(ctx.work, "scenario.ndjson")
        core.write_ndjson(scf, [sc])
        env["VERIF_SCENARIOS"] = scf
    rc, o = ctx.go_test("./dtxn/", run="TestScenarios", env=env, tags="verif,synctests", timeout=900)
    rows = core.read_ndjson(out) if os.path.exists(out) else []
    stats = [r for r in ctx.go_results(o) if r.get("kind") == "stat"]
    if not stats and not rows:
        raise core.Infra("txn driver produced no events:\n" + o[-3000:])
    if not stats:
        rows.append({"ev": "driver_failed", "seq": 0, "output": o[-1500:]})
    accepted, rej = tracev.validate(ctx, "TxnTrace", "TxnTrace.cfg", "txn_trace.ndjson", rows, "txntrace")
    for s, line, why, ev in rej:
        sc = json.loads(s[0]["scenario"]) if s and "scenario" in s[0] else None
        ctx.violation("txn: " + why, "%s (event %d of the scenario: %s)" % (why, line, json.dumps(ev)[:500]), {"scenario": sc, "trace_prefix": s[:line][-80:]})
    scen = tracev.split_scenarios(rows)
    ctx.cov["traces_validated_against_impl"] = accepted + len(rej)
    ctx.cov["evaluations"] = len(rows)
    cnt = {}
    for r in rows:
        cnt[r["ev"]] = cnt.get(r["ev"], 0) + 1
    ctx.notes["event_counts"] = cnt
    ctx.notes["rejection_reasons_any_property"] = sorted({why for _, _, why, _ in rej})
    ctx.cov["distinct_nontrivial"] = sum(1 for s in scen if any(e["ev"] == "fault" for e in s))
    if mode == "txn":
        ctx.cov["rule"] = ("seeded transaction histories: 3-5 transactions of 0-3 records ending with commit or abort, each with up to 2 faults placed on Produce / EndTxn / InitProducerID / AddPartitionsToTxn"
                           " (response lost after the broker handled the request, connection killed before handling, retriable code, CONCURRENT_TRANSACTIONS, once or twice), the application retrying End as TryAbort after a failure,"
                           " in a third of the runs producing one more record before that retry; a final clean committed transaction; read_committed reader at the end; validated against TxnTrace.tla. non-trivial = history with a fault")
    else:
        ctx.cov["rule"] = ("seeded GroupTransactSession pipelines (cooperative, range, KIP-848): 1-3 members consume 'in' (3 partitions), produce one record to 'out' per input inside a transaction and End(TryCommit);"
                           " members join and stop, input keeps arriving, faults on Produce / EndTxn / TxnOffsetCommit / AddOffsetsToTxn; after draining the read_committed view of 'out' must contain every input id exactly once. non-trivial = pipeline with a fault")
    if scen:
        ctx.sample([{k: v for k, v in e.items() if k != "scenario"} for e in scen[0]][:25])
    return rows
