"""D-TXN pipeline shared by C11 (mode txn) and C10 (mode eos)."""
import hashlib, json, os, re
from vlib import core, tracev


def spec_scenarios(ctx):
    """Txn.tla: design model (with and without the per-transaction epoch bump), its rejected mutant, the two-fault boundary, and every
    finished application history of the driver-shaped configuration as a D-TXN scenario with what the specification says End reports."""
    ctx.design("Txn", "Txn_bump.cfg", timeout=900, tag="txn_bump")
    ctx.design("Txn", "Txn_nobump.cfg", timeout=900, tag="txn_nobump")
    m = ctx.tlc("Txn", "Txn_mut.cfg", workers=4, timeout=600, tag="txn_mut", allow_fail=True)
    ctx.notes["design_mutant_failed_producer_id_not_reloaded_rejected"] = "is violated" in m.out
    m = ctx.tlc("Txn", "Txn_mut2.cfg", workers=4, timeout=600, tag="txn_mut2", allow_fail=True)
    ctx.notes["design_mutant_no_abort_after_attempted_produces_rejected"] = "is violated" in m.out
    m = ctx.tlc("Txn", "Txn_twofaults.cfg", workers=4, timeout=600, tag="txn_two", allow_fail=True)
    ctx.notes["design_two_faults_on_one_EndTxn_unknowable_outcome_shown"] = "AbortMeansNever is violated" in m.out
    out = []
    for cfg, old in (("Txn_bump_gen.cfg", False), ("Txn_nobump_gen.cfg", True)):
        r = ctx.tlc("Txn", cfg, workers=1, timeout=900, tag=cfg[:-4])
        seen = set()
        for mm in re.finditer(r'<<\s*"SCN",\s*(".*?")\s*>>', r.out, re.S):
            h = json.loads(json.loads(re.sub(r"\n\s*", "", mm.group(1))))
            txns, cur = [], None
            for e in h["hist"]:
                if e["op"] == "begin":
                    cur = {"n": 0, "commit": True, "faults": [], "produceGap": False, "kinds": []}
                    txns.append(cur)
                elif e["op"] == "produce" and e["ok"]:
                    cur["n"] += 1
                    cur["kinds"].append("ok")
                elif e["op"] == "produce" and e.get("ghost"):
                    cur["n"] += 1
                    cur["kinds"].append("ghost")   # appended by the broker, reported as failed to the client
                elif e["op"] == "produce":
                    cur["produceGap"] = True
                elif e["op"] == "end":
                    cur["commit"] = e["commit"]
                elif e["op"] == "lose":
                    cur["faults"].append({"key": "endtxn", "kind": "dropresp", "n": 1})
                elif e["op"] == "refuse":
                    cur["faults"].append({"key": "endtxn", "kind": "fatal", "n": 1})
            sc = {"seed": 0, "mode": "txn", "old": old, "txns": txns, "expect": {"report": h["report"], "visible": sorted(h["visible"])}}
            k = json.dumps(sc, sort_keys=True)
            if k not in seen:
                seen.add(k)
                out.append(sc)
    if not out:
        raise core.Infra("Txn.tla exported no scenarios")
    if ctx.tier == "quick":
        out = [s for i, s in enumerate(out) if int(hashlib.sha1(b"%d/%d" % (ctx.seed, i)).hexdigest(), 16) % 4 == 0]
    return out


def drive(ctx, env, tag):
    rc, o = ctx.go_test("./dtxn/", run="TestScenarios", env=env, tags="verif,synctests", timeout=900)
    rows = core.read_ndjson(env["VERIF_OUT"]) if os.path.exists(env["VERIF_OUT"]) else []
    stats = [r for r in ctx.go_results(o) if r.get("kind") == "stat"]
    if not stats and not rows:
        raise core.Infra("txn driver (%s) produced no events:\n%s" % (tag, o[-3000:]))
    if not stats:
        rows.append({"ev": "driver_failed", "seq": 0, "output": o[-1500:]})
    return rows


def run(ctx, prop, n=None):
    mode = "eos" if prop == "C10" else "txn"
    n = n or ((400 if mode == "txn" else 100) if ctx.tier == "quick" else (4000 if mode == "txn" else 600))
    out = os.path.join(ctx.work, "txn_trace_raw.ndjson")
    if os.path.exists(out):
        os.remove(out)
    env = {"VERIF_OUT": out, "VERIF_N": n, "VERIF_MODE": mode}
    if ctx.replay:
        sc = json.load(open(ctx.replay))["replay"]["scenario"]
        scf = os.path.join(ctx.work, "scenario.ndjson")
        core.write_ndjson(scf, [sc])
        env["VERIF_SCENARIOS"] = scf
    rows = drive(ctx, env, "seeded")
    nspec = 0
    if mode == "eos" and not ctx.replay:
        # design model of the consume-transform-produce loop under rebalances, with the "no rewind of kept partitions" mutant
        ctx.design("Eos", "Eos_coop.cfg", timeout=1200, tag="eos_coop")
        if ctx.tier == "thorough":
            ctx.design("Eos", "Eos_eager.cfg", timeout=1500, tag="eos_eager")
        m = ctx.tlc("Eos", "Eos_mut.cfg", workers=4, timeout=600, tag="eos_mut", allow_fail=True)
        ctx.notes["design_mutant_abort_without_rewind_of_kept_partitions_rejected"] = "NoLoss is violated" in m.out
    if mode == "txn" and not ctx.replay:
        # scenarios exported from the design model, with the outcome the model predicts (binding R on top of V)
        scs = spec_scenarios(ctx)
        scf = os.path.join(ctx.work, "spec_scenarios.ndjson")
        core.write_ndjson(scf, scs)
        out2 = os.path.join(ctx.work, "txn_trace_spec.ndjson")
        if os.path.exists(out2):
            os.remove(out2)
        rows2 = drive(ctx, {"VERIF_OUT": out2, "VERIF_MODE": mode, "VERIF_SCENARIOS": scf, "VERIF_N": len(scs)}, "spec")
        for s in tracev.split_scenarios(rows2):
            if not s or "scenario" not in s[0]:
                continue
            sc = json.loads(s[0]["scenario"])
            exp = sc.get("expect")
            if not exp or any(e["ev"] == "driver_failed" for e in s):
                continue
            nspec += 1
            got = [e["outcome"] for e in s if e["ev"] == "txn_outcome"]
            vis = [e["ids"] for e in s if e["ev"] == "visible"]
            if got != exp["report"]:
                ctx.violation("txn: EndTransaction reports differ from the specification", "EndTransaction reported %s for the transactions of the scenario, Txn.tla says %s (transactions: %s)"
                              % (got, exp["report"], json.dumps(sc["txns"])), {"scenario": sc, "trace_prefix": s[-80:]})
            elif vis and sorted(vis[-1]) != exp["visible"]:
                ctx.violation("txn: visible records differ from the specification", "read_committed sees records %s, Txn.tla says %s (transactions: %s)"
                              % (sorted(vis[-1]), exp["visible"], json.dumps(sc["txns"])), {"scenario": sc, "trace_prefix": s[-80:]})
        ctx.notes["spec_scenarios_replayed"] = nspec
        rows = rows + rows2
    accepted, rej = tracev.validate(ctx, "TxnTrace", "TxnTrace.cfg", "txn_trace.ndjson", rows, "txntrace")
    for s, line, why, ev in rej:
        sc = json.loads(s[0]["scenario"]) if s and "scenario" in s[0] else None
        ctx.violation("txn: " + why, "%s (event %d of the scenario: %s)" % (why, line, json.dumps(ev)[:500]), {"scenario": sc, "trace_prefix": s[:line][-80:]})
    scen = tracev.split_scenarios(rows)
    ctx.cov["traces_validated_against_impl"] = accepted + len(rej)
    ctx.cov["evaluations"] = len(rows)
    cnt = {}
    for r in rows:
        cnt[r["ev"]] = cnt.get(r["ev"], 0) + 1
    ctx.notes["event_counts"] = cnt
    ctx.notes["rejection_reasons_any_property"] = sorted({why for _, _, why, _ in rej})
    ctx.cov["distinct_nontrivial"] = sum(1 for s in scen if any(e["ev"] == "fault" for e in s))
    if mode == "txn":
        ctx.cov["rule"] = ("seeded transaction histories: 3-5 transactions of 0-3 records ending with commit or abort, each with up to 2 faults placed on Produce / EndTxn / InitProducerID / AddPartitionsToTxn"
                           " (response lost after the broker handled the request, connection killed before handling, retriable code, CONCURRENT_TRANSACTIONS, once or twice), the application retrying End as TryAbort after a failure,"
                           " in a third of the runs producing one more record before that retry; a final clean committed transaction; read_committed reader at the end; validated against TxnTrace.tla."
                           " Plus %d application histories exported from the design model Txn.tla (3 transactions, <=3 records, <=2 EndTxn faults: answer lost after the marker was written / fatal code without handling,"
                           " brokers with and without the KIP-890 epoch bump) run on the same driver, what EndTransaction reports and what read_committed sees compared with the model. non-trivial = history with a fault" % nspec)
    else:
        ctx.cov["rule"] = ("seeded GroupTransactSession pipelines (cooperative, range, KIP-848): 1-3 members consume 'in' (3 partitions), produce one record to 'out' per input inside a transaction and End(TryCommit);"
                           " members join and stop, input keeps arriving, faults on Produce / EndTxn / TxnOffsetCommit / AddOffsetsToTxn; after draining the read_committed view of 'out' must contain every input id exactly once. non-trivial = pipeline with a fault")
    if scen:
        ctx.sample([{k: v for k, v in e.items() if k != "scenario"} for e in scen[0]][:25])
    return rows
