"""C08 — GroupTrace.tla (binding V over D-GROUP)."""
from vlib import dgroup
LEVEL = "model_checking"


def run(ctx):
    dgroup.run(ctx, "C08")
