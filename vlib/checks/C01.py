"""C01 every produced record's promise runs exactly once — Admit.tla (design) + ProdTrace.tla (binding V over D-PROD)."""
from vlib import dprod
LEVEL = "model_checking"


def run(ctx):
    dprod.run(ctx, "C01")
