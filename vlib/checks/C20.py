"""C20 formatter/reader round trip — Formatter.tla as layout generator and contract (binding O1)."""
from vlib import core, oracle
LEVEL = "exploration"


def run(ctx):
    cfg = "Formatter.cfg" if ctx.tier == "quick" else "Formatter3.cfg"
    env = {"VERIF_STRIDE": 1 if ctx.tier == "quick" else 4}
    cases, stats, _ = oracle.run_o1(ctx, "Formatter", [cfg], "fmt_cases.ndjson", "./c20/", gorun="TestOracle", env=env, key=lambda v: v["key"], timeout=2400)
    st = stats[0]
    ctx.cov["evaluations"] = st["evaluations"]
    ctx.cov["distinct_nontrivial"] = st["nontrivial"]
    ctx.cov["exhaustive"] = ctx.tier == "quick"
    ctx.cov["rule"] = ("Formatter.tla: every layout of %s over text fields (topic/key/value: size in a number format, data plain / hex / base64), number fields (partition, offset, leader epoch, timestamp, producer id, producer epoch)"
                       " and the header field, number formats %s; for each layout streams of 0-3 records x 3 value variants from adversarial classes (empty, %%{}\\\\n, digits, NUL/0xff bytes, newlines, invalid UTF-8, 300 bytes; numbers 0, 1, width maximum,"
                       " -1 and a pre-1970 timestamp in 64-bit formats) are written by RecordFormatter and read back by RecordReader: every mentioned field equal, io.EOF exactly at the end, no clean EOF for a stream cut inside a record."
                       " non-trivial = more than one field or an encoded text field" % (("1-2 distinct fields", "ascii, hex64/32/8, big64/32/16, little64/16, byte") if ctx.tier == "quick" else ("1-3 distinct fields (every fourth by seed)", "ascii, hex64, big32, little64, byte")))
    ctx.notes["runner"] = st
    ctx.sample(cases[10]); ctx.sample(cases[len(cases) // 2])
    ctx.assumptions += ["the read-back oracle is identity; the specification's contribution is the exhaustive layout grammar and the EOF rule", "json / regex text options and delimiter-only (unsized) layouts are outside the property's size-prefixed grammar"]
