"""C11 — TxnTrace.tla (binding V over D-TXN)."""
from vlib import dtxn
LEVEL = "fault_enumeration"


def run(ctx):
    dtxn.run(ctx, "C11")
