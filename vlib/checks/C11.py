"""C11 — TxnTrace.tla (binding V over D-TXN)."""
from vlib import dtxn
LEVEL = "model_checking"


def run(ctx):
    dtxn.run(ctx, "C11")
