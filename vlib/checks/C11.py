"""C11 — Txn.tla (design + exported histories, binding R) and TxnTrace.tla (binding V) over D-TXN."""
from vlib import dtxn
LEVEL = "model_checking"


def run(ctx):
    dtxn.run(ctx, "C11")
