"""C39 partition selection — Select.tla behaviours replayed on a real direct consumer (binding R)."""
import json, os, random, re
from vlib import core
LEVEL = "model_checking"


def run(ctx):
    inp = os.path.join(ctx.work, "select_cases.ndjson")
    if ctx.replay:
        rows = [json.load(open(ctx.replay))["replay"]["case"]]
    else:
        rows = []
        per = {"topics": 220, "partitions": 160, "regex": 40} if ctx.tier == "quick" else {"topics": 6000, "partitions": 4000, "regex": 400}
        rnd = random.Random(ctx.seed)
        for mode in ("topics", "partitions", "regex"):
            r = ctx.design("Select", "Select_%s.cfg" % mode, workers=1, timeout=900, tag="select_" + mode, heap="8g")
            cs = [json.loads(json.loads(m.group(1))) for m in re.finditer(r'^<<"CASE", (".*")>>$', r.out, re.M)]
            if not cs:
                raise core.Infra("Select.tla generated no behaviours for mode %s" % mode)
            ctx.notes.setdefault("behaviours_generated", {})[mode] = len(cs)
            # always keep the behaviours that remove and re-add, the rest sampled by seed
            rnd.shuffle(cs)

            def readd(c):
                seen = set()
                for st in c["steps"]:
                    if st["op"] in ("removeparts", "purge"):
                        seen.add(st["topic"])
                    elif st["op"] in ("addpart", "addtopic") and st["topic"] in seen:
                        return True
                return False
            pri = [c for c in cs if readd(c)][:per[mode] // 3]
            rest = [c for c in cs if not readd(c)]
            rows += pri + rest[:per[mode] - len(pri)]
    core.write_ndjson(inp, rows)
    rc, o = ctx.go_test("./dsel/", run="TestReplay", env={"VERIF_CASES": inp}, tags="verif,synctests", timeout=3000)
    res = ctx.go_results(o)
    stats = [r for r in res if r.get("kind") == "stat"]
    if not stats:
        raise core.Infra("runner did not finish:\n" + o[-3000:])
    for v in res:
        if v.get("kind") == "viol":
            ctx.violation(v["key"], v["what"], {"case": rows[v["case"]], "detail": v})
    st = stats[0]
    ctx.cov["evaluations"] = st["steps"]
    ctx.cov["traces_validated_against_impl"] = st["evaluations"]
    ctx.cov["distinct_nontrivial"] = st["nontrivial"]
    ctx.cov["rule"] = ("Select.tla: all behaviours of 4 steps (6 in regex mode) over create topic / add a partition to a topic / AddConsumeTopics / AddConsumePartitions / RemoveConsumePartitions (any subset) / PurgeTopicsFromConsuming,"
                       " for a consumer configured with ConsumeTopics, ConsumePartitions or ConsumeRegex with an exclusion; a seeded sample of them (%s) replayed on the real consumer against kfake under virtual time:"
                       " after each step a fresh record goes to every partition of every topic and the partitions that deliver it must equal the specification's Selected set. non-trivial = behaviour with a removal or purge"
                       % ("420" if ctx.tier == "quick" else "10400"))
    ctx.notes["runner"] = st
    ctx.sample(rows[0])
    ctx.assumptions += ["topic deletion and internal topics are not driven", "histories the documentation leaves open (growing a topic after a partial removal; AddConsumeTopics over explicit partitions) are not generated"]
