"""C37 kotel carrier is a header map — Carrier.tla, binding R."""
import json, os, re
from vlib import core
LEVEL = "model_checking"


def run(ctx):
    ctx.design("Carrier", "Carrier_mc.cfg", timeout=600)
    inp = os.path.join(ctx.work, "behaviours.ndjson")
    if ctx.replay:
        core.write_ndjson(inp, [json.load(open(ctx.replay))["replay"]["behaviour"]])
    else:
        r = ctx.tlc("Carrier", "Carrier_gen.cfg" if ctx.tier == "quick" else "Carrier_gen4.cfg", workers=1, timeout=1200, tag="gen", heap="8g")
        behs = [json.loads(json.loads(m.group(1))) for m in re.finditer(r'<<"BEH", (".*")>>', r.out)]
        core.write_ndjson(inp, behs)
    rc, o = ctx.go_test("./c37/", env={"VERIF_IN": inp})
    res = ctx.go_results(o)
    stats = [r for r in res if r.get("kind") == "stat"]
    if len(stats) != 2:
        raise core.Infra("replayer did not finish:\n" + o[-3000:])
    behs = core.read_ndjson(inp)
    ctx.cov["evaluations"] = len(behs)
    ctx.cov["distinct_nontrivial"] = stats[0]["nontrivial"]
    ctx.cov["traces_validated_against_impl"] = len(behs)
    ctx.cov["exhaustive"] = True
    ctx.cov["rule"] = ("every behaviour of Carrier.tla: initial header lists of <=%d headers over keys {a,A,b} (two keys differing only in case) x values {x,y} (duplicate keys included) followed by every sequence of %d operations from Set/Get/Keys;"
                       " replayed on kotel.RecordCarrier with the header list compared after each step; plus 12 records through inject->produce->kfake->fetch->extract."
                       " non-trivial = initial list with a duplicate key" % ((2, 3) if ctx.tier == "quick" else (3, 4)))
    ctx.notes["replayer"] = stats
    ctx.sample(behs[0]); ctx.sample(behs[len(behs) // 2])
    for v in res:
        if v.get("kind") == "viol":
            ctx.violation(v["key"], v["what"], {"behaviour": behs[v["case"]] if v.get("case", -1) >= 0 else None})
