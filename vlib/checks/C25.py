"""C25 every balancer produces a valid assignment — Balancer.tla predicates evaluated by TLC (binding O2)."""
from vlib import core, balancer
LEVEL = "exploration"


def run(ctx):
    rows, mine, st, ts = balancer.run(ctx, "C25")
    plans = [r for r in rows if r["kind"] == "plan"]
    ctx.cov["evaluations"] = len(plans)
    ctx.cov["distinct_nontrivial"] = sum(1 for r in plans if len(r["in"]["members"]) >= 2 and any(m["owned"] for m in r["in"]["members"]))
    ctx.cov["rule"] = ("group situations generated from Balancer.tla (1-4 of 5 members, 1-3 topics x 1-4 partitions, equal or arbitrary subscriptions incl. an unknown topic, prior ownership: none / previous plan with departed members /"
                       " previous valid plan / arbitrary conflicting claims with stale generations, optional racks), each run through range, roundrobin, sticky, cooperative-sticky (+2 revoke-and-rejoin rounds) and kfake's uniform and range assignors;"
                       " ValidPlan / CoopWithheldOnlyMoving evaluated by TLC on every (input, plan). non-trivial = >=2 members with prior ownership")
    ctx.notes["runner"] = st
    ctx.notes["tlc_eval"] = ts
    ctx.sample({"in": plans[0]["in"], "balancer": plans[0]["balancer"], "plan": plans[0]["plan"]})
    ctx.sample({"in": plans[7]["in"], "balancer": plans[7]["balancer"], "plan": plans[7]["plan"]})
    ctx.assumptions += ["a withheld partition is accepted when any claimant (current or stale) loses it, as the code deliberately revokes from stale claimants too"]
    balancer.report(ctx, rows, mine)
