"""C14 buffered/unbuffered hooks pair up — ProdTrace.tla (producer half, D-PROD) + FetchTrace.tla (fetch half, D-CONS), binding V."""
from vlib import dprod, dcons
LEVEL = "model_checking"


def run(ctx):
    dprod.run(ctx, "C14", n=200 if ctx.tier == "quick" else 2000)
    cov1 = dict(ctx.cov)
    dcons.run(ctx, "C14", n=200 if ctx.tier == "quick" else 2000)
    ctx.cov["traces_validated_against_impl"] += cov1["traces_validated_against_impl"]
    ctx.cov["evaluations"] += cov1["evaluations"]
    ctx.cov["distinct_nontrivial"] += cov1["distinct_nontrivial"]
    ctx.cov["rule"] = "producer half: " + cov1["rule"] + " || fetch half: " + ctx.cov["rule"]
