"""C36 schema-registry serde header — SerdeHdr.tla as oracle (binding O1)."""
from vlib import core, oracle
LEVEL = "exploration"


def run(ctx):
    cases, stats, _ = oracle.run_o1(ctx, "SerdeHdr", ["SerdeHdr.cfg"], "serde_cases.ndjson", "./c36/")
    ctx.cov["evaluations"] = len(cases)
    ctx.cov["distinct_nontrivial"] = sum(1 for c in cases if c["kind"] != "encode" and c.get("verdict") != "ok")
    ctx.cov["exhaustive"] = True
    ctx.cov["rule"] = ("SerdeHdr.tla enumerates: Encode for 8 boundary ids x all index paths of length 0..3 over {0,1,63,64} (exact header bytes);"
                       " DecodeID on 0..8 byte inputs x 3 magic bytes; DecodeIndex over declared count {-1,0,1,2,3,100,truncated,2^62,overflow,absent}"
                       " x 0..3 indices present x maxLength {-1..3} x dangling/payload; Serde.Decode/DecodeNew/Encode round trip against a fixed registry"
                       " incl. unregistered ids/paths and truncations. non-trivial = malformed / rejected inputs")
    ctx.notes["runner"] = stats
    for c in cases[:2] + [c for c in cases if c["kind"] == "decodeindex"][:2]:
        ctx.sample(c)
    ctx.assumptions += ["'arbitrary bytes never panic' is covered for these structural classes only (DESIGN.md section 6)"]
