"""C29 sequence numbers wrap modulo 2^31 in client and kfake — SeqWindow.tla, binding R (behaviour replay)."""
import json, os, re
from vlib import core
LEVEL = "model_checking"


def behaviours(out):
    res = []
    for m in re.finditer(r'<<"BEH", (".*")>>', out):
        res.append(json.loads(json.loads(m.group(1))))
    return res


def run(ctx):
    # design-level: invariants of the window model, exhaustive, history hidden by VIEW
    ctx.design("SeqWindow", "SeqWindow_mc.cfg", timeout=600)
    if ctx.replay:
        behs = [json.load(open(ctx.replay))["replay"]["behaviour"]]
    else:
        # exhaustive short behaviours + simulated long ones (eviction from the 5-entry window needs >= 7 steps)
        r1 = ctx.tlc("SeqWindow", "SeqWindow_gen2.cfg", workers=1, timeout=600, tag="gen2")
        n = 100 if ctx.tier == "quick" else 2000
        r2 = ctx.tlc("SeqWindow", "SeqWindow_gen.cfg", workers=1, simulate="num=%d" % n, depth=10, timeout=900, tag="gensim")
        behs = behaviours(r1.out) + behaviours(r2.out)
        if ctx.tier == "thorough":
            r3 = ctx.tlc("SeqWindow", "SeqWindow_gen3.cfg", workers=1, timeout=1200, tag="gen3", heap="8g")
            behs += behaviours(r3.out)
    seen, uniq = set(), []
    for b in behs:
        k = json.dumps(b, sort_keys=True)
        if k not in seen:
            seen.add(k)
            uniq.append(b)
    if not uniq:
        raise core.Infra("TLC produced no behaviours")
    inp = os.path.join(ctx.work, "behaviours.ndjson")
    core.write_ndjson(inp, uniq)
    rc, out = ctx.go_test("./c29/", env={"VERIF_IN": inp, "VERIF_SEQMOD": 16})
    res = ctx.go_results(out)
    stats = [r for r in res if r.get("kind") == "stat"]
    if len(stats) != 2:
        raise core.Infra("replayer did not finish:\n" + out[-2000:])
    wraps = sum(1 for b in uniq if any(o["out"] == "append" and o["s"] >= 8 and o["next"] < 8 for o in b))
    dups = sum(1 for b in uniq if any(o["out"] == "dup" for o in b))
    ctx.cov["evaluations"] = len(uniq)
    ctx.cov["distinct_nontrivial"] = wraps
    ctx.cov["traces_validated_against_impl"] = len(uniq)
    ctx.cov["rule"] = ("behaviours of SeqWindow.tla (SeqMod=16 standing for 2^31, window 5, n<=3, epochs 0..2): exhaustive to depth 3"
                       " + simulated depth 9; each replayed on kgo.incrementSequence, kfake pidwindow and a real kfake over the wire;"
                       " non-trivial = behaviour contains an accepted batch that crosses the wrap point")
    ctx.notes["behaviours_with_duplicate_retry"] = dups
    ctx.notes["replayer"] = stats
    for b in uniq[:2]:
        ctx.sample(b)
    ctx.sample([b for b in uniq if any(o["out"] == "dup" for o in b)][0])
    ctx.assumptions += ["kfake stands in for a Kafka broker", "seq mapping s>=8 -> 2^31-(16-s) keeps behaviours off the artificial seam (enforced by the spec's advance budget)"]
    for v in res:
        if v.get("kind") == "viol":
            beh = uniq[v["beh"]] if v.get("beh", -1) >= 0 else None
            ctx.violation(re.sub(r"\d+", "#", v["key"]).split(" s=")[0], v["what"], {"behaviour": beh, "detail": v})
