"""C29 sequence numbers wrap modulo 2^31 in client and kfake — SeqWindow.tla, binding R (behaviour replay)."""
import hashlib, json, os, re
from vlib import core
LEVEL = "model_checking"


def behaviours(out):
    res = []
    for m in re.finditer(r'<<"BEH", (".*")>>', out):
        res.append(json.loads(json.loads(m.group(1))))
    return res


def scenarios(out):
    """SeqClient.tla histories -> driver scenarios: batch sizes, and per transmission (first sequence, records, what happens to it)."""
    scs = {}
    for m in re.finditer(r'<<\s*"SCN",\s*(".*?")\s*>>', out, re.S):
        hist = json.loads(json.loads(re.sub(r"\n\s*", "", m.group(1))))
        sends = []
        for i, e in enumerate(hist):
            if e["e"] == "send":
                nxt = hist[i + 1]["e"] if i + 1 < len(hist) else "ack"
                sends.append({"s": e["s"], "n": e["n"], "fault": nxt if nxt in ("err", "lost") else ""})
        sc = {"start": sends[0]["s"], "batches": [e["n"] for e in hist if e["e"] == "buffer"], "sends": sends}
        scs[json.dumps(sc, sort_keys=True)] = sc
    return [scs[k] for k in sorted(scs)]


def client(ctx):
    """the client's sequence state machine (seq / batch0Seq / rewind) across the wrap: SeqClient.tla, design + mutant + replay"""
    ctx.design("SeqClient", "SeqClient_mc.cfg", timeout=900, tag="seqclient_mc")
    m = ctx.tlc("SeqClient", "SeqClient_mut.cfg", workers=4, timeout=600, tag="seqclient_mut", allow_fail=True)
    ctx.notes["design_mutant_rewind_only_if_seq_gt_batch0Seq_rejected"] = "SameSeq" in (m.violated or "") or "SameSeq is violated" in m.out
    if ctx.replay and "scenario" in json.load(open(ctx.replay))["replay"]:
        scs = [json.load(open(ctx.replay))["replay"]["scenario"]]
    elif ctx.replay:
        return
    else:
        r = ctx.tlc("SeqClient", "SeqClient_gen.cfg", workers=1, timeout=900, tag="seqclient_gen")
        scs = scenarios(r.out)
        if not scs:
            raise core.Infra("TLC produced no client scenarios")
        if ctx.tier == "quick":
            scs = [s for i, s in enumerate(scs) if int(hashlib.sha1(b"%d/%d" % (ctx.seed, i)).hexdigest(), 16) % 4 == 0]
    inp = os.path.join(ctx.work, "client_scenarios.ndjson")
    core.write_ndjson(inp, scs)
    rc, out = ctx.go_test("./c29/", run="TestClient", env={"VERIF_IN": inp, "VERIF_SEQMOD": 32}, tags="verif,synctests", timeout=1500)
    res = ctx.go_results(out)
    stats = [r for r in res if r.get("kind") == "stat"]
    if len(stats) != 1:
        raise core.Infra("client replayer did not finish:\n" + out[-2000:])
    ctx.cov["evaluations"] = ctx.cov.get("evaluations", 0) + len(scs)
    ctx.cov["distinct_nontrivial"] = ctx.cov.get("distinct_nontrivial", 0) + stats[0]["crossing_wrap"]
    ctx.cov["traces_validated_against_impl"] = ctx.cov.get("traces_validated_against_impl", 0) + len(scs)
    ctx.notes["client_replayer"] = stats[0]
    ctx.sample(scs[len(scs) // 2])
    for v in res:
        if v.get("kind") == "viol":
            ctx.violation(v["key"], v["what"], {"scenario": scs[v["beh"]], "detail": v})


def run(ctx):
    client(ctx)
    if ctx.replay and "behaviour" not in json.load(open(ctx.replay))["replay"]:
        return
    # design-level: invariants of the window model, exhaustive, history hidden by VIEW
    ctx.design("SeqWindow", "SeqWindow_mc.cfg", timeout=600)
    if ctx.replay:
        behs = [json.load(open(ctx.replay))["replay"]["behaviour"]]
    else:
        # exhaustive short behaviours + simulated long ones (eviction from the 5-entry window needs >= 7 steps)
        r1 = ctx.tlc("SeqWindow", "SeqWindow_gen2.cfg", workers=1, timeout=600, tag="gen2")
        n = 100 if ctx.tier == "quick" else 2000
        r2 = ctx.tlc("SeqWindow", "SeqWindow_gen.cfg", workers=1, simulate="num=%d" % n, depth=10, timeout=900, tag="gensim")
        behs = behaviours(r1.out) + behaviours(r2.out)
        if ctx.tier == "thorough":
            r3 = ctx.tlc("SeqWindow", "SeqWindow_gen3.cfg", workers=1, timeout=1200, tag="gen3", heap="8g")
            behs += behaviours(r3.out)
    seen, uniq = set(), []
    for b in behs:
        k = json.dumps(b, sort_keys=True)
        if k not in seen:
            seen.add(k)
            uniq.append(b)
    if not uniq:
        raise core.Infra("TLC produced no behaviours")
    inp = os.path.join(ctx.work, "behaviours.ndjson")
    core.write_ndjson(inp, uniq)
    rc, out = ctx.go_test("./c29/", run="TestReplay|TestBoundaryArithmetic", env={"VERIF_IN": inp, "VERIF_SEQMOD": 16})
    res = ctx.go_results(out)
    stats = [r for r in res if r.get("kind") == "stat"]
    if len(stats) != 2:
        raise core.Infra("replayer did not finish:\n" + out[-2000:])
    wraps = sum(1 for b in uniq if any(o["out"] == "append" and o["s"] >= 8 and o["next"] < 8 for o in b))
    dups = sum(1 for b in uniq if any(o["out"] == "dup" for o in b))
    ctx.cov["evaluations"] = ctx.cov.get("evaluations", 0) + len(uniq)
    ctx.cov["distinct_nontrivial"] = ctx.cov.get("distinct_nontrivial", 0) + wraps
    ctx.cov["traces_validated_against_impl"] = ctx.cov.get("traces_validated_against_impl", 0) + len(uniq)
    ctx.cov["rule"] = ("behaviours of SeqWindow.tla (SeqMod=16 standing for 2^31, window 5, n<=3, epochs 0..2): exhaustive to depth 3"
                       " + simulated depth 9; each replayed on kgo.incrementSequence, kfake pidwindow and a real kfake over the wire;"
                       " non-trivial = behaviour contains an accepted batch that crosses the wrap point."
                       " Client state machine: every scenario of SeqClient.tla (SeqMod=32, 3 batches of 1..3 records starting 1..5 below the wrap, up to 2 faults:"
                       " answer lost after append / retriable error without append)%s run on a real idempotent kgo producer against kfake with the partition's"
                       " sequence placed below 2^31; every transmission's (first sequence, count) captured off the wire and compared with the specification's"
                       % ("" if ctx.tier == "thorough" else ", a pseudo-random quarter of them by seed,"))
    ctx.notes["behaviours_with_duplicate_retry"] = dups
    ctx.notes["replayer"] = stats
    for b in uniq[:2]:
        ctx.sample(b)
    ctx.sample([b for b in uniq if any(o["out"] == "dup" for o in b)][0])
    ctx.assumptions += ["kfake stands in for a Kafka broker", "seq mapping s>=8 -> 2^31-(16-s) keeps behaviours off the artificial seam (enforced by the spec's advance budget)"]
    for v in res:
        if v.get("kind") == "viol":
            beh = uniq[v["beh"]] if v.get("beh", -1) >= 0 else None
            ctx.violation(re.sub(r"\d+", "#", v["key"]).split(" s=")[0], v["what"], {"behaviour": beh, "detail": v})
