"""C03 producer buffering limits and Flush completion — Admit.tla (design, all interleavings) + ProdTrace.tla (binding V over D-PROD)."""
from vlib import dprod
LEVEL = "model_checking"


def run(ctx):
    dprod.run(ctx, "C03")
