"""C24 protocol tables are mutually consistent — Tables.tla evaluated by TLC over a dump (binding O2)."""
import os, json
from vlib import core
LEVEL = "exploration"


def run(ctx):
    d = ctx.specdir()
    dump = os.path.join(d, "tables_dump.ndjson")
    rc, o = ctx.go_test("./c24/", run="TestDump", env={"VERIF_OUT": dump})
    stats = [r for r in ctx.go_results(o) if r.get("kind") == "stat"]
    if not stats:
        raise core.Infra("dump failed:\n" + o[-3000:])
    r = ctx.tlc("Tables", "Tables.cfg", workers=1, timeout=1200, heap="8g")
    bad = core.read_ndjson(os.path.join(d, "tables_bad.ndjson"))
    import re
    m = re.search(r'<<\s*"rows".*?>>', r.out, re.S)
    hdr = re.sub(r"\s+", " ", m.group(0)) if m else ""
    rows = core.read_ndjson(dump)
    ctx.cov["evaluations"] = len(rows)
    ctx.cov["distinct_nontrivial"] = sum(1 for x in rows if (x["kind"] == "err" and x["ecode"] != -1) or (x["kind"] == "key" and x["hasReq"]) or x["kind"] == "ver")
    ctx.cov["exhaustive"] = True
    ctx.cov["rule"] = ("one row per int16 error code (65536), per int16 api key (65536) and per (release, key) of every named kversion release incl. Stable/Tip and VersionStrings;"
                       " predicates of Tables.tla evaluated by TLC on every row; non-trivial = known code / existing key / release entry")
    ctx.notes["tlc"] = hdr
    ctx.notes["runner"] = stats
    ctx.sample([x for x in rows if x["kind"] == "err" and x["code"] == 6][0])
    ctx.sample([x for x in rows if x["kind"] == "key" and x["key"] == 0][0])
    ctx.sample([x for x in rows if x["kind"] == "ver"][0])
    for b in bad:
        key = "%s %s" % (b["kind"], b.get("code", b.get("key")))
        ctx.violation(key, "table row violates Tables.tla: %s" % json.dumps(b), {"row": b})
