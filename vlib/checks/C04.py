"""C04 — FetchTrace.tla (binding V over D-CONS)."""
from vlib import dcons
LEVEL = "model_checking"


def run(ctx):
    dcons.run(ctx, "C04")
