"""C22 — Conn.tla (design) + ConnTrace.tla (binding V over D-CONN)."""
from vlib import dconn
LEVEL = "model_checking"


def run(ctx):
    dconn.run(ctx)
