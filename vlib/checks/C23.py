"""C23 — Shard.tla (design: split/issue/re-split accounts for every item once) + ShardTrace.tla (binding V over D-SHARD)."""
from vlib import dshard
LEVEL = "model_checking"


def run(ctx):
    dshard.run(ctx)
