"""C18 produce encoding — ProduceLayout/ProduceEnc.tla (accounting >= layout, exhaustive over boundary classes) + captured frames validated by TLC against the layout (binding V)."""
import json, os, re
from vlib import core
LEVEL = "model_checking"


def run(ctx):
    r = ctx.tlc("ProduceEnc", "ProduceEnc.cfg", workers=1, timeout=1500, heap="8g", tag="enc_safe")
    m = re.search(r'<<"requests", (\d+)>>', r.out)
    if not m:
        raise core.Infra("ProduceEnc.tla did not evaluate:\n" + r.out[-2000:])
    nreq = int(m.group(1))
    old = ctx.tlc("ProduceEnc", "ProduceEnc_old.cfg", workers=1, timeout=1500, heap="8g", tag="enc_old", allow_fail=True)
    ctx.notes["accounting_without_tag_bytes_rejected"] = "is false" in old.out
    ctx.cov["states"] += nreq
    ctx.cov["transitions"] += nreq
    d = ctx.specdir()
    frames = os.path.join(d, "produce_frames.ndjson")
    n = 150 if ctx.tier == "quick" else 2500
    rc, o = ctx.go_test("./c18/", run="TestFrames", env={"VERIF_OUT": frames, "VERIF_N": n}, timeout=2400)
    res = ctx.go_results(o)
    stats = [x for x in res if x.get("kind") == "stat"]
    if not stats:
        raise core.Infra("runner did not finish:\n" + o[-3000:])
    for v in res:
        if v.get("kind") == "viol":
            ctx.violation("frame " + v["key"], v["what"], {"detail": v})
    t = ctx.tlc("ProduceEncTrace", "ProduceEncTrace.cfg", workers=1, timeout=1500, heap="8g", tag="enc_trace", allow_fail=True)
    mm = re.search(r'<<"rows", (\d+), "bad", (\d+)>>', t.out)
    if not mm:
        raise core.Infra("ProduceEncTrace gave no verdict:\n" + t.out[-2000:])
    rows = core.read_ndjson(frames)
    bads = list(re.finditer(r'<<\s*"BAD-ROW",\s*(\d+),\s*"([^"]*)",\s*(\d+),\s*(\d+),\s*(\d+),\s*(\d+)\s*>>', t.out, re.S))
    if int(mm.group(2)) > 0 and not bads:
        raise core.Infra("ProduceEncTrace reports bad rows but none could be read:\n" + t.out[-2000:])
    for b in bads:
        i, why, case, ver, size, limit = int(b.group(1)), b.group(2), int(b.group(3)), int(b.group(4)), int(b.group(5)), int(b.group(6))
        row = rows[i - 1]
        ctx.violation("%s v%d" % (why, ver), "%s: produce v%d frame of %d bytes, BrokerMaxWriteBytes %d, %d topics, %d partitions (case %d)" % (
            why, ver, size, limit, len(row["topics"]), sum(len(x["parts"]) for x in row["topics"]), case), {"row": {k: v for k, v in row.items() if k != "topics"}, "topics": len(row["topics"])})
    st = stats[0]
    ctx.cov["evaluations"] = st["frames"] + nreq
    ctx.cov["distinct_nontrivial"] = st["nontrivial"]
    ctx.cov["traces_validated_against_impl"] = int(mm.group(1))
    ctx.cov["rule"] = ("(a) ProduceEnc.tla: Accounted >= Actual for every request over versions {3,8,9,12,13} x client id {null,3} x transactional id {null,5,127} x 1-2 topics with name length {1,126,127,249} x 1-3 partitions with batch"
                       " length {70,127,16383} (%d requests); (b) %d seeded producer runs (produce version 3-13 pinned at kfake, 1-40 topics x 1-130 partitions, names of 3-200 bytes, 1-20 records per partition of 4 size classes, 5 codecs,"
                       " transactional or not, client id 0-128 bytes, BrokerMaxWriteBytes 8 KiB-1 MiB, ProducerBatchMaxBytes 512-8192, two flush rounds): every Produce frame decoded by an independent decoder (one batch per partition, records in"
                       " produce order, CRC, lengths, deltas, attributes, sequence continuity) and validated by TLC against the layout and the limits. non-trivial = compressed or multi-topic frame" % (nreq, n))
    ctx.notes["runner"] = st
    ctx.sample({k: v for k, v in rows[0].items() if k != "topics"} if rows else {})
    ctx.assumptions += ["produce versions 0-2 (message sets) are not served by kfake and are not driven", "the accounting formula in ProduceLayout.tla is a transcription of sink.go; it is bound to the code by the frames (limit never exceeded), not by reading the counter"]
