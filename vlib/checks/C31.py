"""C31 rebalance gate and synctest mutexes — PollGate.tla / XMutex.tla, binding R with the deterministic scheduler."""
from vlib import core, extract, replay
LEVEL = "model_checking"


def setv(x):
    return sorted(x["#set"]) if isinstance(x, dict) and "#set" in x else x


def gate_project(s):
    return {"lo": s["lo"], "hi": s["hi"], "ppc": s["ppc"], "rpc": s["rpc"], "woken": setv(s["woken"]), "misused": s["misused"]}


def run(ctx):
    extract.pollgate()
    tb = ts = 0
    b, s, behs = replay.replay_graph(ctx, "PollGate", "PollGate_q.cfg", gate_project, "./gatex/",
                                     {"pollers": ["p1", "p2"], "rebalancers": ["r1", "r2"], "rounds": 2}, "gate", "gate",
                                     explore=3000 if ctx.tier == "quick" else 60000)
    tb, ts = tb + b, ts + s
    b2, s2, _ = replay.replay_graph(ctx, "PollGate", "PollGate_mis.cfg", gate_project, "./gatex/",
                                    {"pollers": ["p1", "p2"], "rebalancers": ["r1"], "rounds": 2}, "gatemis", "gate(misuse)")
    tb, ts = tb + b2, ts + s2
    ctx.sample({"gate_steps": [{"act": x["act"], "args": x["args"]} for x in behs[0]["steps"]]})
    if hasattr(extract, "xmutex"):
        from vlib.checks import C31x
        b3, s3 = C31x.run(ctx)
        tb, ts = tb + b3, ts + s3
    ctx.cov["traces_validated_against_impl"] = tb
    ctx.cov["evaluations"] = ts
    ctx.cov["distinct_nontrivial"] = tb
    ctx.cov["rule"] = "edge-covering + random behaviours of the exhaustively checked TLC state graphs, each executed step by step on the extracted current source under the deterministic scheduler; evaluations = replayed steps"
