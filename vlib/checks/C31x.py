"""XMutex half of C31."""
from vlib import core, extract, replay


def project(s):
    return {"gate": s["gate"], "sig": s["sig"], "mu": s["mu"], "rc": s["rc"], "pc": s["pc"]}


def run(ctx):
    extract.xmutex()
    cfg = "XMutex_q.cfg"
    gocfg = {"writers": ["w1", "w2"], "readers": ["r1", "r2"], "tryers": ["t1"], "rounds": 1}
    if ctx.tier == "thorough":
        cfg, gocfg["rounds"] = "XMutex_t.cfg", 2
    b, s, behs = replay.replay_graph(ctx, "XMutex", cfg, project, "./xmx/", gocfg, "xmutex", "xmutex")
    ctx.sample({"xmutex_steps": [x["args"][0] for x in behs[0]["steps"]]})
    rc, o = ctx.go_test("./xmx/", run="TestPlainMutex", tags="")
    res = ctx.go_results(o)
    st = [x for x in res if x.get("kind") == "stat2"]
    if not st:
        raise core.Infra("plain mutex exploration did not finish:\n" + o[-2000:])
    ctx.notes["plain_mutex"] = st[0]
    for v in res:
        if v.get("kind") == "viol":
            ctx.violation("xmutex " + v["key"], v["what"], {"schedule": v["what"]})
    return b, s + st[0]["plain_mutex_schedules"]
