"""C17 wire primitives — Wire.tla as oracle (binding O1)."""
from vlib import core, oracle
LEVEL = "exploration"


def run(ctx):
    cases, stats, _ = oracle.run_o1(ctx, "Wire", ["Wire.cfg"], "wire_cases.ndjson", "./c17/", gorun="TestOracle|TestPrivateCopyIdentical")
    if len(stats) != 2:
        raise core.Infra("runner incomplete")
    ctx.cov["evaluations"] = len(cases) + stats[0].get("short_inputs", 0)
    ctx.cov["distinct_nontrivial"] = stats[0]["nontrivial"]
    ctx.cov["exhaustive"] = True
    ctx.cov["rule"] = ("Wire.tla over bit vectors: encodings (zig-zag varint/varlong, uvarint, big-endian 8/16/32/64, float bits, uuid) of every boundary value 2^k, 2^k-1, 2^k+1, their negations and complements for k<W;"
                       " decoder verdict (value, n / short / overflow) on every control-byte structure (0..MaxLen continuation bytes from 2-3 classes, optional terminal byte from {00,01,0f,10,7f}, 0, 1, 4 or 9 trailing bytes so that word-at-a-time fast paths are entered);"
                       " length prefixes for lengths around the 1/2/3-byte varint borders and null; every Reader method on short input. non-trivial = multi-byte encodings and rejected inputs")
    ctx.notes["runner"] = stats
    ctx.sample(cases[5]); ctx.sample([c for c in cases if c["kind"] == "dec"][100]); ctx.sample([c for c in cases if c["kind"] == "prefix"][0])
    ctx.assumptions += ["'every 32-bit value' is covered at boundary-class level, not enumerated (DESIGN.md section 6)", "the private copy is compared as source text"]
