"""C12 share-group acknowledgements — AckRanges.tla (range builder oracle, O1), ShareAck.tla (per-record design model with mutant),
ShareTrace.tla (binding V over D-SHARE)."""
import json, os
from vlib import core, oracle, tracev
LEVEL = "model_checking"


def apalache_ind(ctx):
    import shutil, subprocess, tempfile
    if not shutil.which("apalache-mc"):
        return "apalache-mc not installed: skipped"
    d = tempfile.mkdtemp(prefix="apa_", dir=ctx.work)
    shutil.copy(os.path.join(core.VERIF, "spec", "ShareAckInd.tla"), d)
    res = []
    for args in (["--init=Init", "--inv=IndInv", "--length=0"], ["--init=IndInit", "--inv=IndInv", "--length=1"], ["--init=IndInit", "--inv=Safety", "--length=0"]):
        p = subprocess.run(["timeout", "300", "apalache-mc", "check"] + args + ["ShareAckInd.tla"], cwd=d, stdout=subprocess.PIPE, stderr=subprocess.STDOUT, text=True)
        ok = "EXITCODE: OK" in p.stdout and "NoError" in p.stdout
        res.append(ok)
        if not ok and ("violat" in p.stdout.lower() or "EXITCODE: ERROR (12)" in p.stdout):
            raise core.Infra("ShareAckInd.tla: inductive invariant obligation %s fails:\n%s" % (args, p.stdout[-1500:]))
    shutil.rmtree(d, ignore_errors=True)
    return "3 obligations discharged" if all(res) else "inconclusive (tool error or timeout): %s" % res


def run(ctx):
    ctx.design("ShareAck", "ShareAck.cfg", workers=4, timeout=600, tag="shareack_design")
    m = ctx.tlc("ShareAck", "ShareAck_mut.cfg", workers=4, timeout=600, tag="shareack_mutant", allow_fail=True)
    ctx.notes["design_mutant_terminal_after_renew_not_enqueued_rejected"] = bool(m.violated) or "violated" in m.out
    # unbounded safety of the per-record model: Apalache discharges the inductive invariant of ShareAckInd.tla
    # (Init => IndInv, IndInv /\ Next => IndInv', IndInv => AtMostOneFinal /\ SentIsDecided) without a bound on renews or queue length
    ctx.notes["apalache_inductive_invariant"] = apalache_ind(ctx)
    # (a) the range builder against every enumerated mix of entries and gaps
    cases, stats, _ = oracle.run_o1(ctx, "AckRanges", ["AckRanges_q.cfg" if ctx.tier == "quick" else "AckRanges.cfg"], "ack_cases.ndjson", "./c12/", gorun="TestOracle", key=lambda v: v["key"])
    builder = stats[0]
    # (b) share consumers end to end
    n = 300 if ctx.tier == "quick" else 4000
    out = os.path.join(ctx.work, "share_trace_raw.ndjson")
    if os.path.exists(out):
        os.remove(out)
    env = {"VERIF_OUT": out, "VERIF_N": n}
    if ctx.replay and "scenario" in json.load(open(ctx.replay))["replay"]:
        sc = json.load(open(ctx.replay))["replay"]["scenario"]
        scf = os.path.join(ctx.work, "scenario.ndjson")
        core.write_ndjson(scf, [sc])
        env["VERIF_SCENARIOS"] = scf
    # The share fetch loop can spin without ever blocking while acknowledgements are pending and none of a source's cursors is
    # usable (it ends when a one-second timer fires); under virtual time such a spin never ends because the clock only moves
    # when every goroutine is blocked. Scenarios run in chunks with a real-time limit; one that spins is skipped and counted.
    rows, st, stalled, o = [], [], [], ""
    chunk = 30
    if "VERIF_SCENARIOS" in env:
        rc, o = ctx.go_test("./dshare/", run="TestScenarios", env=env, tags="verif,synctests", timeout=300)
        rows = core.read_ndjson(out) if os.path.exists(out) else []
        st = [r for r in ctx.go_results(o) if r.get("kind") == "stat"]
    else:
        lo = 0
        while lo < n:
            hi = min(n, lo + chunk)
            skip = []
            while True:
                if os.path.exists(out):
                    os.remove(out)
                e2 = dict(env, VERIF_FROM=lo, VERIF_N=hi, VERIF_SKIP=",".join(map(str, skip)))
                try:
                    rc, o = ctx.go_test("./dshare/", run="TestScenarios", env=e2, tags="verif,synctests", timeout=25)
                    part = core.read_ndjson(out) if os.path.exists(out) else []
                    s1 = [r for r in ctx.go_results(o) if r.get("kind") == "stat"]
                except core.Infra:
                    part = core.read_ndjson(out) if os.path.exists(out) else []
                    done = sorted(set(range(lo, hi)) - set(skip))
                    nres = sum(1 for r in part if r.get("ev") == "reset")
                    if nres == 0 or len(skip) >= 5:
                        raise
                    k = done[nres - 1]
                    skip.append(k)
                    stalled.append(k)
                    continue
                rows += part
                st += s1
                break
            lo = hi
    ctx.notes["scenarios_skipped_virtual_time_spin"] = stalled
    accepted, rej = tracev.validate(ctx, "ShareTrace", "ShareTrace.cfg", "share_trace.ndjson", rows, "sharetrace")
    for s, line, why, ev in rej:
        sc = json.loads(s[0]["scenario"]) if s and "scenario" in s[0] else None
        ctx.violation("share: " + why, "%s (event %d of the scenario: %s)" % (why, line, json.dumps(ev)[:500]), {"scenario": sc, "trace_prefix": s[:line][-60:]})
    scen = tracev.split_scenarios(rows)
    cnt = {}
    for r in rows:
        cnt[r["ev"]] = cnt.get(r["ev"], 0) + 1
    ctx.notes["event_counts"] = cnt
    ctx.notes["builder"] = builder
    ctx.cov["traces_validated_against_impl"] = accepted + len(rej)
    ctx.cov["evaluations"] = len(rows) + builder["evaluations"]
    ctx.cov["distinct_nontrivial"] = sum(1 for s in scen if any(e["ev"] in ("moved", "session_reset") for e in s)) + builder["nontrivial"]
    ctx.cov["rule"] = ("(a) AckRanges.tla: every insertion order of <=%d pending user entries (a record possibly twice, live status accept / release / renew / reset) and <=2 gap ranges over 5 offsets, two (source, epoch) stamps,"
                       " run through buildAckRanges: batches ascending, non-overlapping and carrying exactly the pending outcomes; (b) %d seeded share-group scenarios (1-2 members, ShareMaxRecords 3): produce, PollRecords(1-4), Record.Ack / MarkAcks of"
                       " accept / release / reject / renew on held records, FlushAcks, sleeps, member join / close, leader moves, share-session resets; deliveries, application decisions, the acknowledgement batches that reach the brokers"
                       " (decoded from the request frames), callbacks and FlushAcks validated against ShareTrace.tla. non-trivial = scenario with a move or session reset / builder case with entries and gaps"
                       % (2 if ctx.tier == "quick" else 3, n))
    if scen:
        ctx.sample([{k: v for k, v in e.items() if k != "scenario"} for e in scen[0]][:12])
