"""C06 fetch response parsing — KLog.tla as oracle (binding O1) + structured corruptions."""
import json, os
from vlib import core, klog
LEVEL = "model_checking"


def run(ctx):
    ctx.design("KLog", "KLog_mc.cfg" if ctx.tier == "thorough" else "KLog_mcq.cfg", timeout=1500, tag="klog_mc")
    inp = os.path.join(ctx.work, "klog_cases.ndjson")
    if ctx.replay:
        core.write_ndjson(inp, [json.load(open(ctx.replay))["replay"]["case"]])
        stride = 1
    else:
        rows, r = klog.generate(ctx, "KLog_gen.cfg" if ctx.tier == "quick" else "KLog_gen5.cfg", "klog_gen")
        core.write_ndjson(inp, rows)
        stride = 6 if ctx.tier == "quick" else 4
    rc, o = ctx.go_test("./c06/", run="TestOracle|TestCorrupt", env={"VERIF_CASES": inp, "VERIF_STRIDE": stride}, timeout=2400)
    res = ctx.go_results(o)
    stats = [r for r in res if r.get("kind") == "stat"]
    if len(stats) != 2:
        raise core.Infra("runner did not finish:\n" + o[-3000:])
    cases = core.read_ndjson(inp)
    for v in res:
        if v.get("kind") == "viol":
            c = cases[v["case"]] if isinstance(v.get("case"), int) else None
            key = v["key"]
            if c is not None:
                key += " %s iso=%s" % (v.get("format"), v.get("iso"))
            ctx.violation(key, v["what"], {"case": c, "detail": {k: x for k, x in v.items() if k != "log"}})
    st = {}
    for s in stats:
        st.update(s)
    ctx.cov["evaluations"] = st["evaluations"] + st["truncations"] + st["corrupt_evaluations"]
    ctx.cov["distinct_nontrivial"] = st["nontrivial"]
    ctx.cov["traces_validated_against_impl"] = st["logs"]
    ctx.cov["rule"] = ("every log history of KLog.tla (2 transactional producers + a plain one, <=%d batches of 1-2 records, commit/abort markers, one compaction step incl. emptied batches) x every requested offset x isolation level x every"
                       " non-empty prefix of the returned batches; a 1/%d slice by seed of the logs is encoded by an independent encoder as record batches v2 (all 5 codecs, create/log-append time) and, for plain logs, message sets v0/v1 (bare and gzip/snappy/lz4 wrappers),"
                       " every permutation of the aborted list; truncation of the last container at every third byte; plus %d structured corruptions of record varints under a valid CRC. non-trivial = compressed or with aborted transactions"
                       % (4 if ctx.tier == "quick" else 5, stride, st["corrupt_evaluations"]))
    ctx.notes["runner"] = st
    ctx.sample({"log": cases[len(cases) // 2]["log"], "lso": cases[len(cases) // 2]["lso"]})
    ctx.assumptions += ["'arbitrary input bytes never cause a panic' is decided only for truncations and for the enumerated varint corruptions, not for all byte strings"]
