"""C38 Fetches accessors agree — Fetches.tla as oracle (binding O1)."""
from vlib import core, oracle
LEVEL = "exploration"


def run(ctx):
    cfg = "Fetches_q.cfg" if ctx.tier == "quick" else "Fetches_t.cfg"
    cases, stats, _ = oracle.run_o1(ctx, "Fetches", [cfg], "fetches_cases.ndjson", "./c38/")
    ctx.cov["evaluations"] = len(cases)
    ctx.cov["distinct_nontrivial"] = stats[0]["nontrivial"]
    ctx.cov["rule"] = ("random Fetches shapes from Fetches.tla: 0..%d fetches, each a set of distinct topics from {a,b,c} with/without topic id, 0..2 partitions each with 0..2 records and/or an error"
                       " (topics repeat across fetches); TLC computes canonical record order, partition list, merged topics and error list; all ten accessors compared. non-trivial = multi-fetch shape with records" % (3 if ctx.tier == "quick" else 4))
    ctx.notes["runner"] = stats
    for c in cases[:3]:
        ctx.sample(c["in"])
