"""C33 kfake persistence — Persist.tla (design, with rename-before-sync mutant) + crash-point enumeration validated by PersistTrace.tla (binding V)."""
import json, os
from vlib import core, tracev
LEVEL = "fault_enumeration"


def run(ctx):
    ctx.design("Persist", "Persist.cfg", timeout=600, tag="persist_design")
    m = ctx.tlc("Persist", "Persist_mut.cfg", workers=4, timeout=600, tag="persist_mutant", allow_fail=True)
    ctx.notes["design_mutant_rename_before_sync_rejected"] = bool(m.violated)
    out = os.path.join(ctx.work, "persist_trace_raw.ndjson")
    if os.path.exists(out):
        os.remove(out)
    n = 1 if ctx.tier == "quick" else 8
    rc, o = ctx.go_test("./c33/", run="TestCrashPoints", env={"VERIF_OUT": out, "VERIF_N": n}, tags="verif", timeout=3000)
    rows = core.read_ndjson(out) if os.path.exists(out) else []
    stats = [r for r in ctx.go_results(o) if r.get("kind") == "stat"]
    if not stats and not rows:
        raise core.Infra("crash driver produced no events:\n" + o[-3000:])
    if not stats:
        rows.append({"ev": "driver_failed", "seq": 0, "output": o[-1500:]})
    accepted, rej = tracev.validate(ctx, "PersistTrace", "PersistTrace.cfg", "persist_trace.ndjson", rows, "persisttrace", max_rounds=25)
    for s, line, why, ev in rej:
        head = s[0] if s else {}
        after = next((e.get("after_op") for e in s if e.get("ev") == "crash"), "?")
        ctx.violation("persist: %s | stop after [%s] mode=%s" % (why, after, head.get("mode")),
                      "%s: stop after journal op %s of %s [%s], file data %s (workload seed %s): %s" % (why, head.get("prefix"), head.get("of"), after,
                                                                                                       {"keep": "all kept", "lose": "unsynced data lost", "cut": "unsynced tail cut in half"}.get(head.get("mode"), head.get("mode")), head.get("seed"), json.dumps(ev)[:400]),
                      {"image": head, "trace": s})
    st = stats[0] if stats else {}
    ctx.cov["evaluations"] = st.get("images", 0)
    ctx.cov["distinct_nontrivial"] = sum(1 for r in rows if r.get("ev") == "reset" and r.get("mode") != "keep")
    ctx.cov["traces_validated_against_impl"] = accepted + len(rej)
    ctx.cov["exhaustive"] = True
    ctx.cov["rule"] = ("%d seeded workload(s) on kfake with DataDir + SyncWrites over a recording file system (idempotent produces, committed and aborted transactions, offset commits of two groups, topic creation, clean Close: about 200 journalled"
                       " file operations each); for EVERY prefix of the journal x {all data kept, every file cut back to its last Sync, synced content + half of the unsynced tail} a post-crash image is built, kfake restarted on it and its state read"
                       " through the protocol (ListOffsets, read_committed fetch of everything, OffsetFetch); validated against PersistTrace.tla. non-trivial = image with data loss" % n)
    ctx.notes["runner"] = st
    scen = tracev.split_scenarios(rows)
    if scen:
        ctx.sample(scen[len(scen) // 2])
    ctx.assumptions += ["directory operations (create, rename, remove) are durable in the order executed; only file data written after a file's last Sync can be lost", "segment rolls and snapshots beyond those a ~15-step workload and Close produce are not forced"]
