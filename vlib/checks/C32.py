"""C32 kfake behaves like a Kafka partition log — KLog.tla histories replayed on real kfake (binding R over raw protocol)."""
import json, os
from vlib import core, klog
LEVEL = "model_checking"


def run(ctx):
    ctx.design("KLog", "KLog_mc.cfg" if ctx.tier == "thorough" else "KLog_mcq.cfg", timeout=1500, tag="klog_mc")
    inp = os.path.join(ctx.work, "klog_cases.ndjson")
    if ctx.replay:
        core.write_ndjson(inp, [json.load(open(ctx.replay))["replay"]["case"]])
        stride = 1
    else:
        rows, r = klog.generate(ctx, "KLog_gen32.cfg" if ctx.tier == "quick" else "KLog_gen32t.cfg", "klog_gen32")
        core.write_ndjson(inp, rows)
        stride = 3 if ctx.tier == "quick" else 1
    rc, o = ctx.go_test("./c32/", run="TestReplay", env={"VERIF_CASES": inp, "VERIF_STRIDE": stride}, timeout=2400 if ctx.tier == "quick" else 7200)
    res = ctx.go_results(o)
    stats = [r for r in res if r.get("kind") == "stat"]
    if len(stats) != 1:
        raise core.Infra("runner did not finish:\n" + o[-3000:])
    cases = core.read_ndjson(inp)
    for v in res:
        if v.get("kind") == "viol":
            ctx.violation(v["key"], v["what"], {"case": cases[v["case"]], "detail": v})
    st = stats[0]
    ctx.cov["evaluations"] = st["evaluations"]
    ctx.cov["distinct_nontrivial"] = st["nontrivial"]
    ctx.cov["traces_validated_against_impl"] = st["logs"]
    ctx.cov["rule"] = ("every history of KLog.tla without compaction (plain producer + 2 transactional producers, <=%d batches of 1-2 records, commit/abort markers, transactions overlapping in every order), %s, replayed on kfake with raw"
                       " InitProducerID / AddPartitionsToTxn / Produce / EndTxn requests; after each append an incremental fetch session over two partitions; at the end a retry of the last idempotent batch and a fetch at every offset x"
                       " isolation level, whole and cut to one batch by PartitionMaxBytes, the response run through a reference consumer. non-trivial = fetch whose range overlaps an aborted transaction"
                       % (4 if ctx.tier == "quick" else 5, "a pseudo-random third of them by seed" if stride == 3 else "all of them"))
    ctx.notes["runner"] = st
    ctx.sample({"log": cases[len(cases) // 2]["log"], "lso": cases[len(cases) // 2]["lso"], "hw": cases[len(cases) // 2]["hw"]})
    ctx.assumptions += ["transaction timeouts and DeleteRecords are not part of the enumerated histories"]
