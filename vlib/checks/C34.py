"""C34 kfake authorization = Kafka's authorizer — ACL.tla as oracle (binding O1)."""
import os, re, json, shutil
from vlib import core
LEVEL = "exploration"


def run(ctx):
    d = ctx.specdir()
    out = os.path.join(d, "acl_cases.ndjson")
    files = []
    jobs = [("ACL_rand.cfg", "rand")] if ctx.tier == "quick" else [("ACL_pairs.cfg", "pairs"), ("ACL_triples.cfg", "triples")]
    if ctx.replay:
        rp = json.load(open(ctx.replay))["replay"]
        inp = os.path.join(ctx.work, "cases.ndjson")
        core.write_ndjson(inp, [rp["case"]])
        ncases = 1
    else:
        rows = []
        for cfg, tag in jobs:
            # the cfg's NTriples / seed of RandomSetOfSubsets follow VERIF_SEED through TLC's -seed
            ctx.tlc("ACL", cfg, workers=1, timeout=900, heap="8g", tag=tag, extra=["-seed", str(ctx.seed)])
            rows += core.read_ndjson(out)
        seen, uniq = set(), []
        for r in rows:
            k = json.dumps(r["acls"], sort_keys=True)
            if k not in seen:
                seen.add(k)
                uniq.append(r)
        inp = os.path.join(ctx.work, "cases.ndjson")
        core.write_ndjson(inp, uniq)
        ncases = len(uniq)
    rc, o = ctx.go_test("./c34/", run="TestOracle", env={"VERIF_IN": inp})
    res = ctx.go_results(o)
    rc2, o2 = ctx.go_test("./c34/", run="TestEndToEnd", env={"VERIF_IN": inp, "VERIF_E2E": 150 if ctx.tier == "quick" else 1500})
    res += ctx.go_results(o2)
    stats = [r for r in res if r.get("kind") == "stat"]
    if len(stats) != 2:
        raise core.Infra("runner did not finish:\n" + (o + o2)[-3000:])
    cases = core.read_ndjson(inp)
    ctx.cov["evaluations"] = stats[0]["decisions"] + stats[1]["decisions"]
    ctx.cov["distinct_nontrivial"] = stats[0]["nontrivial"]
    ctx.cov["exhaustive"] = ctx.tier == "thorough"
    ctx.cov["rule"] = ("ACL sets over 336 entries (2 principals+User:*, hosts h1/*, literal a/ab/b/* and prefixed a/ab, 6 ops+ALL, ALLOW/DENY): "
                       + ("all singletons, all DENYxALLOW pairs, random sets of 2-4" if ctx.tier == "thorough" else "random sets of 1-4 (seeded)")
                       + "; every (principal,host,resource,op) and any-resource decision computed by TLC from ACL.tla and compared with kfake;"
                       " a sample also end-to-end via SASL+CreateACLs+Metadata/InitProducerID. evaluations = decisions compared;"
                       " non-trivial = ACL set that allows some but not all queries")
    ctx.notes["acl_sets"] = ncases
    ctx.notes["runner"] = stats
    for c in cases[:3]:
        ctx.sample({"acls": c["acls"], "n_allowed": len(c["allowed"]), "any": c["any"]})
    ctx.assumptions += ["ACL.tla transcribes Kafka's StandardAuthorizer/authorizeByResourceType rules as stated in the property; anchored by 5 ASSUMEd decisions",
                        "any-resource queries only for operations without implication rules"]
    for v in res:
        if v.get("kind") == "viol":
            c = cases[v["case"]]
            # key: decision function + shape of the ACL set that fails (perm/pattern types), not the names
            shape = ",".join(sorted("%s-%s%s" % (a["perm"], a["pat"]["pt"], "*" if a["pat"]["name"] == "*" else "") for a in c["acls"]))
            ctx.violation("%s [%s]" % (v["key"], shape), v["what"], {"case": c, "query": v["query"]})
