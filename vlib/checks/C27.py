"""C27 cooperative rebalances hand off safely and converge — real balancer iterated round by round, judged by Balancer.tla."""
from vlib import core, balancer
LEVEL = "model_checking"


def run(ctx):
    # design level: the cooperative protocol itself (any valid plan + AdjustCooperative + revoke-then-rejoin) never double-owns
    ctx.design("Coop", "Coop_mc.cfg", timeout=1500)
    rows, mine, st, ts = balancer.run(ctx, "C27")
    plans = [r for r in rows if r["kind"] == "plan" and r["balancer"] == "cooperative-sticky"]
    chains = [r for r in rows if r["kind"] == "chain"]
    ctx.cov["evaluations"] = len(plans)
    ctx.cov["distinct_nontrivial"] = ts.get("withheld", 0)
    ctx.cov["traces_validated_against_impl"] = len(chains)
    ctx.cov["rule"] = ("for every generated situation the real CooperativeStickyBalancer is run for three rounds, members revoking what they lost and rejoining with what they keep and a bumped generation;"
                       " TLC evaluates CoopSafe on every round (no partition given to a member while another member with a current claim still owns it) and Converges on every chain (round 2 complete, round 3 = round 2)."
                       " non-trivial = rounds in which a partition is withheld")
    ctx.notes["runner"] = st
    ctx.notes["tlc_eval"] = ts
    ctx.sample({"in": chains[0]["in"], "plan2": chains[0]["plan"], "plan3": chains[0]["plan3"]})
    ctx.sample({"in": plans[3]["in"], "plan": plans[3]["plan"]})
    balancer.report(ctx, rows, mine)
