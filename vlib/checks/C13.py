"""C13 — Close.tla (design, liveness under fairness) + CloseTrace.tla (binding V over D-CLOSE)."""
from vlib import dclose
LEVEL = "model_checking"


def run(ctx):
    dclose.run(ctx)
