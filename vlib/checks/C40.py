"""C40 start offsets — StartOffset.tla as oracle (binding O1) over kgo + kfake under virtual time."""
from vlib import core, oracle
LEVEL = "exploration"


def run(ctx):
    env = {"VERIF_STRIDE": 1}
    cases, stats, _ = oracle.run_o1(ctx, "StartOffset", ["StartOffset.cfg"], "start_cases.ndjson", "./c40/", gorun="TestOracle", env=env, tags="verif,synctests",
                                    key=lambda v: v["key"])
    st = stats[0]
    ctx.cov["evaluations"] = st["evaluations"]
    ctx.cov["distinct_nontrivial"] = st["nontrivial"]
    ctx.cov["exhaustive"] = True
    ctx.cov["rule"] = ("StartOffset.tla (from the Offset / ConsumeResetOffset documentation) over: At(x).Relative(r) for x in {0,1,3,5,7,8,9,10,12,20} x r in {0,+-2,+-20}; AtStart().Relative(0,1,4,5,8,9,100,-3);"
                       " AtEnd().Relative(0,-1,-3,-5,-8,-100,3); AfterMilli at / between / beyond the record timestamps; AtCommitted with a commit; x log start {0,3 after DeleteRecords} x open transaction or not"
                       " x isolation level x direct consumer (ConsumePartitions) / group consumer (ConsumeResetOffset); %s. Each case runs the real consumer, commits the transaction and appends a marker once it has settled;"
                       " the first returned record gives the start. non-trivial = log with a deleted prefix or an open transaction" % "all cases")
    ctx.notes["runner"] = st
    ctx.sample(cases[3]); ctx.sample(cases[len(cases) // 2])
    ctx.assumptions += ["the start offset is observed through the first record returned, so starts that differ only within a gap without data records are not distinguished"]
