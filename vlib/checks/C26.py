"""C26 sticky balancing is optimal and keeps balanced assignments — Balancer.tla predicates evaluated by TLC (binding O2)."""
from vlib import core, balancer
LEVEL = "exploration"


def run(ctx):
    rows, mine, st, ts = balancer.run(ctx, "C26")
    plans = [r for r in rows if r["kind"] == "plan" and r["balancer"] in ("sticky", "cooperative-sticky")]
    ctx.cov["evaluations"] = len(plans)
    ctx.cov["distinct_nontrivial"] = sum(1 for r in plans if len(r["in"]["members"]) >= 3 and len({tuple(m["subs"]) for m in r["in"]["members"]}) > 1)
    ctx.cov["rule"] = ("same generated situations as C25; for every sticky / cooperative-sticky plan TLC evaluates NoStealPath (reachability over 'a partition of a's topic can move to a subscribed b' edges, load difference >= 2)"
                       " and StickyFixedPoint (prior valid and already without steal path => plan = prior). non-trivial = >=3 members with differing subscriptions")
    ctx.notes["runner"] = st
    ctx.notes["tlc_eval"] = ts
    ctx.notes["fixed_point_cases"] = ts.get("priorvalid")
    ctx.sample({"in": plans[0]["in"], "balancer": plans[0]["balancer"], "plan": plans[0]["plan"]})
    ctx.sample({"in": plans[9]["in"], "balancer": plans[9]["balancer"], "plan": plans[9]["plan"]})
    ctx.assumptions += ["cooperative-sticky plans are judged for optimality only when nothing is withheld"]
    balancer.report(ctx, rows, mine)
