"""C30 work queues and work latches — Ring.tla / WorkLoop.tla, binding R with the deterministic scheduler over the current sources."""
import json, os
from vlib import core, graph, extract
LEVEL = "model_checking"


def setv(x):
    return sorted(x["#set"]) if isinstance(x, dict) and "#set" in x else x


def ring_project(s):
    cap, head, l = s["cap"], s["head"], s["l"]
    contents = [s["elems"][str((head + i) % cap)] for i in range(l)] if cap else []
    return {"l": l, "dead": s["dead"], "contents": contents, "parked": setv(s["parked"]), "signalled": setv(s["signalled"]),
            "worker": s["worker"], "processed": s["processed"], "accepted": s["accepted"], "rejected": setv(s["rejected"]),
            "nextId": s["nextId"], "pcount": s["pcount"]}


RING_CFGS = {
    # name: (cfg file, pushers, perPusher, maxLen, minCap, forcers)
    "ring_a": ("Ring_a.cfg", ["p1", "p2"], 2, 1, 2, []),
    "ring_b": ("Ring_b.cfg", ["p1", "p2", "p3"], 2, 2, 2, ["p3"]),
    "ring_c": ("Ring_c.cfg", ["p1", "p2", "p3"], 2, 1, 2, []),
    "ring_u": ("Ring_u.cfg", ["p1", "p2"], 3, 0, 2, []),
    "ring_d": ("Ring_d.cfg", ["p1", "p2", "p3", "p4"], 1, 2, 2, []),
}


def run_ring(ctx, name, cover_all):
    cfgf, pushers, per, maxlen, mincap, forcers = RING_CFGS[name]
    d = ctx.specdir()
    g = os.path.join(d, name + "_graph")
    r = ctx.design("Ring", cfgf, timeout=1500, extra=["-dump", "dot,actionlabels", g], tag=name, heap="8g")
    states, edges, inits = graph.parse_dot(g + ".dot")
    if len(states) != r.distinct:
        raise core.Infra("%s: parsed %d states of %d" % (name, len(states), r.distinct))
    walks = graph.edge_cover(states, edges, inits, seed=ctx.seed)
    if not cover_all:
        walks = walks[:1500]
    walks += graph.random_walks(states, edges, inits, 300, seed=ctx.seed)
    behs = graph.export(states, edges, walks, ring_project)
    inp = os.path.join(ctx.work, name + "_behs.ndjson")
    core.write_ndjson(inp, behs)
    cfgp = os.path.join(ctx.work, name + "_cfg.json")
    json.dump({"pushers": pushers, "perPusher": per, "maxLen": maxlen, "minCap": mincap, "forcers": forcers}, open(cfgp, "w"))
    rc, o = ctx.go_test("./ringx/", run="TestReplay", env={"VERIF_IN": inp, "VERIF_CFG": cfgp}, tags="")
    res = ctx.go_results(o)
    stats = [x for x in res if x.get("kind") == "stat"]
    if not stats:
        raise core.Infra("ring replayer did not finish:\n" + o[-3000:])
    covered = len({ei for w in walks for ei in w})
    ctx.notes.setdefault("replays", []).append({"spec": "Ring", "config": name, "states": len(states), "edges": len(edges), "edges_replayed": covered,
                                                "behaviours": len(behs), "steps": stats[0]["steps"]})
    n = 3000 if ctx.tier == "quick" else 100000
    rc, o2 = ctx.go_test("./ringx/", run="TestExplore", env={"VERIF_CFG": cfgp, "VERIF_N": n}, tags="", timeout=1500)
    res2 = ctx.go_results(o2)
    st2 = [x for x in res2 if x.get("kind") == "stat"]
    if not st2:
        raise core.Infra("ring exploration did not finish:\n" + o2[-3000:])
    ctx.notes.setdefault("explorations", []).append(dict(st2[0], config=name))
    semantic = 0
    for v in res2:
        if v.get("kind") == "viol":
            if v["key"] == "infra":
                raise core.Infra("ring exploration: " + v["what"])
            semantic += 1
            ctx.violation("ring " + v["key"], "[%s] %s" % (name, v["what"]), {"config": name, "schedule": v.get("schedule")})
    shape = []
    for v in res:
        if v.get("kind") == "viol":
            if v["key"] == "infra":
                raise core.Infra("ring replay: " + v["what"])
            b = behs[v["case"]]
            if v["key"].startswith("shape "):
                shape.append(v)
                if not semantic:
                    continue
            ctx.violation("ring " + v["key"], "[%s] %s" % (name, v["what"]), {"config": name, "behaviour": {"init": b["init"], "steps": b["steps"][:v["step"] + 1]}})
    if shape and not semantic:
        raise core.Infra("%s: ring.go no longer takes the specification's steps (%s); no invariant of Ring.tla was broken in %d random schedules" % (name, shape[0]["what"], st2[0]["schedules"]))
    return len(behs), stats[0]["steps"], behs


def wl_project(s):
    return {"state": s["state"], "work": s["work"], "spc": s["spc"], "wpc": {str(k): v for k, v in (s["wpc"].items() if isinstance(s["wpc"], dict) else enumerate(s["wpc"], 1))},
            "nworkers": s["nworkers"]}


def run_workloop(ctx, cfgf, sig, maxsig):
    d = ctx.specdir()
    g = os.path.join(d, "wl_graph")
    r = ctx.design("WorkLoop", cfgf, timeout=1500, extra=["-dump", "dot,actionlabels", g], tag="wl", heap="8g")
    states, edges, inits = graph.parse_dot(g + ".dot")
    if len(states) != r.distinct:
        raise core.Infra("workloop: parsed %d states of %d" % (len(states), r.distinct))
    walks = graph.edge_cover(states, edges, inits, seed=ctx.seed) + graph.random_walks(states, edges, inits, 300, seed=ctx.seed)
    behs = graph.export(states, edges, walks, wl_project)
    inp = os.path.join(ctx.work, "wl_behs.ndjson")
    core.write_ndjson(inp, behs)
    cfgp = os.path.join(ctx.work, "wl_cfg.json")
    json.dump({"sig": sig, "maxSig": maxsig}, open(cfgp, "w"))
    rc, o = ctx.go_test("./wlx/", run="TestReplay", env={"VERIF_IN": inp, "VERIF_CFG": cfgp}, tags="")
    res = ctx.go_results(o)
    stats = [x for x in res if x.get("kind") == "stat"]
    if not stats:
        raise core.Infra("workloop replayer did not finish:\n" + o[-3000:])
    ctx.notes.setdefault("replays", []).append({"spec": "WorkLoop", "config": cfgf, "states": len(states), "edges": len(edges),
                                                "edges_replayed": len({ei for w in walks for ei in w}), "behaviours": len(behs), "steps": stats[0]["steps"]})
    # shape-independent exploration of the same system: WorkLoop.tla's invariants on what is observable
    n = 20000 if ctx.tier == "quick" else 400000
    rc, o2 = ctx.go_test("./wlx/", run="TestExplore", env={"VERIF_CFG": cfgp, "VERIF_N": n}, tags="", timeout=1500)
    res2 = ctx.go_results(o2)
    st2 = [x for x in res2 if x.get("kind") == "stat"]
    if not st2:
        raise core.Infra("workloop exploration did not finish:\n" + o2[-3000:])
    ctx.notes["latch_exploration"] = st2[0]
    semantic = 0
    for v in res2:
        if v.get("kind") == "viol":
            if v["key"] == "infra":
                raise core.Infra("workloop exploration: " + v["what"])
            semantic += 1
            ctx.violation("latch " + v["key"], v["what"], {"config": cfgf, "schedule": v.get("schedule")})
    shape = []
    for v in res:
        if v.get("kind") == "viol":
            if v["key"] == "infra":
                raise core.Infra("workloop replay: " + v["what"])
            b = behs[v["case"]]
            if v["key"].startswith("shape "):
                shape.append(v)
                if semantic:  # the code left the specification's step structure AND breaks its invariants: show where they part
                    ctx.violation("latch " + v["key"], v["what"], {"config": cfgf, "behaviour": {"init": b["init"], "steps": b["steps"][:v["step"] + 1]}})
                continue
            ctx.violation("latch " + v["key"], v["what"], {"config": cfgf, "behaviour": {"init": b["init"], "steps": b["steps"][:v["step"] + 1]}})
    if shape and not semantic:
        # the latch still keeps WorkLoop.tla's invariants under every explored schedule, but its atomic steps no longer line up
        # with the specification's labels: the specification has to be re-aligned before behaviours can be replayed. Not a verdict.
        raise core.Infra("maybeBegin / maybeFinish no longer take the specification's atomic steps (%s); no invariant of WorkLoop.tla was broken in %d random schedules"
                         % (shape[0]["what"], st2[0]["schedules"]))
    return len(behs), stats[0]["steps"], behs


def run(ctx):
    extract.ring()
    extract.workloop()
    total_b = total_s = 0
    names = ["ring_a", "ring_u", "ring_d"] if ctx.tier == "quick" else ["ring_a", "ring_u", "ring_d", "ring_b", "ring_c"]
    sample = None
    for n in names:
        b, s, behs = run_ring(ctx, n, cover_all=True)
        total_b += b
        total_s += s
        sample = sample or behs[0]
    # the transient hardFinish user (source.loopFetch) is checked at design level only: its compensation lives in source.go
    ctx.design("WLHard", "WLHard.cfg", timeout=600)
    b, st, wbehs = run_workloop(ctx, "WorkLoop_q.cfg", ["s1", "s2"], 2) if ctx.tier == "quick" else run_workloop(ctx, "WorkLoop_t.cfg", ["s1", "s2", "s3"], 2)
    total_b += b
    total_s += st
    ctx.sample({"workloop_steps": [{"act": x["act"], "args": x["args"]} for x in wbehs[0]["steps"]]})
    ctx.cov["traces_validated_against_impl"] = total_b
    ctx.cov["evaluations"] = total_s
    ctx.cov["distinct_nontrivial"] = total_b
    ctx.cov["rule"] = "edge-covering + random behaviours of the exhaustively checked TLC state graphs, each executed step by step on the extracted current source under the deterministic scheduler; evaluations = replayed steps"
    ctx.sample({"init": sample["init"], "steps": [{"act": s["act"], "args": s["args"]} for s in sample["steps"]]})
