"""C35 kadm group lag — Lag.tla as oracle (binding O1)."""
import os, json
from vlib import core
LEVEL = "exploration"


def run(ctx):
    d = ctx.specdir()
    out = os.path.join(d, "lag_cases.ndjson")
    inp = os.path.join(ctx.work, "cases.ndjson")
    if ctx.replay:
        core.write_ndjson(inp, [json.load(open(ctx.replay))["replay"]["case"]])
    else:
        rows = []
        for cfg in (["Lag_rand.cfg"] if ctx.tier == "quick" else ["Lag_rand.cfg", "Lag_pairs.cfg"]):
            ctx.tlc("Lag", cfg, workers=1, timeout=1500, heap="8g", tag=cfg[:-4], extra=["-seed", str(ctx.seed)])
            rows += core.read_ndjson(out)
        core.write_ndjson(inp, rows)
    rc, o = ctx.go_test("./c35/", run="TestOracle", env={"VERIF_IN": inp})
    res = ctx.go_results(o)
    stats = [r for r in res if r.get("kind") == "stat"]
    if len(stats) != 1:
        raise core.Infra("runner did not finish:\n" + o[-3000:])
    cases = core.read_ndjson(inp)
    ctx.cov["evaluations"] = stats[0]["evaluations"]
    ctx.cov["distinct_nontrivial"] = stats[0]["nontrivial"]
    ctx.cov["exhaustive"] = ctx.tier == "thorough"
    ctx.cov["rule"] = ("cases from Lag.tla: per partition (t1/0,t1/1,t2/0,t2/1) owner in {none,m1,m2} x commit in {none,error,0,3,9} x end in {missing,error,0,3,7} x start in {missing,error,0,3}; "
                       + ("6000 random 3-4 partition cases + every state of one partition against every covered state of a second (same and other topic), exhaustive" if ctx.tier == "thorough" else "6000 random 3-4 partition cases (seeded)")
                       + "; expected lag/err computed by TLC; evaluations = covered partitions compared (both functions); non-trivial = case with a positive or start-dependent lag")
    ctx.notes["cases"] = len(cases)
    for c in cases[:3]:
        ctx.sample(c)
    ctx.assumptions += ["partitions only listed (neither assigned nor committed) are outside the property and not asserted on (DESIGN.md F5)"]
    for v in res:
        if v.get("kind") == "viol":
            ctx.violation(v["key"], v["what"], {"case": cases[v["case"]]})
