"""C21 version negotiation — Negotiate.tla as oracle (binding O1) against a scripted raw broker."""
from vlib import core, oracle
LEVEL = "exploration"


def run(ctx):
    env = {"VERIF_STRIDE": 1}
    if ctx.tier == "thorough":
        env["VERIF_ALLKEYS"] = "1"
    cases, stats, _ = oracle.run_o1(ctx, "Negotiate", ["Negotiate.cfg"], "neg_cases.ndjson", "./c21/", gorun="TestOracle|TestNegotiateMirrorsSpec|TestPinned", env=env)
    st = {}
    for s in stats:
        st.update(s)
    if "pinned_evaluations" not in st or "evaluations" not in st or "mirror_checked" not in st:
        raise core.Infra("runner incomplete: %s" % st)
    ctx.cov["evaluations"] = st["evaluations"] + st["pinned_evaluations"]
    ctx.cov["distinct_nontrivial"] = st["nontrivial"]
    ctx.cov["exhaustive"] = ctx.tier == "thorough"
    ctx.cov["rule"] = ("Negotiate.tla over version levels 0..4 with the client maximum at level 3: every broker range [min,max] or the key missing from ApiVersions x user MinVersions absent/0..4 x user MaxVersions absent/0..4 (540 cases);"
                       " %s; the version in the request header read off the wire by a scripted raw broker (or nothing written + error);"
                       " after the first request the broker closes the connection and advertises a range one level lower on the next connection; the batched FindCoordinator flow (internal pins >=4 then <=3) on every case with a user maximum."
                       " non-trivial = result differs from the client maximum" % ("each case on one of Metadata/ListOffsets/FindCoordinator/CreateTopics/DescribeConfigs" if ctx.tier == "quick" else "every case on a representative key and on one further request key so that all request keys are used"))
    ctx.notes["runner"] = st
    ctx.sample(cases[7]); ctx.sample(cases[200])
    ctx.assumptions += ["pre-ApiVersions brokers (client pinned below 0.10) are not driven", "internal pins are exercised through FindCoordinator only (EndTxn <=4, OffsetCommit <=9 and OffsetFetch pins need coordinator state)"]
