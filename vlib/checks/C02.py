"""C02 idempotent producing: acked once at the promised offset, in order; failed absent — Idem.tla (design) + ProdTrace.tla log checks (binding V)."""
from vlib import dprod
LEVEL = "model_checking"


def run(ctx):
    dprod.run(ctx, "C02")
