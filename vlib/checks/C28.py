"""C28 partitioners — Partitioner.tla (murmur2/Kafka/Sarama oracle, O1) + PartSM.tla (state machines, trace validation V)."""
import os, re, json
from vlib import core, oracle
LEVEL = "model_checking"


def run(ctx):
    ctx.design("PartSM", "PartSM_mc.cfg", timeout=600)
    cases, stats, _ = oracle.run_o1(ctx, "Partitioner", ["Partitioner.cfg"], "part_cases.ndjson", "./c28/", gorun="TestOracle")
    d = ctx.specdir()
    trace = os.path.join(d, "part_trace.ndjson")
    depth, nmax = (5, 3) if ctx.tier == "quick" else (6, 4)
    rc, o = ctx.go_test("./c28/", run="TestTraces", env={"VERIF_OUT": trace, "VERIF_DEPTH": depth, "VERIF_NMAX": nmax})
    tst = [r for r in ctx.go_results(o) if r.get("kind") == "stat"]
    if not tst:
        raise core.Infra("trace driver did not finish:\n" + o[-2000:])
    # second pass: sparse partition counts, so the writable set shrinks/grows by more than one between calls
    trace2 = trace + ".2"
    rc, o2 = ctx.go_test("./c28/", run="TestTraces", env={"VERIF_OUT": trace2, "VERIF_DEPTH": 4 if ctx.tier == "quick" else 5, "VERIF_NSET": "1,2,6,12"})
    tst2 = [r for r in ctx.go_results(o2) if r.get("kind") == "stat"]
    if not tst2:
        raise core.Infra("trace driver (sparse) did not finish:\n" + o2[-2000:])
    with open(trace, "a") as f:
        f.write(open(trace2).read())
    os.remove(trace2)
    tst[0]["events"] += tst2[0]["events"]; tst[0]["traces"] += tst2[0]["traces"]; tst[0]["panics"] += tst2[0]["panics"]
    r = ctx.tlc("PartSMTrace", "PartSMTrace.cfg", workers=1, timeout=1500, heap="8g", tag="trace", allow_fail=True)
    acc = re.search(r'<<"ACCEPTED", (\d+), "drift", (\d+)>>', r.out)
    rej = re.search(r'<<"REJECTED-AT", (\d+), (".*")>>', r.out)
    if rej:
        line = int(rej.group(1))
        ev = json.loads(json.loads(rej.group(2)))
        rows = core.read_ndjson(trace)
        start = max(i for i in range(line) if rows[i]["ev"] == "reset")
        ctx.violation("partitioner out of range", "trace rejected at event %d: %s (trace %s)" % (line, ev, rows[start:line]), {"trace": rows[start:line]})
    elif not acc:
        raise core.Infra("trace validation gave no verdict:\n" + r.out[-2000:])
    ctx.cov["evaluations"] = stats[0]["evaluations"] + tst[0]["events"]
    ctx.cov["distinct_nontrivial"] = stats[0]["nontrivial"]
    ctx.cov["traces_validated_against_impl"] = tst[0]["traces"]
    ctx.cov["rule"] = ("(a) keys: all byte strings of length 0..4 over byte classes {00,61,7f,80,ff} and alternating strings of length 5..13, x n in {1,2,3,7,8,100,65536}: murmur2 and Kafka placement computed by TLC (anchored on Kafka's golden vectors);"
                       " Sarama/Kafka arithmetic on boundary hashes; (b) every sequence of %d operations over Partition(n<=%d)/OnNewBatch on sticky, sticky-key, round-robin, least-backup, uniform-bytes (+adaptive) and every sequence of %d operations over n in {1,2,6,12} (writable set shrinking by more than one) recorded and validated against PartSM.tla."
                       " non-trivial = keys longer than 3 bytes" % (depth, nmax, 4 if ctx.tier == "quick" else 5))
    ctx.notes["oracle"] = stats
    ctx.notes["traces"] = tst
    ctx.notes["drift_steps_in_range_but_not_pinned"] = int(acc.group(2)) if acc else None
    ctx.sample(cases[10]); ctx.sample(core.read_ndjson(trace)[:6])
