"""D-PROD pipeline shared by C01, C03, C14 (producer half) and C13 (producer scenarios)."""
import json, os
from vlib import core, tracev

REASONS = {
    "C02": ["idempotent producing"],
    "C01": ["promise called twice", "never produced", "never had its promise called", "not zero after all promises", "a Flush never returned",
            "a call never returned", "Close did not return", "record produced twice"],
    "C03": ["more records accepted", "more bytes accepted", "Flush returned nil before", "blocked although there was room", "counters differ",
            "bufferedRecords differs", "ErrMaxBuffered for a record", "block of a record", "unblock of a record", "admitted twice", "finish of a record", "Flush returned twice"],
    "C14": ["OnProduceRecordBuffered", "OnProduceRecordUnbuffered", "promise ran before OnProduceRecordUnbuffered"],
}


SHARED = {"every promise has run but BufferedProduceRecords is not zero": ("C01", "C03")}   # a clause two properties state


def owner(why, prop=None):
    for pat, props in SHARED.items():
        if pat in why:
            return prop if prop in props else props[0]
    for p, pats in REASONS.items():
        if any(x in why for x in pats):
            return p
    return "C01"


def run(ctx, prop, n=None):
    if prop == "C02":
        ctx.design("Idem", "Idem_mc.cfg", timeout=900)
    else:
        ctx.design("Admit", "Admit_mc.cfg", timeout=900)
    n = n or (400 if ctx.tier == "quick" else 4000)
    out = os.path.join(ctx.work, "prod_trace_raw.ndjson")
    if os.path.exists(out):
        os.remove(out)
    env = {"VERIF_OUT": out, "VERIF_N": n}
    if ctx.replay:
        sc = json.load(open(ctx.replay))["replay"]["scenario"]
        scf = os.path.join(ctx.work, "scenario.ndjson")
        core.write_ndjson(scf, [sc])
        env["VERIF_SCENARIOS"] = scf
    rc, o = ctx.go_test("./dprod/", run="TestScenarios", env=env, tags="verif,synctests", timeout=600)
    rows = core.read_ndjson(out) if os.path.exists(out) else []
    stats = [r for r in ctx.go_results(o) if r.get("kind") == "stat"]
    crashed = not stats
    if crashed and not rows:
        raise core.Infra("producer driver produced no events:\n" + o[-3000:])
    if crashed:
        # the driver died (a bubble whose goroutines are blocked forever panics the test binary): the last scenario never quiesced
        rows.append({"ev": "driver_failed", "seq": 0, "output": o[-1500:]})
    def mine_p(why):
        return any(owner(w, prop) == prop or (prop == "C01" and owner(w, prop) not in ("C02", "C03", "C14")) for w in why.split(" ;; "))
    accepted, rej = tracev.validate(ctx, "ProdTrace", "ProdTrace.cfg", "prod_trace.ndjson", rows, "prodtrace", max_rounds=24,
                                    foreign=lambda why: not mine_p(why), passive=("final_flush", "log"))
    mine = 0
    for s, line, whys, ev in rej:
        # an event can break clauses of several properties at once: report the ones this property states
        own = [w for w in whys.split(" ;; ") if mine_p(w)]
        if not own:
            continue
        why = own[0]
        mine += 1
        sc = json.loads(s[0]["scenario"]) if s and "scenario" in s[0] else None
        ctx.violation("producer: " + why, "%s (event %d of the scenario: %s)" % (why, line, json.dumps(ev)[:400]), {"scenario": sc, "trace_prefix": s[:line]})
    scen = tracev.split_scenarios(rows)
    ctx.cov["traces_validated_against_impl"] = accepted + len(rej)
    ctx.cov["evaluations"] = len(rows)
    ctx.notes["events"] = len(rows)
    ctx.notes["scenarios_rejected_any_property"] = len(rej)
    ctx.notes["rejection_reasons_any_property"] = sorted({w for _, _, why, _ in rej for w in why.split(" ;; ")})
    ctx.notes["event_counts"] = {}
    for r in rows:
        ctx.notes["event_counts"][r["ev"]] = ctx.notes["event_counts"].get(r["ev"], 0) + 1
    ctx.cov["distinct_nontrivial"] = sum(1 for s in scen if any(e["ev"] in ("prod.block", "fault", "abort_call", "purge") for e in s))
    ctx.cov["rule"] = ("seeded scenarios (3-20 steps of Produce/TryProduce/ProduceSync on existing, unknown and missing topics, context cancels, Flush with/without deadline, AbortBufferedRecords, purge,"
                       " faults: response dropped after the broker handled the request, connection killed, retriable/fatal codes, stalls; MaxBufferedRecords 1-3, optional byte limit, linger, manual flushing; always Close)"
                       " run on kgo+kfake in a synctest bubble; every event validated against ProdTrace.tla. non-trivial = scenario with blocking, faults, abort or purge")
    if scen:
        ctx.sample([{k: v for k, v in e.items() if k != "scenario"} for e in scen[0][:25]])
    return rows
