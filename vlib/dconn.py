"""D-CONN pipeline (C22): Conn.tla (+ mutant), then scenarios validated by ConnTrace.tla."""
import json, os, re
from vlib import core, tracev


def run(ctx):
    ctx.design("Conn", "Conn.cfg", timeout=900, tag="conn_design")
    m = ctx.tlc("Conn", "Conn_mut.cfg", workers=4, timeout=600, tag="conn_mutant", allow_fail=True)
    ctx.notes["design_mutant_no_correlation_check_rejected"] = bool(m.violated)
    n = 600 if ctx.tier == "quick" else 20000
    out = os.path.join(ctx.work, "conn_trace_raw.ndjson")
    if os.path.exists(out):
        os.remove(out)
    env = {"VERIF_OUT": out, "VERIF_N": n}
    if ctx.replay:
        sc = json.load(open(ctx.replay))["replay"]["scenario"]
        scf = os.path.join(ctx.work, "scenario.ndjson")
        core.write_ndjson(scf, [sc])
        env["VERIF_SCENARIOS"] = scf
    rc, o = ctx.go_test("./dconn/", run="TestScenarios", env=env, tags="verif,synctests", timeout=1500)
    rows = core.read_ndjson(out) if os.path.exists(out) else []
    stats = [r for r in ctx.go_results(o) if r.get("kind") == "stat"]
    if not stats and not rows:
        raise core.Infra("conn driver produced no events:\n" + o[-3000:])
    if not stats:
        # the test binary died. Only a panic raised inside the client itself is the real code's behaviour (e.g. a request answered
        # twice closes a channel twice); anything else (harness panic, blocked bubble) is no verdict
        m = re.search(r"^panic: (.*)$", o, re.M)
        frames = [f.rsplit("(", 1)[0] for f in re.findall(r"^(github\.com/twmb/franz-go/pkg/kgo\.[^\n]*)", o[m.end():] if m else "", re.M)][:4]
        if not (m and frames and "test timed out" not in m.group(1)):
            raise core.Infra("conn driver died without a panic inside kgo:\n" + o[-3000:])
        rows.append({"ev": "driver_failed", "seq": 0, "panic": m.group(1), "in": frames, "output": o[-600:]})
    accepted, rej = tracev.validate(ctx, "ConnTrace", "ConnTrace.cfg", "conn_trace.ndjson", rows, "conntrace")
    for s, line, why, ev in rej:
        sc = json.loads(s[0]["scenario"]) if s and "scenario" in s[0] else None
        ctx.violation("conn: %s" % why, "%s (event %d of the scenario: %s)" % (why, line, json.dumps(ev)[:500]), {"scenario": sc, "trace_prefix": s[:line]})
    scen = tracev.split_scenarios(rows)
    ctx.cov["traces_validated_against_impl"] = accepted + len(rej)
    ctx.cov["evaluations"] = len(rows)
    beh, bad = {}, 0
    for s_ in scen:
        hostile = False
        for e in s_:
            if e["ev"] == "broker_send":
                beh[e["behaviour"]] = beh.get(e["behaviour"], 0) + 1
                hostile = hostile or e["behaviour"] not in ("ok",)
        bad += 1 if hostile else 0
    ctx.notes["broker_behaviours"] = beh
    ctx.cov["distinct_nontrivial"] = bad
    ctx.cov["rule"] = ("seeded scenarios: 2-8 DescribeGroups requests issued concurrently (1-3 waves) on one broker connection of the real client; a scripted raw broker answers what has arrived immediately or in batches (pipelining)"
                       " following a per-request script: ok, throttled, wrong correlation id, two answers swapped, frame truncated then closed, frame delivered in two parts, oversized / negative / 2-byte size prefix, well-framed garbage,"
                       " close without answer, no answer at all, silence on the whole connection from some request on; optionally one request cancelled; callback counts, completion times (virtual) and the payload bytes held by each caller after all later reads validated against ConnTrace.tla."
                       " non-trivial = scenario with a non-ok answer")
    if scen:
        ctx.sample([{k: v for k, v in e.items()} for e in scen[0]][:8])
    return rows
