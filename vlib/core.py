"""Common plumbing for /verif checks: TLC runs, Go harness runs, evidence, verdicts.

Verdict policy (DESIGN.md section 7):
  exit 0  property held on everything explored (KNOWN-FINDING lines allowed)
  exit 1  VIOLATION property=<id> replay=<path>   (only from real-code behaviour)
  exit 2  infrastructure trouble (build failure, TLC crash/timeout, dead driver, spec bug)
"""
import json, os, re, shutil, subprocess, sys, time, hashlib

VERIF = os.path.dirname(os.path.dirname(os.path.abspath(__file__)))
REPO = os.environ.get("VERIF_REPO", "/repo")
SPEC = os.path.join(VERIF, "spec")
HARNESS = os.path.join(VERIF, "harness")
JAR = "/opt/veriftools/tla/tla2tools.jar:/opt/veriftools/tla/CommunityModules-deps.jar"


class Infra(Exception):
    pass


def goenv(extra=None):
    e = dict(os.environ)
    e["GOFLAGS"] = "-mod=mod"
    e["GOPROXY"] = "off"
    e.pop("GOSUMDB", None)
    e.pop("GOTOOLCHAIN", None)
    e["VERIF_REPO"] = REPO
    if extra:
        e.update({k: str(v) for k, v in extra.items()})
    return e


class TLCResult:
    def __init__(self, rc, out):
        self.rc, self.out = rc, out
        m = re.findall(r"(\d+) states generated, (\d+) distinct states found", out)
        self.generated = int(m[-1][0]) if m else 0
        self.distinct = int(m[-1][1]) if m else 0
        self.violated = None
        m = re.search(r"Invariant (\S+) is violated", out)
        if m:
            self.violated = m.group(1)
        m2 = re.search(r"Temporal properties were violated", out)
        if m2:
            self.violated = self.violated or "temporal"
        if re.search(r"Action property (\S+)", out) and "is violated" in out:
            self.violated = self.violated or "action-property"
        self.deadlock = "Deadlock reached" in out
        self.error = None
        if "Error:" in out and not self.violated and not self.deadlock:
            i = out.index("Error:")
            self.error = out[i:i + 1500]
        self.ok = (rc == 0 and not self.violated and not self.deadlock and not self.error)
        self.depth = 0
        m = re.search(r"The depth of the complete state graph search is (\d+)", out)
        if m:
            self.depth = int(m.group(1))

    def coverage_zero(self):
        """actions never taken, from -coverage 1 output"""
        z = []
        for m in re.finditer(r"<(\w+) line \d+, col \d+ to line \d+, col \d+ of module (\w+)>: (\d+):(\d+)", self.out):
            if m.group(3) == "0" and m.group(4) == "0":
                z.append(m.group(1))
        return sorted(set(z))

    def action_counts(self):
        c = {}
        for m in re.finditer(r"<(\w+) line \d+, col \d+ to line \d+, col \d+ of module (\w+)>: (\d+):(\d+)", self.out):
            c[m.group(1)] = c.get(m.group(1), 0) + int(m.group(4))
        return c


class Ctx:
    def __init__(self, pid, tier, seed, level, replay=None):
        self.id, self.tier, self.seed, self.level = pid, tier, seed, level
        self.t0 = time.time()
        self.work = os.path.join(VERIF, ".work", pid)
        shutil.rmtree(self.work, ignore_errors=True)
        os.makedirs(self.work, exist_ok=True)
        self.replays = os.path.join(VERIF, "replays", pid)
        os.makedirs(self.replays, exist_ok=True)
        self.replay = replay
        for f in os.listdir(self.replays):   # replay files of an earlier run of this tier are stale
            if f.startswith(tier + "_") and not replay:
                os.remove(os.path.join(self.replays, f))
        self.cov = {"evaluations": 0, "distinct_nontrivial": 0, "rule": "", "samples": [],
                    "states": 0, "transitions": 0, "traces_validated_against_impl": 0}
        self.assumptions = []
        self.viol = []      # (key, what, replay_path)
        self.known_hit = []
        self.notes = {}
        kf = os.path.join(VERIF, "known_findings.json")
        self.known = json.load(open(kf)).get("findings", []) if os.path.exists(kf) else []

    # ---------------------------------------------------------------- TLC
    def specdir(self):
        d = os.path.join(self.work, "spec")
        if not os.path.isdir(d):
            shutil.copytree(SPEC, d)
        return d

    def tlc(self, module, cfg=None, workers=1, timeout=600, simulate=None, depth=None, coverage=False,
            extra=(), env=None, deadlock=True, tag=None, dfs=False, heap=None, allow_fail=False):
        d = self.specdir()
        tag = tag or (cfg or module).replace(".cfg", "")
        meta = os.path.join(self.work, "meta_" + tag)
        shutil.rmtree(meta, ignore_errors=True)
        jtmp = os.path.join(self.work, "jtmp")   # SANY's scratch directories: keep them out of /tmp and with the run
        os.makedirs(jtmp, exist_ok=True)
        jopts = ["-XX:+UseParallelGC", "-Djava.io.tmpdir=" + jtmp]
        if heap:
            jopts.append("-Xmx" + heap)
        jopts.append("-Xss64m")
        if dfs:
            jopts.append("-Dtlc2.tool.queue.IStateQueue=StateDeque")
        cmd = ["timeout", str(timeout), "java"] + jopts + ["-cp", JAR, "tlc2.TLC", "-workers", str(workers),
               "-metadir", meta, "-noGenerateSpecTE"]
        if cfg:
            cmd += ["-config", cfg]
        if not deadlock:
            cmd += ["-deadlock"]
        if simulate:
            cmd += ["-simulate", simulate]
            cmd += ["-seed", str(self.seed)]
        if depth:
            cmd += ["-depth", str(depth)]
        if coverage:
            cmd += ["-coverage", "1"]
        cmd += list(extra) + [module + ".tla"]
        e = dict(os.environ)
        e.pop("JAVA_TOOL_OPTIONS", None)
        if env:
            e.update({k: str(v) for k, v in env.items()})
        p = subprocess.run(cmd, cwd=d, env=e, stdout=subprocess.PIPE, stderr=subprocess.STDOUT, text=True)
        open(os.path.join(self.work, "tlc_%s.log" % tag), "w").write(p.stdout)
        shutil.rmtree(meta, ignore_errors=True)
        shutil.rmtree(jtmp, ignore_errors=True)
        if p.returncode == 124:
            raise Infra("TLC timeout (%ss) on %s/%s" % (timeout, module, cfg))
        r = TLCResult(p.returncode, p.stdout)
        if not allow_fail and not r.ok:
            raise Infra("TLC failed on %s/%s: rc=%s violated=%s deadlock=%s err=%s\n%s" % (
                module, cfg, p.returncode, r.violated, r.deadlock, r.error, p.stdout[-3000:]))
        return r

    def design(self, module, cfg, **kw):
        """Run an exhaustive design-level model-checking job; failure of the unmodified spec is exit 2."""
        kw.setdefault("workers", 16 if self.tier == "thorough" else 8)
        r = self.tlc(module, cfg, **kw)
        self.cov["states"] += r.distinct
        self.cov["transitions"] += r.generated
        self.notes.setdefault("tlc_jobs", []).append(
            {"module": module, "cfg": cfg, "distinct": r.distinct, "generated": r.generated, "depth": r.depth})
        return r

    # ---------------------------------------------------------------- Go
    def go_test(self, pkg, run=None, tags="verif", env=None, timeout=900, race=False, count=1, args=()):
        cmd = ["timeout", str(timeout + 30), "go", "test", "-v", "-vet=off", "-count=%d" % count, "-timeout", "%ds" % timeout]
        if tags:
            cmd += ["-tags", tags]
        if race:
            cmd += ["-race"]
        if run:
            cmd += ["-run", run]
        cmd += [pkg] + list(args)
        e = goenv(env)
        e["VERIF_SEED"] = str(self.seed)
        e["VERIF_TIER"] = self.tier
        e["VERIF_WORK"] = self.work
        def build_failed(out):
            return "[build failed]" in out or "[setup failed]" in out or bool(re.search(r"^# ", out, re.M) and "FAIL" in out and "--- FAIL" not in out)
        p = subprocess.run(cmd, cwd=HARNESS, env=e, stdout=subprocess.PIPE, stderr=subprocess.STDOUT, text=True)
        if build_failed(p.stdout) and re.search(r"no such file or directory|is not in std|too many open files|cannot allocate|resource temporarily", p.stdout):
            # the shared build cache / toolchain tree was momentarily unreadable (seen under heavy concurrent load): one retry
            time.sleep(5)
            p = subprocess.run(cmd, cwd=HARNESS, env=e, stdout=subprocess.PIPE, stderr=subprocess.STDOUT, text=True)
        log = os.path.join(self.work, "go_%s_%s.log" % (pkg.strip("./").replace("/", "_"), (run or "all").strip("^$").replace("|", "_")[:40]))
        open(log, "w").write(p.stdout)
        if build_failed(p.stdout):
            raise Infra("go build failed for %s:\n%s" % (pkg, p.stdout[-3000:]))
        if p.returncode == 124 or "panic: test timed out after" in p.stdout:
            raise Infra("go test timeout for %s %s" % (pkg, run))
        return p.returncode, p.stdout

    def go_results(self, out):
        """Lines '@@ {json}' printed by harness tests."""
        res = []
        for line in out.splitlines():
            i = line.find("@@ ")
            if i >= 0:
                try:
                    res.append(json.loads(line[i + 3:]))
                except Exception:
                    pass
        return res

    # ---------------------------------------------------------------- verdicts
    def sample(self, s, cap=6):
        if len(self.cov["samples"]) < cap:
            self.cov["samples"].append(s)

    def violation(self, key, what, replay):
        """Record a real-code violation. key identifies the specific failing input/site/history."""
        for k in self.known:
            if k.get("property") == self.id and k.get("status", "known") == "known" and re.fullmatch(k["key"], key):
                if k["key"] not in [h["key"] for h in self.known_hit]:
                    self.known_hit.append(k)
                return False
        h = hashlib.sha1(key.encode()).hexdigest()[:10]
        path = os.path.join(self.replays, "%s_%s.json" % ("replayed" if self.replay else self.tier, h))
        json.dump({"property": self.id, "key": key, "what": what, "replay": replay, "seed": self.seed, "tier": self.tier},
                  open(path, "w"), indent=1, default=str)
        if len(self.viol) < 50:
            self.viol.append((key, what, path))
        return True

    def finish(self):
        wall = time.time() - self.t0
        cov = dict(self.cov)
        cov.update(self.notes)
        if not cov["samples"]:
            raise Infra("no samples recorded: the check explored nothing")
        if self.level != "model_checking" or not cov.get("states") or not cov.get("transitions"):
            for k in ("states", "transitions", "traces_validated_against_impl"):
                if not cov.get(k):
                    cov.pop(k, None)
        ev = {"property_id": self.id, "tier": self.tier, "seed": self.seed, "level": self.level,
              "coverage": cov, "assumptions": self.assumptions, "wall_s": round(wall, 2),
              "violations": len(self.viol),
              "known_findings_reproduced": [k["key"] for k in self.known_hit]}
        os.makedirs(os.path.join(VERIF, "evidence"), exist_ok=True)
        json.dump(ev, open(os.path.join(VERIF, "evidence", self.id + ".json"), "w"), indent=1, default=str)
        for k in self.known_hit:
            print("KNOWN-FINDING: property=%s %s" % (self.id, k["what"]))
        for key, what, path in self.viol[:10]:
            print("VIOLATION property=%s replay=%s" % (self.id, path))
            print("  what: %s" % what[:600])
        print("%s %s tier=%s seed=%d evaluations=%d distinct=%d states=%d traces=%d wall=%.1fs" % (
            self.id, "FAIL" if self.viol else "ok", self.tier, self.seed, cov.get("evaluations", 0),
            cov.get("distinct_nontrivial", 0), cov.get("states", 0) or 0, cov.get("traces_validated_against_impl", 0) or 0, wall))
        return 1 if self.viol else 0


def read_ndjson(path):
    out = []
    with open(path) as f:
        for line in f:
            line = line.strip()
            if line:
                out.append(json.loads(line))
    return out


def write_ndjson(path, rows):
    with open(path, "w") as f:
        for r in rows:
            f.write(json.dumps(r, separators=(",", ":")) + "\n")


# ---------------------------------------------------------------- TLA value parser (for -dump dot / simulate files)
class _P:
    def __init__(self, s):
        self.s, self.i = s, 0

    def ws(self):
        while self.i < len(self.s) and self.s[self.i] in " \t\r\n":
            self.i += 1

    def peek(self, t):
        self.ws()
        return self.s.startswith(t, self.i)

    def eat(self, t):
        self.ws()
        if not self.s.startswith(t, self.i):
            raise ValueError("expected %r at %d: %r" % (t, self.i, self.s[self.i:self.i + 40]))
        self.i += len(t)

    def val(self):
        self.ws()
        s = self.s
        c = s[self.i]
        if c == '"':
            j = self.i + 1
            buf = []
            while s[j] != '"':
                if s[j] == "\\":
                    j += 1
                buf.append(s[j])
                j += 1
            self.i = j + 1
            return "".join(buf)
        if s.startswith("<<", self.i):
            self.i += 2
            out = []
            if self.peek(">>"):
                self.eat(">>")
                return out
            while True:
                out.append(self.val())
                if self.peek(","):
                    self.eat(",")
                else:
                    break
            self.eat(">>")
            return out
        if c == "{":
            self.i += 1
            out = []
            if self.peek("}"):
                self.eat("}")
                return {"#set": out}
            while True:
                out.append(self.val())
                if self.peek(","):
                    self.eat(",")
                else:
                    break
            self.eat("}")
            return {"#set": out}
        if c == "[":
            self.i += 1
            out = {}
            while True:
                self.ws()
                m = re.compile(r"[A-Za-z_][A-Za-z0-9_]*").match(s, self.i)
                if not m:
                    raise ValueError("record field expected at %d: %r" % (self.i, s[self.i:self.i + 40]))
                self.i = m.end()
                self.eat("|->")
                out[m.group(0)] = self.val()
                if self.peek(","):
                    self.eat(",")
                else:
                    break
            self.eat("]")
            return out
        if c == "(":
            # function (k :> v @@ k :> v)
            self.i += 1
            out = {}
            while True:
                k = self.val()
                self.eat(":>")
                v = self.val()
                out[k if isinstance(k, str) else json.dumps(k)] = v
                if self.peek("@@"):
                    self.eat("@@")
                else:
                    break
            self.eat(")")
            return out
        m = re.compile(r"-?\d+").match(s, self.i)
        if m:
            self.i = m.end()
            return int(m.group(0))
        m = re.compile(r"[A-Za-z_][A-Za-z0-9_]*").match(s, self.i)
        if m:
            self.i = m.end()
            w = m.group(0)
            return True if w == "TRUE" else False if w == "FALSE" else w
        raise ValueError("cannot parse at %d: %r" % (self.i, s[self.i:self.i + 40]))


def parse_tla_value(s):
    p = _P(s)
    v = p.val()
    return v


def parse_tla_state(text):
    """'/\\ x = 1\n/\\ y = <<>>' -> {x:1,y:[]}"""
    st = {}
    parts = re.split(r"(?:^|\n)\s*/\\ ", "\n" + text.strip())
    for part in parts:
        part = part.strip()
        if not part:
            continue
        m = re.match(r"([A-Za-z_][A-Za-z0-9_]*) = ", part)
        if not m:
            continue
        st[m.group(1)] = parse_tla_value(part[m.end():])
    return st


def parse_dot(path):
    """TLC -dump dot,actionlabels: returns (states{id:dict}, edges[(src,dst,label)], init ids)."""
    states, edges, inits = {}, [], []
    txt = open(path).read()
    for m in re.finditer(r'^(-?\d+) \[label="(.*?)"(,style = filled)?\];?$', txt, re.M):
        lab = m.group(2).replace("\\n", "\n").replace('\\"', '"').replace("\\\\", "\\")
        states[m.group(1)] = parse_tla_state(lab)
        if m.group(3):
            inits.append(m.group(1))
    for m in re.finditer(r'^(-?\d+) -> (-?\d+) \[label="(.*?)"', txt, re.M):
        edges.append((m.group(1), m.group(2), m.group(3)))
    return states, edges, inits


def main(fn, pid, level):
    import argparse
    ap = argparse.ArgumentParser()
    ap.add_argument("--tier", default=os.environ.get("VERIF_TIER", "quick"))
    ap.add_argument("--replay", default=None)
    a = ap.parse_args(sys.argv[2:])
    seed = int(os.environ.get("VERIF_SEED", "1") or 1)
    ctx = Ctx(pid, a.tier, seed, level, replay=os.path.abspath(a.replay) if a.replay else None)
    try:
        fn(ctx)
        rc = ctx.finish()
    except Infra as e:
        print("INFRA-ERROR %s: %s" % (pid, e))
        rc = 2
    sys.exit(rc)
