"""D-CLOSE pipeline (C13): design model Close.tla (+ its hanging mutant), then scenarios validated by CloseTrace.tla."""
import json, os
from vlib import core, tracev


def run(ctx):
    ctx.design("Close", "Close.cfg", workers=4, timeout=600, tag="close_design")
    m = ctx.tlc("Close", "Close_mut.cfg", workers=4, timeout=600, tag="close_mutant", allow_fail=True)
    ctx.notes["design_mutant_StopFailsInflight_FALSE_rejected"] = bool(m.violated) or "violated" in m.out
    n = 150 if ctx.tier == "quick" else 10000
    out = os.path.join(ctx.work, "close_trace_raw.ndjson")
    if os.path.exists(out):
        os.remove(out)
    env = {"VERIF_OUT": out, "VERIF_N": n}
    if ctx.replay:
        sc = json.load(open(ctx.replay))["replay"]["scenario"]
        scf = os.path.join(ctx.work, "scenario.ndjson")
        core.write_ndjson(scf, [sc])
        env["VERIF_SCENARIOS"] = scf
    rc, o = ctx.go_test("./dclose/", run="TestScenarios", env=env, tags="verif,synctests", timeout=1500)
    rows = core.read_ndjson(out) if os.path.exists(out) else []
    stats = [r for r in ctx.go_results(o) if r.get("kind") == "stat"]
    if not stats and not rows:
        raise core.Infra("close driver produced no events:\n" + o[-3000:])
    if not stats:
        rows.append({"ev": "driver_failed", "seq": 0, "output": o[-1500:]})
    accepted, rej = tracev.validate(ctx, "CloseTrace", "CloseTrace.cfg", "close_trace.ndjson", rows, "closetrace")
    for s, line, why, ev in rej:
        sc = json.loads(s[0]["scenario"]) if s and "scenario" in s[0] else None
        ctx.violation("close: " + why, "%s (event %d of the scenario: %s)" % (why, line, json.dumps(ev)[:500]), {"scenario": sc, "trace_prefix": s[:line]})
    scen = tracev.split_scenarios(rows)
    ctx.cov["traces_validated_against_impl"] = accepted + len(rej)
    ctx.cov["evaluations"] = len(rows)
    kinds = {}
    worst = 0
    for s in scen:
        sc = json.loads(s[0]["scenario"]) if "scenario" in s[0] else {}
        k = "%s/%s%s%s" % (sc.get("brokers"), "group" if sc.get("group") else "direct", "+txn" if sc.get("txn") else "", "+blockreb" if sc.get("blockRebalanceOnPoll") else "")
        kinds[k] = kinds.get(k, 0) + 1
        for e in s:
            if e["ev"] == "close_ret":
                worst = max(worst, e["ms"])
    ctx.notes["scenario_kinds"] = kinds
    ctx.notes["slowest_close_virtual_ms"] = worst
    ctx.cov["distinct_nontrivial"] = sum(1 for s in scen if '"steps":[]' not in s[0].get("scenario", "") and '"steps":null' not in s[0].get("scenario", ""))
    ctx.cov["rule"] = ("seeded scenarios: a client that produces and consumes (group consumer in 2/3, BlockRebalanceOnPoll in a third of those with the poll possibly held, transactional in a quarter) runs 0-7 random steps"
                       " (produce, poll, flush, sleep, a second member joining) and is closed with brokers responsive, stalled for 5 minutes on every request kind, vanished, or refusing connections;"
                       " Close (CloseAllowingRebalance when the poll is held) must return within 240 virtual seconds, afterwards promises/polls/goroutine dump are checked. non-trivial = scenario with at least one step before Close")
    if scen:
        ctx.sample([{k: v for k, v in e.items()} for e in scen[0]][:8])
    return rows
