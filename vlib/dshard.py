"""D-SHARD pipeline (C23): Shard.tla (+ mutant), then scenarios validated by ShardTrace.tla."""
import json, os
from vlib import core, tracev


def run(ctx):
    ctx.design("Shard", "Shard.cfg", timeout=900, tag="shard_design")
    m = ctx.tlc("Shard", "Shard_mut.cfg", workers=4, timeout=600, tag="shard_mutant", allow_fail=True)
    ctx.notes["design_mutant_ReissueParent_rejected"] = bool(m.violated)
    n = 400 if ctx.tier == "quick" else 40000
    out = os.path.join(ctx.work, "shard_trace_raw.ndjson")
    if os.path.exists(out):
        os.remove(out)
    env = {"VERIF_OUT": out, "VERIF_N": n}
    if ctx.replay:
        sc = json.load(open(ctx.replay))["replay"]["scenario"]
        scf = os.path.join(ctx.work, "scenario.ndjson")
        core.write_ndjson(scf, [sc])
        env["VERIF_SCENARIOS"] = scf
    rc, o = ctx.go_test("./dshard/", run="TestScenarios", env=env, tags="verif,synctests", timeout=1500)
    rows = core.read_ndjson(out) if os.path.exists(out) else []
    stats = [r for r in ctx.go_results(o) if r.get("kind") == "stat"]
    if not stats and not rows:
        raise core.Infra("shard driver produced no events:\n" + o[-3000:])
    if not stats:
        rows.append({"ev": "driver_failed", "seq": 0, "output": o[-1500:]})
    accepted, rej = tracev.validate(ctx, "ShardTrace", "ShardTrace.cfg", "shard_trace.ndjson", rows, "shardtrace")
    for s, line, why, ev in rej:
        sc = json.loads(s[0]["scenario"]) if s and "scenario" in s[0] else None
        kind = sc["kind"] if sc else "?"
        ctx.violation("shard %s: %s" % (kind, why), "%s: %s (event %d of the scenario: %s)" % (kind, why, line, json.dumps(ev)[:500]), {"scenario": sc, "trace_prefix": s[:line]})
    scen = tracev.split_scenarios(rows)
    ctx.cov["traces_validated_against_impl"] = accepted + len(rej)
    ctx.cov["evaluations"] = len(rows)
    kinds, retried = {}, 0
    for s in scen:
        sc = json.loads(s[0]["scenario"]) if "scenario" in s[0] else {}
        k = "%s/%s" % (sc.get("kind"), sc.get("fault"))
        kinds[k] = kinds.get(k, 0) + 1
        if sc.get("fault") != "none":
            retried += 1
    ctx.notes["scenario_kinds"] = kinds
    ctx.cov["distinct_nontrivial"] = retried
    ctx.cov["rule"] = ("seeded scenarios: cluster of 1-5 brokers, 2 topics x 4 partitions; one of 11 sharded request kinds (ListOffsets, OffsetForLeaderEpoch, DeleteRecords, DescribeProducers, DescribeGroups, DeleteGroups, OffsetFetch,"
                       " FindCoordinator, DescribeTransactions, ListGroups, ListTransactions) over a random item set incl. an unknown topic / a partition that does not exist; after warming the client's caches:"
                       " no fault, the responses of the next 1-2 requests of that kind lost, leaders shuffled and coordinators rehashed (stale view), or both; RequestSharded and Request each observed; validated against ShardTrace.tla."
                       " non-trivial = scenario with a fault")
    if scen:
        ctx.sample([{k: v for k, v in e.items()} for e in scen[0]][:8])
    return rows
