"""D-GROUP pipeline shared by C07, C08 (mode members) and C09 (mode commits)."""
import json, os
from vlib import core, tracev

REASONS = {
    "C07": ["assigned to a member while another member", "not owned by exactly one member"],
    "C08": ["covers records that were not", "below the group's final committed offset"],
    "C09": ["out of issue order", "last successful commit", "CommittedOffsets does not report"],
}


def owner(why):
    for p, pats in REASONS.items():
        if any(x in why for x in pats):
            return p
    return "C07"


def run(ctx, prop, n=None):
    if prop in ("C07",):
        ctx.design("Coop", "Coop_mc.cfg", timeout=1500)
        # hand-over design model: eager / cooperative / next-gen protocols, and the mutant that reports a revocation too early
        for proto in ("eager", "cooperative", "nextgen"):
            ctx.design("GroupHandover", "GroupHandover_%s.cfg" % proto, timeout=900, tag="handover_" + proto)
        m = ctx.tlc("GroupHandover", "GroupHandover_mut.cfg", workers=4, timeout=600, tag="handover_mutant", allow_fail=True)
        ctx.notes["design_mutant_ack_before_revoke_ends_rejected"] = bool(m.violated)
    if prop == "C08":
        # autocommit design model: head-only commits (tick, default revoke, commits still travelling at a hand-over, killed members)
        ctx.design("AutoCommit", "AutoCommit.cfg", timeout=900, tag="autocommit")
        m = ctx.tlc("AutoCommit", "AutoCommit_mut.cfg", workers=4, timeout=600, tag="autocommit_mutant", allow_fail=True)
        ctx.notes["design_mutant_commit_dirty_rejected"] = bool(m.violated)
    if prop == "C09":
        # commit chaining design model: the code's policy (wait for the previous commit) keeps arrival order and last-wins;
        # the two mutants (cancel the previous commit / do not chain) and the user-cancellation boundary are rejected by TLC
        ctx.design("CommitChain", "CommitChain_big.cfg" if ctx.tier == "thorough" else "CommitChain.cfg", timeout=900, tag="commitchain")
        for cfg, note in (("CommitChain_mut.cfg", "design_mutant_cancel_prior_commit_rejected"),
                          ("CommitChain_mut2.cfg", "design_mutant_unchained_commits_rejected"),
                          ("CommitChain_usercancel.cfg", "design_boundary_user_cancel_in_flight_can_reorder")):
            m = ctx.tlc("CommitChain", cfg, workers=4, timeout=600, tag=cfg[:-4], allow_fail=True)
            ctx.notes[note] = bool(m.violated)
    mode = "commits" if prop == "C09" else "members"
    n = n or ((150 if mode == "members" else 300) if ctx.tier == "quick" else (1500 if mode == "members" else 3000))
    out = os.path.join(ctx.work, "group_trace_raw.ndjson")
    if os.path.exists(out):
        os.remove(out)
    env = {"VERIF_OUT": out, "VERIF_N": n, "VERIF_MODE": mode}
    if ctx.replay:
        sc = json.load(open(ctx.replay))["replay"]["scenario"]
        scf = os.path.join(ctx.work, "scenario.ndjson")
        core.write_ndjson(scf, [sc])
        env["VERIF_SCENARIOS"] = scf
    rc, o = ctx.go_test("./dgroup/", run="TestScenarios", env=env, tags="verif,synctests", timeout=900)
    rows = core.read_ndjson(out) if os.path.exists(out) else []
    stats = [r for r in ctx.go_results(o) if r.get("kind") == "stat"]
    if not stats and not rows:
        raise core.Infra("group driver produced no events:\n" + o[-3000:])
    if not stats:
        rows.append({"ev": "driver_failed", "seq": 0, "output": o[-1500:]})
    accepted, rej = tracev.validate(ctx, "GroupTrace", "GroupTrace.cfg", "group_trace.ndjson", rows, "grouptrace")
    for s, line, why, ev in rej:
        p = owner(why)
        if p != prop and not (prop == "C07" and p not in ("C08", "C09")):
            continue
        sc = json.loads(s[0]["scenario"]) if s and "scenario" in s[0] else None
        keep = [e for e in s[:line] if e["ev"] not in ("poll_start",)][-60:]
        ctx.violation("group: " + why, "%s (event %d of the scenario: %s)" % (why, line, json.dumps(ev)[:500]), {"scenario": sc, "trace_prefix": keep})
    scen = tracev.split_scenarios(rows)
    ctx.cov["traces_validated_against_impl"] = accepted + len(rej)
    ctx.cov["evaluations"] = len(rows)
    cnt = {}
    for r in rows:
        cnt[r["ev"]] = cnt.get(r["ev"], 0) + 1
    ctx.notes["event_counts"] = cnt
    ctx.notes["scenarios_rejected_any_property"] = len(rej)
    ctx.notes["rejection_reasons_any_property"] = sorted({why for _, _, why, _ in rej})
    if mode == "members":
        ctx.cov["distinct_nontrivial"] = sum(1 for s in scen if sum(1 for e in s if e["ev"] == "revoke_begin" and e["parts"]) >= 1)
        ctx.cov["rule"] = ("seeded membership scenarios on kgo+kfake in a synctest bubble: up to 4 members join, close or leave at arbitrary points, topics are added to subscriptions, records keep being produced;"
                           " eager (range, sticky), cooperative-sticky and KIP-848 groups; slow revoke callbacks (0/5/40 ms); PollRecords(1..4) loops with default autocommit (150 ms) and default revoke handling;"
                           " callbacks, polls, OffsetCommit arrivals at the coordinator and final committed offsets validated against GroupTrace.tla. non-trivial = scenario in which some member had partitions revoked")
    else:
        ctx.cov["distinct_nontrivial"] = sum(1 for s in scen if any(e["ev"] in ("fault", "commit_rejected") for e in s))
        ctx.cov["rule"] = ("seeded commit scenarios: one member issues 3-5 commits with increasing offsets through CommitOffsets, CommitOffsetsSync, CommitRecords, some with contexts cancelled after 20-120 ms,"
                           " while the coordinator answers some with COORDINATOR_LOAD_IN_PROGRESS / NOT_COORDINATOR or stalls; arrival order at kfake, completion results, final committed offset and CommittedOffsets validated against GroupTrace.tla."
                           " non-trivial = scenario with an injected coordinator fault")
    if scen:
        ctx.sample([{k: v for k, v in e.items() if k != "scenario"} for e in scen[0] if e["ev"] not in ("poll_start", "poll_ret")][:25])
    return rows
