"""KLog.tla case generation shared by C06 (fetch parsing) and C32 (kfake as a log): TLC enumerates every history of the
log state machine within the bounds and prints, per reached state, the log and the Fetch table (returned batches, aborted
list, consumer view, next offset) computed by the specification."""
import json, os, re
from vlib import core


def generate(ctx, cfg, tag, timeout=1500):
    r = ctx.tlc("KLog", cfg, workers=1, timeout=timeout, heap="8g", tag=tag)
    rows = []
    for m in re.finditer(r'^<<"CASE", (".*")>>$', r.out, re.M):
        rows.append(json.loads(json.loads(m.group(1))))
    if not rows:
        raise core.Infra("KLog generated no cases:\n" + r.out[-2000:])
    return rows, r
