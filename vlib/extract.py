"""Copies kernel source files out of the current /repo working tree with their synchronisation primitives
rewritten to harness/ctl (DESIGN.md 2.2, binding R). A file that no longer matches the expected shape is an
infrastructure error (exit 2), never a verdict."""
import os, re
from vlib import core


def _sub(s, pat, rep, what, count=0, required=True):
    n = len(re.findall(pat, s))
    if n == 0 and required:
        raise core.Infra("extractor: cannot find %s in the current source (the file changed shape)" % what)
    return re.sub(pat, rep, s, count=count)


def ring():
    src = open(os.path.join(core.REPO, "pkg/kgo/ring.go")).read()
    s = _sub(src, r"^package kgo$", "package ringx", "package clause", required=True) if False else src.replace("package kgo\n", "package ringx\n", 1)
    s = _sub(s, r'import \(\n(?:.*\n)*?\)\n', 'import "verif/harness/ctl"\n', "import block", count=1)
    s = _sub(s, r"xsync\.Mutex", "ctl.Mutex", "xsync.Mutex")
    s = _sub(s, r"\*sync\.Cond", "*ctl.Cond", "*sync.Cond")
    s = _sub(s, r"sync\.NewCond\(", "ctl.NewCond(", "sync.NewCond")
    s = _sub(s, r"const minRingCap = (\d+)", r"var minRingCap = \1", "minRingCap constant")
    if re.search(r"\bsync\.|\bxsync\.|\batomic\.", s):
        raise core.Infra("extractor: ring.go uses a synchronisation primitive the rewriter does not know")
    out = os.path.join(core.HARNESS, "ringx", "ring_extracted.go")
    open(out, "w").write("// Code generated from pkg/kgo/ring.go by vlib/extract.py; DO NOT EDIT.\n" + s)
    return out


def workloop():
    src = open(os.path.join(core.REPO, "pkg/kgo/atomic_maybe_work.go")).read()
    s = src.replace("package kgo\n", "package wlx\n", 1)
    s = _sub(s, r'import "sync/atomic"\n', 'import (\n\t"sync/atomic"\n\n\t"verif/harness/ctl"\n)\n', "atomic import", count=1)
    s = _sub(s, r"type workLoop struct\{ state atomic\.Uint32 \}", "type workLoop struct{ state ctl.Uint32 }", "workLoop struct")
    out = os.path.join(core.HARNESS, "wlx", "workloop_extracted.go")
    open(out, "w").write("// Code generated from pkg/kgo/atomic_maybe_work.go by vlib/extract.py; DO NOT EDIT.\n" + s)
    return out
