"""Copies kernel source files out of the current /repo working tree with their synchronisation primitives
rewritten to harness/ctl (DESIGN.md 2.2, binding R). A file that no longer matches the expected shape is an
infrastructure error (exit 2), never a verdict."""
import os, re
from vlib import core


def _sub(s, pat, rep, what, count=0, required=True):
    n = len(re.findall(pat, s))
    if n == 0 and required:
        raise core.Infra("extractor: cannot find %s in the current source (the file changed shape)" % what)
    return re.sub(pat, rep, s, count=count)


def ring():
    src = open(os.path.join(core.REPO, "pkg/kgo/ring.go")).read()
    s = _sub(src, r"^package kgo$", "package ringx", "package clause", required=True) if False else src.replace("package kgo\n", "package ringx\n", 1)
    s = _sub(s, r'import \(\n(?:.*\n)*?\)\n', 'import "verif/harness/ctl"\n', "import block", count=1)
    s = _sub(s, r"xsync\.Mutex", "ctl.Mutex", "xsync.Mutex")
    s = _sub(s, r"\*sync\.Cond", "*ctl.Cond", "*sync.Cond")
    s = _sub(s, r"sync\.NewCond\(", "ctl.NewCond(", "sync.NewCond")
    s = _sub(s, r"const minRingCap = (\d+)", r"var minRingCap = \1", "minRingCap constant")
    if re.search(r"\bsync\.|\bxsync\.|\batomic\.", s):
        raise core.Infra("extractor: ring.go uses a synchronisation primitive the rewriter does not know")
    out = os.path.join(core.HARNESS, "ringx", "ring_extracted.go")
    open(out, "w").write("// Code generated from pkg/kgo/ring.go by vlib/extract.py; DO NOT EDIT.\n" + s)
    return out


def workloop():
    src = open(os.path.join(core.REPO, "pkg/kgo/atomic_maybe_work.go")).read()
    s = src.replace("package kgo\n", "package wlx\n", 1)
    s = _sub(s, r'import "sync/atomic"\n', 'import (\n\t"sync/atomic"\n\n\t"verif/harness/ctl"\n)\n', "atomic import", count=1)
    s = _sub(s, r"type workLoop struct\{ state atomic\.Uint32 \}", "type workLoop struct{ state ctl.Uint32 }", "workLoop struct")
    out = os.path.join(core.HARNESS, "wlx", "workloop_extracted.go")
    open(out, "w").write("// Code generated from pkg/kgo/atomic_maybe_work.go by vlib/extract.py; DO NOT EDIT.\n" + s)
    return out


def pollgate():
    src = open(os.path.join(core.REPO, "pkg/kgo/consumer.go")).read()
    names = ["waitAndAddPoller", "unaddPoller", "allowRebalance", "waitAndAddRebalance", "waitAndAddRebalanceSilent",
             "waitAndAddRebalanceMaybeSignal", "unaddRebalance"]
    out = ['// Code generated from pkg/kgo/consumer.go (poll-gate methods) by vlib/extract.py; DO NOT EDIT.', 'package gatex', '',
           'import (', '\t"context"', '\t"math"', '', '\t"verif/harness/ctl"', ')', '',
           '// stand-ins for the parts of Client / cfg the gate methods touch',
           'type cfgStub struct {', '\tblockRebalanceOnPoll bool', '\tonBlocked            func(context.Context, *clientStub)', '}',
           'type clientStub struct {', '\tcfg cfgStub', '\tctx context.Context', '}',
           'type consumer struct {', '\tcl            *clientStub', '\tpollWaitMu    ctl.Mutex', '\tpollWaitC     *ctl.Cond', '\tpollWaitState uint64', '}', '',
           'var _ = math.MaxUint32', '']
    for n in names:
        m = re.search(r"^func \(c \*consumer\) %s\((?:.*?)\) \{\n(?:.*\n)*?\}\n" % n, src, re.M)
        if not m:
            raise core.Infra("extractor: poll-gate method %s not found in consumer.go" % n)
        body = m.group(0)
        if re.search(r"\bsync\.|\batomic\.|\bxsync\.|<-|\bchan\b", body):
            raise core.Infra("extractor: poll-gate method %s uses a primitive the rewriter does not know" % n)
        out.append(body)
    if not re.search(r"pollWaitState uint64", src) or not re.search(r"c\.pollWaitC = sync\.NewCond\(&c\.pollWaitMu\)", src):
        raise core.Infra("extractor: poll-gate state declaration changed shape")
    p = os.path.join(core.HARNESS, "gatex", "gate_extracted.go")
    open(p, "w").write("\n".join(out))
    return p


def xmutex():
    src = open(os.path.join(core.REPO, "pkg/kgo/internal/xsync/synctest_mutex.go")).read()
    s = _sub(src, r"^//go:build synctests\n\n", "", "build tag", count=1)
    s = s.replace("package xsync\n", "package xmx\n", 1)
    s = _sub(s, r'import "sync"\n', 'import (\n\t"sync"\n\n\t"verif/harness/ctl"\n)\n', "sync import", count=1)
    s = _sub(s, r"chan struct\{\}\n", "*ctl.Chan\n", "channel-typed fields")
    # channel creation: filled at creation / empty
    s = _sub(s, r"(?m)^(\s*)([\w.]+) = make\(chan struct\{\}, 1\)\n\s*\2 <- struct\{\}\{\}\n", lambda m: '%s%s = ctl.NewChanFull("%s")\n' % (m.group(1), m.group(2), m.group(2).split(".")[-1]), "filled channel creation")
    s = _sub(s, r"(?m)^(\s*)([\w.]+) = make\(chan struct\{\}, 1\)\n", lambda m: '%s%s = ctl.NewChan("%s")\n' % (m.group(1), m.group(2), m.group(2).split(".")[-1]), "empty channel creation")
    # select with default, one case

    def sel(m):
        ind, recv, send, body1, body2 = m.group(1), m.group(3), m.group(4), m.group(5), m.group(6)
        call = "%s.TryRecv()" % recv if recv else "%s.TrySend()" % send
        outer = ind[:-1] if ind.endswith("\t") else ind
        return "%sif %s {\n%s%s} else {\n%s%s}\n" % (outer, call, body1, outer, body2, outer)
    s = _sub(s, r"(?m)^[ \t]*select \{\n([ \t]*)case (<-([\w.]+)|([\w.]+) <- struct\{\}\{\}):\n((?:.*\n)*?)\1default:\n((?:.*\n)*?)[ \t]*\}\n", sel, "select-with-default")
    s = _sub(s, r"(?m)^(\s*)<-([\w.]+)$", r"\1\2.Recv()", "blocking receives")
    s = _sub(s, r"(?m)^(\s*)([\w.]+) <- struct\{\}\{\}$", r"\1\2.Send()", "blocking sends")
    if re.search(r"<-|\bselect\b|\bchan\b", s):
        raise core.Infra("extractor: synctest_mutex.go has a channel operation the rewriter does not know")
    out = os.path.join(core.HARNESS, "xmx", "xmutex_extracted.go")
    open(out, "w").write("// Code generated from pkg/kgo/internal/xsync/synctest_mutex.go by vlib/extract.py; DO NOT EDIT.\n" + s)
    return out
