"""Walks over a TLC state graph dumped with -dump dot,actionlabels: edge-covering behaviours for replay (binding R)."""
import re, collections, random
from vlib import core


def parse_dot(path):
    states, edges, inits = {}, [], []
    node_re = re.compile(r'^(-?\d+) \[label="(.*?)"(,style = filled)?(,tooltip=".*")?\];?$')
    edge_re = re.compile(r'^(-?\d+) -> (-?\d+) \[label="(.*?)",color')
    for line in open(path):
        line = line.rstrip("\n")
        m = edge_re.match(line)
        if m:
            edges.append((m.group(1), m.group(2), m.group(3).replace('\\"', '"')))
            continue
        m = node_re.match(line)
        if m:
            if m.group(1) in states:
                continue
            lab = m.group(2).replace("\\n", "\n").replace('\\"', '"').replace("\\\\", "\\")
            states[m.group(1)] = core.parse_tla_state(lab)
            if m.group(3):
                inits.append(m.group(1))
    return states, edges, inits


def parse_label(lab):
    m = re.match(r"(\w+)(?:\((.*)\))?$", lab)
    name, args = m.group(1), []
    if m.group(2):
        args = [a.strip().strip('"') for a in m.group(2).split(",")]
    return name, args


def edge_cover(states, edges, inits, seed=1, max_walks=None, max_len=200):
    """Returns walks (lists of edge indexes) that together cover every edge; each starts at an initial state."""
    rnd = random.Random(seed)
    out = collections.defaultdict(list)
    for i, (u, v, lab) in enumerate(edges):
        if u != v or True:
            out[u].append(i)
    # BFS tree from the initial states for shortest prefixes
    parent = {}
    dq = collections.deque(inits)
    seen = set(inits)
    while dq:
        u = dq.popleft()
        for ei in out[u]:
            v = edges[ei][1]
            if v not in seen:
                seen.add(v)
                parent[v] = ei
                dq.append(v)

    def prefix(u):
        p = []
        while u in parent:
            ei = parent[u]
            p.append(ei)
            u = edges[ei][0]
        return p[::-1]
    uncovered = set(range(len(edges)))
    order = list(range(len(edges)))
    rnd.shuffle(order)
    walks = []
    for ei in order:
        if ei not in uncovered:
            continue
        if edges[ei][0] not in seen:
            uncovered.discard(ei)
            continue
        w = prefix(edges[ei][0]) + [ei]
        uncovered.difference_update(w)
        u = edges[ei][1]
        while len(w) < max_len:
            cand = [x for x in out[u] if x in uncovered]
            if not cand:
                break
            x = rnd.choice(cand)
            w.append(x)
            uncovered.discard(x)
            u = edges[x][1]
        walks.append(w)
        if max_walks and len(walks) >= max_walks:
            break
    return walks


def random_walks(states, edges, inits, n, seed=1, max_len=200):
    rnd = random.Random(seed)
    out = collections.defaultdict(list)
    for i, (u, v, lab) in enumerate(edges):
        out[u].append(i)
    walks = []
    for _ in range(n):
        u = rnd.choice(inits)
        w = []
        while len(w) < max_len and out[u]:
            x = rnd.choice(out[u])
            w.append(x)
            u = edges[x][1]
        walks.append(w)
    return walks


def export(states, edges, walks, project):
    """walks -> list of behaviours: {init: projected state, steps: [{act, args, state}]}"""
    res = []
    for w in walks:
        if not w:
            continue
        init = edges[w[0]][0]
        steps = []
        for ei in w:
            u, v, lab = edges[ei]
            name, args = parse_label(lab)
            steps.append({"act": name, "args": args, "state": project(states[v])})
        res.append({"init": project(states[init]), "steps": steps})
    return res
