"""Generic binding R driver: dump a TLC state graph, export edge-covering + random walks, replay them in a Go test."""
import json, os
from vlib import core, graph


def replay_graph(ctx, module, cfgf, project, gopkg, gocfg, tag, label, max_cover=None, nrandom=300, timeout=1500, tags="", explore=0):
    d = ctx.specdir()
    g = os.path.join(d, tag + "_graph")
    r = ctx.design(module, cfgf, timeout=timeout, extra=["-dump", "dot,actionlabels", g], tag=tag, heap="8g")
    states, edges, inits = graph.parse_dot(g + ".dot")
    if len(states) != r.distinct:
        raise core.Infra("%s: parsed %d states of %d" % (tag, len(states), r.distinct))
    walks = graph.edge_cover(states, edges, inits, seed=ctx.seed, max_walks=max_cover)
    walks += graph.random_walks(states, edges, inits, nrandom, seed=ctx.seed)
    behs = graph.export(states, edges, walks, project)
    inp = os.path.join(ctx.work, tag + "_behs.ndjson")
    core.write_ndjson(inp, behs)
    cfgp = os.path.join(ctx.work, tag + "_cfg.json")
    json.dump(gocfg, open(cfgp, "w"))
    rc, o = ctx.go_test(gopkg, run="TestReplay", env={"VERIF_IN": inp, "VERIF_CFG": cfgp}, tags=tags)
    res = ctx.go_results(o)
    stats = [x for x in res if x.get("kind") == "stat"]
    if not stats:
        raise core.Infra("%s replayer did not finish:\n%s" % (tag, o[-3000:]))
    ctx.notes.setdefault("replays", []).append({"spec": module, "config": cfgf, "states": len(states), "edges": len(edges),
                                                "edges_replayed": len({ei for w in walks for ei in w}), "behaviours": len(behs), "steps": stats[0]["steps"]})
    semantic, nsched = 0, 0
    if explore:
        # shape-independent exploration of the same system: the specification's invariants on what is observable, under
        # pseudo-random schedules that the specification does not steer
        rc, o2 = ctx.go_test(gopkg, run="TestExplore", env={"VERIF_CFG": cfgp, "VERIF_N": explore}, tags=tags, timeout=timeout)
        res2 = ctx.go_results(o2)
        st2 = [x for x in res2 if x.get("kind") == "stat"]
        if not st2:
            raise core.Infra("%s exploration did not finish:\n%s" % (tag, o2[-3000:]))
        ctx.notes.setdefault("explorations", []).append(dict(st2[0], config=cfgf))
        nsched = st2[0]["schedules"]
        for v in res2:
            if v.get("kind") == "viol":
                if v["key"] == "infra":
                    raise core.Infra("%s exploration: %s" % (tag, v["what"]))
                semantic += 1
                ctx.violation(label + " " + v["key"], "[%s] %s" % (tag, v["what"]), {"config": cfgf, "schedule": v.get("schedule")})
    shape = []
    for v in res:
        if v.get("kind") == "viol":
            if v["key"] == "infra":
                raise core.Infra("%s replay: %s" % (tag, v["what"]))
            b = behs[v["case"]]
            if explore and v["key"].startswith("shape "):
                shape.append(v)
                if not semantic:
                    continue
            ctx.violation(label + " " + v["key"], "[%s] %s" % (tag, v["what"]), {"config": cfgf, "behaviour": {"init": b["init"], "steps": b["steps"][:v["step"] + 1]}})
    if shape and not semantic:
        # the code keeps the specification's invariants under every explored schedule but no longer takes the specification's
        # steps: the specification has to be re-aligned before behaviours can be replayed. Not a verdict.
        raise core.Infra("%s: the code no longer takes the specification's steps (%s); no invariant was broken in %d random schedules" % (tag, shape[0]["what"], nsched))
    return len(behs), stats[0]["steps"], behs
