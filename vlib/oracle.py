"""Shared driver for O1 checks: TLC writes cases (inputs + expected) to an ndjson file, a Go test compares real code."""
import os, json
from vlib import core


def run_o1(ctx, module, cfgs, outfile, gopkg, gorun="TestOracle", env=None, heap="8g", timeout=1500, key=lambda v: v["key"], dedup=None, goarg_env="VERIF_IN", tags="verif"):
    d = ctx.specdir()
    out = os.path.join(d, outfile)
    inp = os.path.join(ctx.work, "cases.ndjson")
    if getattr(ctx, "replay", None):
        core.write_ndjson(inp, [json.load(open(ctx.replay))["replay"]["case"]])
    else:
        rows = []
        for cfg in cfgs:
            ctx.tlc(module, cfg, workers=1, timeout=timeout, heap=heap, tag=cfg[:-4], extra=["-seed", str(ctx.seed)])
            rows += core.read_ndjson(out)
        if dedup:
            seen, u = set(), []
            for r in rows:
                k = dedup(r)
                if k not in seen:
                    seen.add(k)
                    u.append(r)
            rows = u
        core.write_ndjson(inp, rows)
    e = {goarg_env: inp}
    e.update(env or {})
    rc, o = ctx.go_test(gopkg, run=gorun, env=e, tags=tags)
    res = ctx.go_results(o)
    stats = [r for r in res if r.get("kind") == "stat"]
    if not stats:
        raise core.Infra("runner did not finish:\n" + o[-3000:])
    cases = core.read_ndjson(inp)
    for v in res:
        if v.get("kind") == "viol":
            c = cases[v["case"]] if isinstance(v.get("case"), int) and 0 <= v["case"] < len(cases) else None
            ctx.violation(key(v), v["what"], {"case": c, "detail": v})
    return cases, stats, res
