"""Shared pipeline for C25/C26/C27: Balancer.tla generates situations, the Go runner produces plans, TLC judges them."""
import json, os, re
from vlib import core


def run(ctx, prop):
    d = ctx.specdir()
    n = 3000 if ctx.tier == "quick" else 40000
    inputs = os.path.join(d, "bal_inputs.ndjson")
    rowsf = os.path.join(d, "bal_rows.ndjson")
    if ctx.replay:
        core.write_ndjson(inputs, [json.load(open(ctx.replay))["replay"]["row"]["in"]])
    else:
        open(os.path.join(d, "Balancer_gen_run.cfg"), "w").write(
            'INIT Init\nNEXT Next\nCONSTANTS Mode = "gen" Seed = %d N = %d InFile = "x" OutFile = "bal_inputs.ndjson"\n' % (ctx.seed, n))
        ctx.tlc("Balancer", "Balancer_gen_run.cfg", workers=1, timeout=900, heap="8g", tag="gen")
    rc, o = ctx.go_test("./c25/", run="TestRun", env={"VERIF_IN": inputs, "VERIF_OUT": rowsf})
    stats = [r for r in ctx.go_results(o) if r.get("kind") == "stat"]
    if not stats:
        raise core.Infra("runner did not finish:\n" + o[-3000:])
    r = ctx.tlc("Balancer", "Balancer_eval.cfg", workers=1, timeout=3000, heap="12g", tag="eval")
    m = re.search(r'<<"STATS", (".*")>>', r.out)
    tstats = json.loads(json.loads(m.group(1))) if m else {}
    bad = core.read_ndjson(os.path.join(d, "bal_bad.ndjson"))
    rows = core.read_ndjson(rowsf)
    mine = []
    for b in bad:
        for why in b["why"]:
            if why.startswith(prop):
                mine.append((rows[b["row"] - 1], why))
    return rows, mine, stats[0], tstats


def report(ctx, rows, mine):
    for row, why in mine:
        nm = len(row["in"]["members"])
        known = {t["t"] for t in row["in"]["topics"]}
        subsets = {tuple(sorted(set(m["subs"]) & known)) for m in row["in"]["members"]}
        key = "%s %s racks=%s subscriptions=%s style=%s" % (why, row["balancer"], "yes" if row["in"]["prack"] else "no", "equal" if len(subsets) == 1 else "uneven", row["in"]["style"])
        ctx.violation(key, "%s violated by %s on input %s -> plan %s %s" % (why, row["balancer"], json.dumps(row["in"]), json.dumps(row["plan"]), row.get("err", "")), {"row": row})
