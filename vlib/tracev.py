"""Shared binding V driver: run a Go scenario driver, validate the recorded traces with a TLA+ trace spec.

A trace file is a concatenation of scenarios, each starting with a 'reset' event. TLC stops at the first event the
specification cannot take; that scenario is reported, removed, and validation continues with the rest."""
import json, os, re
from vlib import core


def split_scenarios(rows):
    out, cur = [], []
    for r in rows:
        if r.get("ev") == "reset" and cur:
            out.append(cur)
            cur = []
        cur.append(r)
    if cur:
        out.append(cur)
    return out


def validate(ctx, module, cfg, tracefile_name, rows, tag, max_rounds=12, timeout=1800, foreign=None, passive=()):
    """returns (accepted_scenarios, rejections[(scenario_rows, line_in_scenario, why, event)])
    foreign(why) -> True for a clause that belongs to another property; if the rejected event is in `passive` (an observation that does
    not update the trace specification's state) only that event is taken out and the rest of the scenario is still validated, so that a
    clause of this property later in the same scenario is not masked."""
    d = ctx.specdir()
    scen = split_scenarios(rows)
    rejections = []
    accepted = 0
    for rnd in range(max_rounds):
        flat = [r for s in scen for r in s]
        if not flat:
            break
        core.write_ndjson(os.path.join(d, tracefile_name), flat)
        r = ctx.tlc(module, cfg, workers=1, timeout=timeout, heap="8g", tag="%s_%d" % (tag, rnd), allow_fail=True)
        ctx.cov["states"] += r.distinct
        ctx.cov["transitions"] += r.generated
        m = re.search(r'<<\s*"REJECTED-AT",\s*(\d+),\s*"((?:[^"\\]|\\.)*)",\s*("(?:[^"\\]|\\.)*")\s*>>', r.out, re.S)
        if m:
            line = int(m.group(1))
            why = m.group(2)
            ev = json.loads(json.loads(m.group(3)))
            # locate the scenario
            k = 0
            for i, s in enumerate(scen):
                if line <= k + len(s):
                    rejections.append((s, line - k, why, ev))
                    accepted += i
                    if foreign and foreign(why) and ev.get("ev") in passive:
                        scen = [s[:line - k - 1] + s[line - k:]] + scen[i + 1:]
                    else:
                        scen = scen[i + 1:]
                    break
                k += len(s)
            continue
        if re.search(r'<<"ACCEPTED", \d+', r.out):
            accepted += len(scen)
            if r.violated:
                raise core.Infra("%s: invariant %s violated in an accepted trace:\n%s" % (module, r.violated, r.out[-2500:]))
            return accepted, rejections
        if r.violated:
            raise core.Infra("%s: invariant %s violated:\n%s" % (module, r.violated, r.out[-3000:]))
        raise core.Infra("%s: trace validation gave no verdict:\n%s" % (module, r.out[-3000:]))
    if scen:
        # rejections (of whatever property) used up every round: what is left was not validated in this run
        ctx.notes["scenarios_not_validated_after_%d_rejections" % max_rounds] = len(scen)
    return accepted, rejections
