// Package c12 (range builder part): every case of spec/AckRanges.tla is run through kgo's buildAckRanges (via the
// verif-tagged shim) and the produced batches compared with the specification.
package c12

import (
	"fmt"
	"os"
	"testing"

	"github.com/twmb/franz-go/pkg/kgo"
	"verif/harness/raw"
)

type Gap struct {
	First int64 `json:"first"`
	Last  int64 `json:"last"`
}
type Want struct {
	Off  int64 `json:"off"`
	Type int8  `json:"type"`
}
type Case struct {
	Entries []int64 `json:"entries"`
	Status  []int8  `json:"status"`
	Gaps    []Gap   `json:"gaps"`
	EStamp  int     `json:"estamp"`
	GStamp  int     `json:"gstamp"`
	Want    []Want  `json:"want"`
}

func TestOracle(t *testing.T) {
	cases, err := raw.ReadNDJSON[Case](os.Getenv("VERIF_IN"))
	if err != nil {
		t.Fatal(err)
	}
	evals, nontrivial := 0, 0
	for ci, c := range cases {
		evals++
		if len(c.Gaps) > 0 && len(c.Entries) > 0 {
			nontrivial++
		}
		var es []kgo.VerifAckEntry
		for _, o := range c.Entries {
			es = append(es, kgo.VerifAckEntry{Offset: o, Status: c.Status[o], Stamp: c.EStamp})
		}
		var gs []kgo.VerifAckRange
		for _, g := range c.Gaps {
			gs = append(gs, kgo.VerifAckRange{First: g.First, Last: g.Last, Type: 0, Stamp: c.GStamp})
		}
		out, _ := kgo.VerifBuildAckRanges(es, gs)
		desc := fmt.Sprintf("entries (insertion order) %v with status %v, gaps %v -> batches %v", c.Entries, c.Status, c.Gaps, out)
		// ascending, non-overlapping
		bad := ""
		for i, r := range out {
			if r.First > r.Last {
				bad = fmt.Sprintf("batch %d has first > last", i)
			}
			if i > 0 && r.First <= out[i-1].Last {
				bad = fmt.Sprintf("batch %d [%d,%d] does not lie above batch %d [%d,%d]: not in ascending, non-overlapping order", i, r.First, r.Last, i-1, out[i-1].First, out[i-1].Last)
				break
			}
		}
		if bad != "" {
			raw.Emit(map[string]any{"kind": "viol", "key": "ack ranges not ascending", "what": bad + ": " + desc, "case": ci})
			continue
		}
		// content: every offset exactly its type and stamp
		got := map[int64]kgo.VerifAckRange{}
		dup := false
		for _, r := range out {
			for o := r.First; o <= r.Last; o++ {
				if _, ok := got[o]; ok {
					dup = true
				}
				got[o] = r
			}
		}
		okc := !dup && len(got) == len(c.Want)
		for _, w := range c.Want {
			r, ok := got[w.Off]
			stamp := c.EStamp
			if w.Type == 0 {
				stamp = c.GStamp
			}
			if !ok || r.Type != w.Type || r.Stamp != stamp {
				okc = false
			}
		}
		if !okc {
			raw.Emit(map[string]any{"kind": "viol", "key": "ack ranges content", "what": fmt.Sprintf("batches do not carry exactly the pending acknowledgements %v: %s", c.Want, desc), "case": ci})
		}
	}
	raw.Emit(map[string]any{"kind": "stat", "evaluations": evals, "nontrivial": nontrivial})
}
