package c24

// Table dump for C24 (binding O2): everything is read through the public APIs and written as ndjson;
// the consistency predicates live in spec/Tables.tla and are evaluated by TLC.

import (
	"encoding/json"
	"errors"
	"os"
	"reflect"
	"strings"
	"testing"

	"github.com/twmb/franz-go/pkg/kerr"
	"github.com/twmb/franz-go/pkg/kmsg"
	"github.com/twmb/franz-go/pkg/kversion"
	"verif/harness/raw"
)

func tname(v any, suffix string) string {
	return strings.TrimSuffix(reflect.TypeOf(v).Elem().Name(), suffix)
}

func TestDump(t *testing.T) {
	f, err := os.Create(os.Getenv("VERIF_OUT"))
	if err != nil {
		t.Fatal(err)
	}
	defer f.Close()
	enc := json.NewEncoder(f)
	rows := 0
	for c := -32768; c <= 32767; c++ {
		row := map[string]any{"kind": "err", "code": c, "isnil": false, "ecode": 0, "named": false}
		func() {
			defer func() {
				if r := recover(); r != nil { // a lookup that panics is a row that violates every predicate
					row["ecode"] = -9998
					row["isnil"] = false
				}
			}()
			e := kerr.ErrorForCode(int16(c))
			row["isnil"] = e == nil
			var ke *kerr.Error
			if errors.As(e, &ke) {
				row["ecode"] = int(ke.Code)
				row["named"] = ke.Message != "" && ke.Description != ""
				// typed lookup and IsRetriable must agree with the table entry
				if te := kerr.TypedErrorForCode(int16(c)); te == nil || te.Code != ke.Code || kerr.IsRetriable(e) != ke.Retriable {
					row["ecode"] = -9999
				}
			} else if e != nil {
				row["ecode"] = -9999
			}
		}()
		enc.Encode(row)
		rows++
	}
	for k := -32768; k <= 32767; k++ {
		req, resp := kmsg.RequestForKey(int16(k)), kmsg.ResponseForKey(int16(k))
		row := map[string]any{"kind": "key", "key": k, "hasReq": req != nil, "hasResp": resp != nil, "name": kmsg.NameForKey(int16(k)),
			"reqKey": -1, "respKey": -1, "reqMax": -1, "respMax": -1, "reqMin": -1, "respMin": -1, "reqName": "", "respName": "", "respOfReqKey": -1, "respOfReqMax": -1}
		if req != nil {
			row["reqKey"], row["reqMax"], row["reqName"] = int(req.Key()), int(req.MaxVersion()), tname(req, "Request")
			if m, ok := req.(interface{ MinVersion() int16 }); ok {
				row["reqMin"] = int(m.MinVersion())
			}
			rk := req.ResponseKind()
			row["respOfReqKey"], row["respOfReqMax"] = int(rk.Key()), int(rk.MaxVersion())
		}
		if resp != nil {
			row["respKey"], row["respMax"], row["respName"] = int(resp.Key()), int(resp.MaxVersion()), tname(resp, "Response")
			if m, ok := resp.(interface{ MinVersion() int16 }); ok {
				row["respMin"] = int(m.MinVersion())
			}
		}
		enc.Encode(row)
		rows++
	}
	rels := map[string]*kversion.Versions{"Stable": kversion.Stable(), "Tip": kversion.Tip()}
	for _, s := range kversion.VersionStrings() {
		rels[s] = kversion.FromString(s)
	}
	for name, fn := range namedReleases {
		rels[name] = fn()
	}
	nrel := 0
	for name, vs := range rels {
		if vs == nil {
			continue
		}
		nrel++
		vs.EachMaxKeyVersion(func(k, v int16) {
			row := map[string]any{"kind": "ver", "release": name, "key": int(k), "max": int(v), "codecMax": -1}
			if req := kmsg.RequestForKey(k); req != nil {
				row["codecMax"] = int(req.MaxVersion())
			}
			enc.Encode(row)
			rows++
		})
	}
	raw.Emit(map[string]any{"kind": "stat", "rows": rows, "releases": nrel})
}

var namedReleases = map[string]func() *kversion.Versions{
	"V0_8_0": kversion.V0_8_0, "V0_8_1": kversion.V0_8_1, "V0_8_2": kversion.V0_8_2, "V0_9_0": kversion.V0_9_0,
	"V0_10_0": kversion.V0_10_0, "V0_10_1": kversion.V0_10_1, "V0_10_2": kversion.V0_10_2, "V0_11_0": kversion.V0_11_0,
	"V1_0_0": kversion.V1_0_0, "V1_1_0": kversion.V1_1_0, "V2_0_0": kversion.V2_0_0, "V2_1_0": kversion.V2_1_0,
	"V2_2_0": kversion.V2_2_0, "V2_3_0": kversion.V2_3_0, "V2_4_0": kversion.V2_4_0, "V2_5_0": kversion.V2_5_0,
	"V2_6_0": kversion.V2_6_0, "V2_7_0": kversion.V2_7_0, "V2_8_0": kversion.V2_8_0, "V3_0_0": kversion.V3_0_0,
	"V3_1_0": kversion.V3_1_0, "V3_2_0": kversion.V3_2_0, "V3_3_0": kversion.V3_3_0, "V3_4_0": kversion.V3_4_0,
	"V3_5_0": kversion.V3_5_0, "V3_6_0": kversion.V3_6_0, "V3_7_0": kversion.V3_7_0, "V3_8_0": kversion.V3_8_0,
	"V3_9_0": kversion.V3_9_0, "V4_0_0": kversion.V4_0_0, "V4_1_0": kversion.V4_1_0, "V4_2_0": kversion.V4_2_0,
}
