package dgroup

// D-GROUP: scenario driver for the group-consumer properties.
//   mode "members": C07 (no partition owned by two members at once; eventually every partition owned once) and
//                   C08 (default autocommit never covers records that were not returned and followed by another poll)
//   mode "commits": C09 (commits take effect in issue order; final committed value = last successful commit)
// Real kgo group members run against kfake in a synctest bubble; callbacks, polls, commit arrivals at the coordinator
// (kfake observer) and final committed offsets are recorded and validated by TLC against spec/GroupTrace.tla.

import (
	"context"
	"encoding/json"
	"errors"
	"fmt"
	"math/rand"
	"os"
	"sort"
	"sync"
	"sync/atomic"
	"testing"
	"testing/synctest"
	"time"

	"github.com/twmb/franz-go/pkg/kadm"
	"github.com/twmb/franz-go/pkg/kerr"
	"github.com/twmb/franz-go/pkg/kfake"
	"github.com/twmb/franz-go/pkg/kgo"
	"github.com/twmb/franz-go/pkg/kmsg"
	"verif/harness/raw"
	"verif/harness/sim"
)

type Step struct {
	Op     string `json:"op"` // join | close | leave | produce | sleep | addtopic | commit | fault
	M      int    `json:"m,omitempty"`
	N      int    `json:"n,omitempty"`
	Ms     int    `json:"ms,omitempty"`
	Kind   string `json:"kind,omitempty"` // commit: async | sync | records | uncommitted ; fault: loading | stall | notcoord
	Off    int64  `json:"off,omitempty"`
	Cancel int    `json:"cancel,omitempty"` // cancel the commit's context after this many ms (0 = never)
}
type Scenario struct {
	Seed     int64  `json:"seed"`
	Mode     string `json:"mode"`
	Proto    string `json:"proto"` // range | sticky | coop | 848
	RevokeMs int    `json:"revokeMs"`
	PollN    int    `json:"pollN"`
	BothT    bool   `json:"bothTopics"` // members subscribe to a and b from the start (else b is added later by addtopic)
	ProcMs   int    `json:"procMs"`     // how long a member "processes" a non-empty poll before polling again
	Steps    []Step `json:"steps"`
	// Auto (mode commits): autocommit stays on; an autocommit that was answered with a retriable code is waiting for its
	// retry when the application commits a later position synchronously
	Auto bool `json:"auto,omitempty"`
}

const nparts = 3

func gen(seed int64, tier, mode string) Scenario {
	r := rand.New(rand.NewSource(seed))
	sc := Scenario{Seed: seed, Mode: mode, Proto: []string{"range", "sticky", "coop", "coop", "848"}[r.Intn(5)], RevokeMs: []int{0, 5, 40, 3000, 9000}[r.Intn(5)], PollN: 1 + r.Intn(4), BothT: r.Intn(3) != 0, ProcMs: []int{3, 3, 300, 1500}[r.Intn(4)]}
	if mode == "commits" {
		sc.Proto = []string{"range", "coop", "848"}[r.Intn(3)]
		sc.ProcMs = 3
		if r.Intn(4) == 0 {
			sc.Auto = true
			sc.Proto = []string{"range", "coop"}[r.Intn(2)]
			sc.PollN = 5
			sc.Steps = append(sc.Steps, Step{Op: "join", M: 1}, Step{Op: "sleep", Ms: 600}, Step{Op: "produce", N: 5}, Step{Op: "sleep", Ms: 300},
				Step{Op: "fault", Kind: []string{"loading", "notcoord"}[r.Intn(2)]}, Step{Op: "sleep", Ms: []int{550, 700, 900}[r.Intn(3)]},
				Step{Op: "produce", N: 5}, Step{Op: "sleep", Ms: []int{120, 300, 500}[r.Intn(3)]},
				Step{Op: "commit", M: 1, Kind: []string{"records", "sync"}[r.Intn(2)], Off: 10}, Step{Op: "sleep", Ms: 4000})
			return sc
		}
		sc.Steps = append(sc.Steps, Step{Op: "join", M: 1}, Step{Op: "produce", N: 12}, Step{Op: "sleep", Ms: 300})
		n := 3 + r.Intn(3)
		// every commit of the scenario carries a distinct offset; mostly increasing, sometimes rewinding (committing an
		// earlier position again is legal and must be reflected by the broker and by CommittedOffsets alike)
		offs := r.Perm(11)[:n]
		if r.Intn(3) != 0 {
			sort.Ints(offs)
			if n >= 3 && r.Intn(2) == 0 { // one rewind at the end
				offs[n-1], offs[n-3] = offs[n-3], offs[n-1]
			}
		}
		for i := 0; i < n; i++ {
			if r.Intn(3) == 0 {
				sc.Steps = append(sc.Steps, Step{Op: "fault", Kind: []string{"loading", "stall", "notcoord"}[r.Intn(3)], Ms: 100 + r.Intn(600)})
			}
			off := int64(offs[i] + 1)
			st := Step{Op: "commit", M: 1, Kind: []string{"async", "async", "async", "sync", "records", "uncommitted"}[r.Intn(6)], Off: off}
			if r.Intn(3) == 0 {
				st.Cancel = 20 + r.Intn(100)
			}
			sc.Steps = append(sc.Steps, st)
			if r.Intn(3) == 0 {
				sc.Steps = append(sc.Steps, Step{Op: "sleep", Ms: 1 + r.Intn(300)})
			}
		}
		return sc
	}
	if sc.Proto == "848" || sc.Proto == "coop" {
		// hand-over windows: long revoke callbacks with subscription changes landing inside them
		sc.BothT = r.Intn(5) < 2
		sc.RevokeMs = []int{5, 40, 3000, 9000, 9000}[r.Intn(5)]
	}
	n := 6 + r.Intn(8)
	if tier == "thorough" {
		n += r.Intn(8)
	}
	live := map[int]bool{}
	sc.Steps = append(sc.Steps, Step{Op: "produce", N: 9})
	for i := 0; i < n; i++ {
		switch x := r.Intn(12); {
		case x < 4:
			m := 1 + r.Intn(4)
			if !live[m] {
				var older []int
				for o := range live {
					older = append(older, o)
				}
				sort.Ints(older)
				live[m] = true
				sc.Steps = append(sc.Steps, Step{Op: "join", M: m})
				if len(older) > 0 && r.Intn(4) == 0 {
					// the older member leaves (or closes) while its revoke callback for the partitions it hands over is
					// presumably still running
					o := older[r.Intn(len(older))]
					delete(live, o)
					sc.Steps = append(sc.Steps, Step{Op: "sleep", Ms: 1200 + r.Intn(1500)}, Step{Op: []string{"leave", "close"}[r.Intn(2)], M: o})
				} else if len(older) > 0 && !sc.BothT && r.Intn(2) == 0 {
					// the join takes partitions away from an older member; change that member's subscription while its
					// (slow) revoke callback is presumably running
					sc.Steps = append(sc.Steps, Step{Op: "sleep", Ms: 1200 + r.Intn(1500)}, Step{Op: "addtopic", M: older[r.Intn(len(older))]})
				}
			}
		case x < 6:
			var ms []int
			for m := range live {
				ms = append(ms, m)
			}
			sort.Ints(ms)
			if len(ms) > 0 {
				m := ms[r.Intn(len(ms))]
				delete(live, m)
				sc.Steps = append(sc.Steps, Step{Op: []string{"close", "close", "leave"}[r.Intn(3)], M: m})
			}
		case x < 9:
			sc.Steps = append(sc.Steps, Step{Op: "produce", N: 3 + r.Intn(9)})
		case x < 11 && !sc.BothT:
			var ms []int
			for m := range live {
				ms = append(ms, m)
			}
			sort.Ints(ms)
			if len(ms) > 0 {
				sc.Steps = append(sc.Steps, Step{Op: "addtopic", M: ms[r.Intn(len(ms))]})
			}
		default:
			sc.Steps = append(sc.Steps, Step{Op: "sleep", Ms: 20 + r.Intn(700)})
		}
		if r.Intn(2) == 0 {
			sc.Steps = append(sc.Steps, Step{Op: "sleep", Ms: 100 + r.Intn(3000)})
		}
	}
	return sc
}

type tpo struct {
	T string `json:"t"`
	P int32  `json:"p"`
	O int64  `json:"o"`
}

func flat(m map[string][]int32) []string {
	var out []string
	for t, ps := range m {
		for _, p := range ps {
			out = append(out, fmt.Sprintf("%s/%d", t, p))
		}
	}
	sort.Strings(out)
	if out == nil {
		out = []string{}
	}
	return out
}

type member struct {
	cl     *kgo.Client
	cancel context.CancelFunc
	done   chan struct{}
	topics []string
}

func runScenario(t *testing.T, rec *sim.Recorder, sc Scenario) {
	synctest.Test(t, func(t *testing.T) {
		rec.ResetSeq()
		js, _ := json.Marshal(sc)
		tmode := sc.Mode
		if sc.Auto {
			tmode = "autocommits"
		}
		rec.Ev("reset", "mode", tmode, "proto", sc.Proto, "nparts", nparts, "scenario", string(js))
		var vnet kfake.VirtualNetwork
		chaos := sim.NewChaos()
		c, err := kfake.NewCluster(kfake.NumBrokers(2), kfake.SeedTopics(nparts, "a", "b"), kfake.BrokerConfigs(map[string]string{"group.consumer.heartbeat.interval.ms": "1000"}), kfake.ListenFn(chaos.Listen(vnet.Listen)), kfake.Ports(9092, 9093))
		if err != nil {
			t.Fatal(err)
		}
		base := []kgo.Opt{kgo.SeedBrokers(c.ListenAddrs()...), kgo.Dialer(vnet.DialContext), kgo.MetadataMinAge(10 * time.Millisecond),
			kgo.RetryBackoffFn(func(int) time.Duration { return 50 * time.Millisecond }), kgo.RequestTimeoutOverhead(500 * time.Millisecond)}
		prod, err := kgo.NewClient(append([]kgo.Opt{kgo.RecordPartitioner(kgo.ManualPartitioner())}, base...)...)
		if err != nil {
			t.Fatal(err)
		}
		id2t := map[[16]byte]string{}
		{
			mreq := kmsg.NewPtrMetadataRequest()
			for _, tp := range []string{"a", "b"} {
				rt := kmsg.NewMetadataRequestTopic()
				rt.Topic = kmsg.StringPtr(tp)
				mreq.Topics = append(mreq.Topics, rt)
			}
			ctx, cancel := context.WithTimeout(context.Background(), 10*time.Second)
			mresp, err := mreq.RequestWith(ctx, prod)
			cancel()
			if err != nil {
				t.Fatal(err)
			}
			for _, tp := range mresp.Topics {
				id2t[tp.TopicID] = *tp.Topic
			}
		}
		// what reaches the coordinator, in arrival order
		c.ControlKey(int16(kmsg.OffsetCommit), func(kreq kmsg.Request) (kmsg.Response, error, bool) {
			c.KeepControl()
			req := kreq.(*kmsg.OffsetCommitRequest)
			offs := []tpo{}
			for _, rt := range req.Topics {
				for _, rp := range rt.Partitions {
					name := rt.Topic
					if name == "" {
						name = id2t[rt.TopicID]
					}
					offs = append(offs, tpo{name, rp.Partition, rp.Offset})
				}
			}
			rec.Ev("commit_arrive", "member", req.MemberID, "offsets", offs)
			return nil, nil, false
		})
		members := map[int]*member{}
		var mu sync.Mutex
		next := map[string]int64{} // next offset to produce per partition (ground truth)
		produce := func(n int, r *rand.Rand) {
			var recs []*kgo.Record
			for i := 0; i < n; i++ {
				tp, part := []string{"a", "b"}[r.Intn(2)], int32(r.Intn(nparts))
				if sc.Mode == "commits" {
					tp, part = "a", 0 // the partition the scenario commits for; its records are consumed before the commits start
				}
				recs = append(recs, &kgo.Record{Topic: tp, Partition: part, Value: []byte("v")})
			}
			ctx, cancel := context.WithTimeout(context.Background(), 10*time.Second)
			res := prod.ProduceSync(ctx, recs...)
			cancel()
			for _, rr := range res {
				if rr.Err == nil {
					k := fmt.Sprintf("%s/%d", rr.Record.Topic, rr.Record.Partition)
					mu.Lock()
					if rr.Record.Offset+1 > next[k] {
						next[k] = rr.Record.Offset + 1
					}
					mu.Unlock()
				}
			}
			mu.Lock()
			ends := map[string]int64{}
			for k, v := range next {
				ends[k] = v
			}
			mu.Unlock()
			rec.Ev("produced", "ends", ends)
		}
		rng := rand.New(rand.NewSource(sc.Seed))
		join := func(m int) {
			name := fmt.Sprintf("m%d", m)
			topics := []string{"a"}
			if sc.BothT {
				topics = []string{"a", "b"}
			}
			var slowCalls atomic.Int32
			cb := func(kind string) func(context.Context, *kgo.Client, map[string][]int32) {
				return func(_ context.Context, _ *kgo.Client, parts map[string][]int32) {
					rec.Ev(kind+"_begin", "m", name, "parts", flat(parts))
					if kind != "assign" && sc.RevokeMs > 0 && len(parts) > 0 {
						// a slow callback: nobody else may be assigned these meanwhile. A member's first slow callback takes the full
						// time, later ones a quarter: a callback that starts later can then finish before one that started earlier
						d := time.Duration(sc.RevokeMs) * time.Millisecond
						if slowCalls.Add(1) > 1 {
							d /= 4
						}
						time.Sleep(d)
					}
					rec.Ev(kind+"_end", "m", name, "parts", flat(parts))
				}
			}
			opts := append([]kgo.Opt{kgo.ConsumerGroup("g"), kgo.ConsumeTopics(topics...), kgo.InstanceID(""),
				kgo.OnPartitionsAssigned(cb("assign")), kgo.OnPartitionsRevoked(cb("revoke")), kgo.OnPartitionsLost(cb("lost")),
				kgo.FetchMaxWait(50 * time.Millisecond), kgo.SessionTimeout(30 * time.Second), kgo.HeartbeatInterval(200 * time.Millisecond),
				kgo.RebalanceTimeout(20 * time.Second), kgo.AutoCommitInterval(150 * time.Millisecond)}[:0], base...)
			opts = append(opts, kgo.ConsumerGroup("g"), kgo.ConsumeTopics(topics...),
				kgo.OnPartitionsAssigned(cb("assign")), kgo.OnPartitionsRevoked(cb("revoke")), kgo.OnPartitionsLost(cb("lost")),
				kgo.FetchMaxWait(400*time.Millisecond), kgo.SessionTimeout(30*time.Second), kgo.HeartbeatInterval(500*time.Millisecond),
				kgo.RebalanceTimeout(20*time.Second), kgo.AutoCommitInterval(150*time.Millisecond))
			switch sc.Proto {
			case "range":
				opts = append(opts, kgo.Balancers(kgo.RangeBalancer()))
			case "sticky":
				opts = append(opts, kgo.Balancers(kgo.StickyBalancer()))
			case "coop":
				opts = append(opts, kgo.Balancers(kgo.CooperativeStickyBalancer()))
			case "848":
				opts = append(opts, kgo.Balancers(kgo.CooperativeStickyBalancer()), kgo.WithContext(context.WithValue(context.Background(), "opt_in_kafka_next_gen_balancer_beta", true)))
			}
			if sc.Mode == "commits" && !sc.Auto {
				opts = append(opts, kgo.DisableAutoCommit())
			}
			if sc.Auto {
				// a retry that waits a second leaves room for the application's commit; later options win
				opts = append(opts, kgo.AutoCommitInterval(500*time.Millisecond), kgo.RetryBackoffFn(func(int) time.Duration { return time.Second }))
			}
			cl, err := kgo.NewClient(opts...)
			if err != nil {
				t.Fatal(err)
			}
			ctx, cancel := context.WithCancel(context.Background())
			mb := &member{cl: cl, cancel: cancel, done: make(chan struct{}), topics: topics}
			members[m] = mb
			rec.Ev("join", "m", name, "topics", topics)
			go func() {
				defer close(mb.done)
				logStart := true
				for ctx.Err() == nil {
					if logStart { // a poll_start only matters to the specification after a poll that returned records
						rec.Ev("poll_start", "m", name)
						logStart = false
					}
					pctx, pc := context.WithTimeout(ctx, 200*time.Millisecond)
					fs := cl.PollRecords(pctx, sc.PollN)
					pc()
					if fs.IsClientClosed() {
						return
					}
					got := []tpo{}
					fs.EachRecord(func(r *kgo.Record) { got = append(got, tpo{r.Topic, r.Partition, r.Offset}) })
					if len(got) > 0 {
						logStart = true
						rec.Ev("poll_ret", "m", name, "recs", got)
						time.Sleep(time.Duration(sc.ProcMs) * time.Millisecond) // processing: the fetcher keeps buffering meanwhile
					}
				}
			}()
		}
		stop := func(m int, leave bool) {
			mb := members[m]
			if mb == nil {
				return
			}
			name := fmt.Sprintf("m%d", m)
			rec.Ev("stop_call", "m", name, "leave", leave)
			mb.cancel()
			<-mb.done
			if leave {
				mb.cl.LeaveGroup()
			}
			mb.cl.Close()
			rec.Ev("stopped", "m", name)
			delete(members, m)
		}
		commitN := 0
		var cwg sync.WaitGroup
		for _, st := range sc.Steps {
			switch st.Op {
			case "join":
				if members[st.M] == nil {
					join(st.M)
				}
			case "close":
				stop(st.M, false)
			case "leave":
				stop(st.M, true)
			case "produce":
				produce(st.N, rng)
			case "sleep":
				time.Sleep(time.Duration(st.Ms) * time.Millisecond)
			case "addtopic":
				if mb := members[st.M]; mb != nil && len(mb.topics) == 1 {
					mb.topics = []string{"a", "b"}
					rec.Ev("addtopic", "m", fmt.Sprintf("m%d", st.M))
					mb.cl.AddConsumeTopics("b")
				}
			case "fault":
				rec.Ev("fault", "kind", st.Kind)
				switch st.Kind {
				case "stall":
					chaos.StallNext(int16(kmsg.OffsetCommit), 1, time.Duration(st.Ms)*time.Millisecond)
				case "loading", "notcoord":
					code := kerr.CoordinatorLoadInProgress.Code
					if st.Kind == "notcoord" {
						code = kerr.NotCoordinator.Code
					}
					c.ControlKey(int16(kmsg.OffsetCommit), func(kreq kmsg.Request) (kmsg.Response, error, bool) {
						req := kreq.(*kmsg.OffsetCommitRequest)
						resp := req.ResponseKind().(*kmsg.OffsetCommitResponse)
						for _, rt := range req.Topics {
							rst := kmsg.NewOffsetCommitResponseTopic()
							rst.Topic, rst.TopicID = rt.Topic, rt.TopicID
							for _, rp := range rt.Partitions {
								sp := kmsg.NewOffsetCommitResponseTopicPartition()
								sp.Partition, sp.ErrorCode = rp.Partition, code
								rst.Partitions = append(rst.Partitions, sp)
							}
							resp.Topics = append(resp.Topics, rst)
						}
						rec.Ev("commit_rejected", "code", int(code))
						return resp, nil, true
					})
				}
			case "commit":
				mb := members[st.M]
				if mb == nil {
					continue
				}
				commitN++
				k := commitN
				offs := map[string]map[int32]kgo.EpochOffset{"a": {0: {Epoch: -1, Offset: st.Off}}}
				ctx, cancel := context.WithCancel(context.Background())
				if st.Cancel > 0 {
					ms := st.Cancel
					go func() { time.Sleep(time.Duration(ms) * time.Millisecond); cancel() }()
				}
				done := func(_ *kgo.Client, _ *kmsg.OffsetCommitRequest, resp *kmsg.OffsetCommitResponse, err error) {
					code := 0
					if resp != nil {
						for _, rt := range resp.Topics {
							for _, rp := range rt.Partitions {
								if rp.ErrorCode != 0 {
									code = int(rp.ErrorCode)
								}
							}
						}
					}
					rec.Ev("commit_done", "k", k, "off", st.Off, "err", fmt.Sprint(err), "ok", err == nil && code == 0, "code", code)
				}
				rec.Ev("commit_issue", "k", k, "kind", st.Kind, "off", st.Off)
				cwg.Add(1)
				_ = cancel
				go func() {
					defer cwg.Done()
					switch st.Kind {
					case "sync":
						mb.cl.CommitOffsetsSync(ctx, offs, done)
					case "records":
						err := mb.cl.CommitRecords(ctx, &kgo.Record{Topic: "a", Partition: 0, Offset: st.Off - 1, LeaderEpoch: -1})
						rec.Ev("commit_done", "k", k, "off", st.Off, "err", fmt.Sprint(err), "ok", err == nil, "code", 0)
					default:
						mb.cl.CommitOffsets(ctx, offs, done)
					}
				}()
			}
			synctest.Wait()
		}
		if sc.Mode == "commits" {
			time.Sleep(5 * time.Second)
			cwg.Wait()
			synctest.Wait()
			if mb := members[1]; mb != nil {
				co := mb.cl.CommittedOffsets()
				v := int64(-1)
				if co["a"] != nil {
					if eo, ok := co["a"][0]; ok {
						v = eo.Offset
					}
				}
				rec.Ev("client_committed", "off", v, "all", fmt.Sprint(co))
			}
		} else {
			// membership is final now: give the group time to settle, then look at who owns what
			time.Sleep(75 * time.Second) // several rounds of (slow revoke callback + rejoin) fit in here; virtual time is free
			synctest.Wait()
			var live []string
			subscribed := map[string]bool{}
			for m, mb := range members {
				live = append(live, fmt.Sprintf("m%d", m))
				for _, tp := range mb.topics {
					subscribed[tp] = true
				}
			}
			sort.Strings(live)
			var subs []string
			for tp := range subscribed {
				subs = append(subs, tp)
			}
			sort.Strings(subs)
			if live == nil {
				live = []string{}
			}
			if subs == nil {
				subs = []string{}
			}
			rec.Ev("settled", "live", live, "subscribed", subs)
			// let everybody consume to the end, then leave gracefully
			time.Sleep(3 * time.Second)
			synctest.Wait()
		}
		var ms []int
		for m := range members {
			ms = append(ms, m)
		}
		sort.Ints(ms)
		for _, m := range ms {
			stop(m, false)
		}
		adm := kadm.NewClient(prod)
		ctx, cancel := context.WithTimeout(context.Background(), 10*time.Second)
		fo, err := adm.FetchOffsets(ctx, "g")
		cancel()
		final := []tpo{}
		if err == nil {
			fo.Each(func(o kadm.OffsetResponse) {
				if o.Err == nil && o.At >= 0 {
					final = append(final, tpo{o.Topic, o.Partition, o.At})
				}
			})
		}
		sort.Slice(final, func(i, j int) bool { return final[i].T+fmt.Sprint(final[i].P) < final[j].T+fmt.Sprint(final[j].P) })
		mu.Lock()
		ends := map[string]int64{}
		for k, v := range next {
			ends[k] = v
		}
		mu.Unlock()
		rec.Ev("final", "committed", final, "ends", ends, "fetch_err", fmt.Sprint(err))
		prod.Close()
		c.Close()
		time.Sleep(2 * time.Second)
		synctest.Wait()
		_ = errors.New
	})
}

func TestScenarios(t *testing.T) {
	rec, err := sim.NewRecorder(os.Getenv("VERIF_OUT"))
	if err != nil {
		t.Fatal(err)
	}
	defer rec.Close()
	var scs []Scenario
	if p := os.Getenv("VERIF_SCENARIOS"); p != "" {
		if scs, err = raw.ReadNDJSON[Scenario](p); err != nil {
			t.Fatal(err)
		}
	} else {
		n := raw.EnvInt("VERIF_N", 20)
		seed := int64(raw.EnvInt("VERIF_SEED", 1))
		mode := os.Getenv("VERIF_MODE")
		if mode == "" {
			mode = "members"
		}
		for i := 0; i < n; i++ {
			scs = append(scs, gen(seed*100000+int64(i), os.Getenv("VERIF_TIER"), mode))
		}
	}
	for i, sc := range scs {
		if ok := t.Run(fmt.Sprintf("s%d", i), func(t *testing.T) { runScenario(t, rec, sc) }); !ok {
			rec.Ev("driver_failed", "scenario", i)
		}
	}
	raw.Emit(map[string]any{"kind": "stat", "scenarios": len(scs), "events": rec.N})
}
