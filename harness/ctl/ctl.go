// Package ctl is a deterministic cooperative scheduler with controlled synchronisation primitives.
// Source files of the code under test are copied with their sync / sync/atomic / xsync primitives
// rewritten to these types; every primitive operation is a yield point, exactly one controlled
// goroutine ("thread") runs at a time, and the replayer decides which thread takes the next step and
// which waiter a Cond.Signal wakes. This lets every interleaving a TLC behaviour names be executed on
// the real code (binding R, DESIGN.md 2.2 / 3.4-1).
package ctl

import (
	"fmt"
	"sort"
	"time"
)

type Thread struct {
	Name    string
	resume  chan struct{}
	At      string // description of the yield point the thread is stopped at
	Done    bool
	Parked  bool // in Cond.Wait, not yet signalled
	Woken   bool // signalled, has not yet re-acquired the mutex
	BlockCh *Chan
	Panic   any
	started bool
}

type Sched struct {
	Threads      map[string]*Thread
	cur          *Thread
	back         chan struct{}
	SignalChoice string // name of the waiter the next Cond.Signal must wake ("" = first come)
	Errors       []string
	Log          []string
}

// S is the scheduler the rewritten sources use (one replay at a time per process).
var S *Sched

func New() *Sched {
	S = &Sched{Threads: map[string]*Thread{}, back: make(chan struct{})}
	return S
}

func (s *Sched) errorf(f string, a ...any) { s.Errors = append(s.Errors, fmt.Sprintf(f, a...)) }

// Go registers a new thread; it does not run until stepped. Its first yield point is "start".
func (s *Sched) Go(name string, fn func()) *Thread {
	if _, dup := s.Threads[name]; dup {
		s.errorf("thread %s spawned twice", name)
		name = name + "'"
	}
	t := &Thread{Name: name, resume: make(chan struct{}), At: "start"}
	s.Threads[name] = t
	go func() {
		<-t.resume
		defer func() {
			if r := recover(); r != nil {
				t.Panic = r
				s.errorf("thread %s panicked: %v", name, r)
			}
			t.Done = true
			t.At = "done"
			s.back <- struct{}{}
		}()
		fn()
	}()
	return t
}

// Step lets thread name run from its current yield point to its next one (or until it parks or ends).
func (s *Sched) Step(name string) error {
	t := s.Threads[name]
	if t == nil {
		return fmt.Errorf("no thread %s", name)
	}
	if t.Done {
		return fmt.Errorf("thread %s already finished", name)
	}
	if t.Parked {
		return fmt.Errorf("thread %s is parked on a condition and was not signalled", name)
	}
	s.cur = t
	t.resume <- struct{}{}
	select {
	case <-s.back:
	case <-time.After(10 * time.Second):
		return fmt.Errorf("thread %s did not reach a yield point (blocked outside controlled primitives at %q)", name, t.At)
	}
	s.cur = nil
	return nil
}

// Yield is an explicit yield point (used by harness code for steps that are not a primitive operation).
func (s *Sched) Yield(at string) {
	t := s.cur
	if t == nil {
		panic("ctl: primitive used outside a controlled thread at " + at)
	}
	t.At = at
	s.back <- struct{}{}
	<-t.resume
	s.cur = t
}

func (s *Sched) Cur() string {
	if s.cur == nil {
		return ""
	}
	return s.cur.Name
}

func (s *Sched) Alive() []string {
	var out []string
	for n, t := range s.Threads {
		if !t.Done {
			out = append(out, n)
		}
	}
	sort.Strings(out)
	return out
}

// Drain steps every remaining runnable thread (in name order) until all are done or parked; used to end a replay cleanly.
func (s *Sched) Drain(max int) {
	for i := 0; i < max; i++ {
		progressed := false
		for _, n := range s.Alive() {
			t := s.Threads[n]
			if t.Parked {
				continue
			}
			if err := s.Step(n); err == nil {
				progressed = true
			}
		}
		if !progressed {
			return
		}
	}
}

// ---------------------------------------------------------------- Mutex / Cond

type Mutex struct {
	held  bool
	owner string
}

func (m *Mutex) Lock() {
	S.Yield("lock")
	if m.held {
		S.errorf("thread %s was granted a mutex held by %s", S.Cur(), m.owner)
	}
	m.held, m.owner = true, S.Cur()
}

func (m *Mutex) TryLock() bool {
	S.Yield("trylock")
	if m.held {
		return false
	}
	m.held, m.owner = true, S.Cur()
	return true
}

func (m *Mutex) Unlock() {
	if !m.held {
		panic("ctl: unlock of unlocked mutex")
	}
	m.held, m.owner = false, ""
}

func (m *Mutex) Held() bool { return m.held }

type Locker interface {
	Lock()
	Unlock()
}

type Cond struct {
	L       *Mutex
	waiters []*Thread
}

func NewCond(l *Mutex) *Cond { return &Cond{L: l} }

func (c *Cond) Wait() {
	t := S.cur
	c.waiters = append(c.waiters, t)
	c.L.Unlock()
	t.Parked = true
	S.Yield("cond.wait")
	// resumed: we were signalled and the replayer granted us the step
	if !t.Woken {
		S.errorf("thread %s resumed from Cond.Wait without a signal", t.Name)
	}
	t.Woken = false
	if c.L.held {
		S.errorf("thread %s woke from Cond.Wait while the mutex is held by %s", t.Name, c.L.owner)
	}
	c.L.held, c.L.owner = true, t.Name
}

func (c *Cond) wake(i int) {
	w := c.waiters[i]
	c.waiters = append(c.waiters[:i], c.waiters[i+1:]...)
	w.Parked, w.Woken = false, true
}

func (c *Cond) Signal() {
	if len(c.waiters) == 0 {
		if S.SignalChoice != "" {
			S.errorf("Signal with no waiter, but the behaviour expected %s to be woken", S.SignalChoice)
		}
		return
	}
	pick := 0
	if S.SignalChoice != "" {
		pick = -1
		for i, w := range c.waiters {
			if w.Name == S.SignalChoice {
				pick = i
			}
		}
		if pick < 0 {
			S.errorf("Signal: expected waiter %s is not waiting (waiters %v)", S.SignalChoice, c.WaiterNames())
			pick = 0
		}
	}
	c.wake(pick)
}

func (c *Cond) Broadcast() {
	for len(c.waiters) > 0 {
		c.wake(0)
	}
}

func (c *Cond) WaiterNames() []string {
	var out []string
	for _, w := range c.waiters {
		out = append(out, w.Name)
	}
	sort.Strings(out)
	return out
}

// ---------------------------------------------------------------- atomics (every operation is a yield point)

type Uint32 struct{ v uint32 }

func (a *Uint32) Load() uint32 { S.Yield("load"); return a.v }
func (a *Uint32) Store(v uint32) {
	S.Yield("store")
	a.v = v
}
func (a *Uint32) CompareAndSwap(old, new uint32) bool {
	S.Yield("cas")
	if a.v == old {
		a.v = new
		return true
	}
	return false
}
func (a *Uint32) Peek() uint32 { return a.v } // for the replayer's projection only

type Uint64 struct{ v uint64 }

func (a *Uint64) Load() uint64 { S.Yield("load"); return a.v }
func (a *Uint64) Store(v uint64) {
	S.Yield("store")
	a.v = v
}
func (a *Uint64) Add(d uint64) uint64 {
	S.Yield("add")
	a.v += d
	return a.v
}
func (a *Uint64) CompareAndSwap(old, new uint64) bool {
	S.Yield("cas")
	if a.v == old {
		a.v = new
		return true
	}
	return false
}
func (a *Uint64) Peek() uint64 { return a.v }

// ---------------------------------------------------------------- buffered-1 channels (for synctest_mutex.go)

// Chan is a channel of capacity 1 carrying struct{}; send/receive are yield points and block the thread
// (the replayer must only step a thread whose operation is enabled).
type Chan struct {
	full bool
	name string
}

func NewChan(name string) *Chan     { return &Chan{name: name} }
func NewChanFull(name string) *Chan { return &Chan{name: name, full: true} }
func (c *Chan) Full() bool          { return c.full }

func (c *Chan) Send() {
	S.Yield("send " + c.name)
	if c.full {
		S.errorf("thread %s granted a send on full channel %s", S.Cur(), c.name)
	}
	c.full = true
}
func (c *Chan) Recv() {
	S.Yield("recv " + c.name)
	if !c.full {
		S.errorf("thread %s granted a receive on empty channel %s", S.Cur(), c.name)
	}
	c.full = false
}

// TrySend / TryRecv are the select-with-default forms.
func (c *Chan) TrySend() bool {
	S.Yield("trysend " + c.name)
	if c.full {
		return false
	}
	c.full = true
	return true
}
func (c *Chan) TryRecv() bool {
	S.Yield("tryrecv " + c.name)
	if !c.full {
		return false
	}
	c.full = false
	return true
}
