// Package c32 replays every log history enumerated by TLC from spec/KLog.tla on a real kfake cluster through raw
// protocol requests and compares offsets, high watermark, last stable offset, fetch contents under both isolation
// levels (through an independent reference consumer), idempotent retries and incremental fetch sessions.
package c32

import (
	"encoding/binary"
	"encoding/json"
	"fmt"
	"os"
	"sort"
	"testing"

	"github.com/twmb/franz-go/pkg/kmsg"
	"verif/harness/raw"
)

type LogBatch struct {
	Base    int64   `json:"base"`
	N       int64   `json:"n"`
	Present []int64 `json:"present"`
	Pid     int64   `json:"pid"`
	Txn     bool    `json:"txn"`
	Ctrl    string  `json:"ctrl"`
}

type FetchCase struct {
	Batches []int   `json:"batches"`
	Aborted []int64 `json:"aborted"`
	View    []int64 `json:"view"`
	Next    int64   `json:"next"`
}

type Case struct {
	Log   []LogBatch                            `json:"log"`
	HW    int64                                 `json:"hw"`
	LSO   int64                                 `json:"lso"`
	Fetch map[string]map[string]json.RawMessage `json:"fetch"`
}

type wireBatch struct {
	base, last int64
	pid        int64
	txn, ctrl  bool
	abort      bool
	offsets    []int64
}

// parseBatches walks record batches v2 (uncompressed, as kfake stores what we sent).
func parseBatches(in []byte) ([]wireBatch, error) {
	var out []wireBatch
	for len(in) > 0 {
		if len(in) < 61 {
			return out, fmt.Errorf("short batch header: %d bytes", len(in))
		}
		base := int64(binary.BigEndian.Uint64(in))
		length := int(binary.BigEndian.Uint32(in[8:]))
		if len(in) < 12+length {
			return out, nil // partial trailing batch is legal
		}
		attrs := binary.BigEndian.Uint16(in[21:])
		lastDelta := int64(binary.BigEndian.Uint32(in[23:]))
		pid := int64(binary.BigEndian.Uint64(in[43:]))
		nrec := int(binary.BigEndian.Uint32(in[57:]))
		b := wireBatch{base: base, last: base + lastDelta, pid: pid, txn: attrs&0x10 != 0, ctrl: attrs&0x20 != 0}
		recs := in[61 : 12+length]
		for i := 0; i < nrec; i++ {
			l, n := binary.Varint(recs)
			if n <= 0 || int(l) > len(recs)-n {
				return out, fmt.Errorf("bad record length in batch at %d", base)
			}
			body := recs[n : n+int(l)]
			recs = recs[n+int(l):]
			p := 1 // attributes
			_, m := binary.Varint(body[p:])
			p += m
			od, m := binary.Varint(body[p:])
			p += m
			b.offsets = append(b.offsets, base+od)
			if b.ctrl {
				kl, m := binary.Varint(body[p:])
				p += m
				if kl >= 4 {
					b.abort = binary.BigEndian.Uint16(body[p+2:]) == 0
				}
			}
		}
		out = append(out, b)
		in = in[12+length:]
	}
	return out, nil
}

// referenceView is the consumer algorithm of the Kafka protocol guide: aborted transactions ordered by first offset
// are activated when a batch reaches them, an abort marker deactivates its producer.
func referenceView(bs []wireBatch, aborted []kmsg.FetchResponseTopicPartitionAbortedTransaction, asked int64, iso int) []int64 {
	ab := append([]kmsg.FetchResponseTopicPartitionAbortedTransaction{}, aborted...)
	sort.Slice(ab, func(i, j int) bool { return ab[i].FirstOffset < ab[j].FirstOffset })
	active := map[int64]bool{}
	var view []int64
	for _, b := range bs {
		if iso == 1 {
			for len(ab) > 0 && ab[0].FirstOffset <= b.last {
				active[ab[0].ProducerID] = true
				ab = ab[1:]
			}
		}
		if b.ctrl {
			if b.abort {
				delete(active, b.pid)
			}
			continue
		}
		if iso == 1 && b.txn && active[b.pid] {
			continue
		}
		for _, o := range b.offsets {
			if o >= asked {
				view = append(view, o)
			}
		}
	}
	return view
}

func eq(a, b []int64) bool {
	if len(a) != len(b) {
		return false
	}
	for i := range a {
		if a[i] != b[i] {
			return false
		}
	}
	return true
}

type env struct {
	c     *raw.Cluster
	topic string
	id    [16]byte
}

func (e *env) fetch(part int32, asked int64, iso int8, partMax int32, sessID, sessEpoch int32, forget bool) (*kmsg.FetchResponse, error) {
	req := kmsg.NewPtrFetchRequest()
	req.ReplicaID = -1
	req.MaxWaitMillis = 0
	req.MinBytes = 0
	req.MaxBytes = 1 << 24
	req.IsolationLevel = iso
	req.SessionID = sessID
	req.SessionEpoch = sessEpoch
	if part >= 0 {
		rt := kmsg.NewFetchRequestTopic()
		rt.Topic = e.topic
		rt.TopicID = e.id
		rp := kmsg.NewFetchRequestTopicPartition()
		rp.Partition = part
		rp.FetchOffset = asked
		rp.CurrentLeaderEpoch = -1
		rp.PartitionMaxBytes = partMax
		rt.Partitions = append(rt.Partitions, rp)
		req.Topics = append(req.Topics, rt)
	}
	ctx, cancel := raw.Ctx()
	defer cancel()
	return req.RequestWith(ctx, e.c.Cl)
}

func TestReplay(t *testing.T) {
	cases, err := raw.ReadNDJSON[Case](os.Getenv("VERIF_CASES"))
	if err != nil {
		t.Fatal(err)
	}
	stride := raw.EnvInt("VERIF_STRIDE", 1)
	seed := raw.EnvInt("VERIF_SEED", 1)
	c := raw.NewCluster(t)
	evals, logs, nontrivial, fetches := 0, 0, 0, 0
	for ci, cs := range cases {
		if int((uint32(ci)*2654435761)>>9)%stride != seed%stride { // a pseudo-random 1/stride slice, not every stride-th case
			continue
		}
		logs++
		viol := func(key, what string) {
			raw.Emit(map[string]any{"kind": "viol", "key": key, "what": what, "case": ci})
		}
		topic := fmt.Sprintf("t%d", ci)
		{
			req := kmsg.NewPtrCreateTopicsRequest()
			rt := kmsg.NewCreateTopicsRequestTopic()
			rt.Topic = topic
			rt.NumPartitions = 2
			rt.ReplicationFactor = 1
			req.Topics = append(req.Topics, rt)
			ctx, cancel := raw.Ctx()
			resp, err := req.RequestWith(ctx, c.Cl)
			cancel()
			if err != nil || resp.Topics[0].ErrorCode != 0 {
				t.Fatalf("create topic: %v %v", err, resp)
			}
		}
		e := &env{c: c, topic: topic, id: c.TopicID(topic)}
		type prod struct {
			pid   int64
			epoch int16
			seq   int32
			open  bool
			txid  string
		}
		prods := map[int64]*prod{}
		wire2spec := map[int64]int64{-1: 0}
		for _, b := range cs.Log {
			if b.Pid != 0 && prods[b.Pid] == nil {
				req := kmsg.NewPtrInitProducerIDRequest()
				txid := fmt.Sprintf("tx-%d-%d", ci, b.Pid)
				req.TransactionalID = &txid
				req.TransactionTimeoutMillis = 60000
				req.ProducerID = -1
				req.ProducerEpoch = -1
				ctx, cancel := raw.Ctx()
				resp, err := req.RequestWith(ctx, c.Cl)
				cancel()
				if err != nil || resp.ErrorCode != 0 {
					t.Fatalf("init pid: %v %v", err, resp)
				}
				prods[b.Pid] = &prod{pid: resp.ProducerID, epoch: resp.ProducerEpoch, txid: txid}
				wire2spec[resp.ProducerID] = b.Pid
			}
		}
		// an incremental fetch session over both partitions, advanced like a consumer would
		sessOff := map[int32]int64{0: 0, 1: 0}
		var sessID, sessEpoch int32
		{
			req := kmsg.NewPtrFetchRequest()
			req.ReplicaID = -1
			req.MaxBytes = 1 << 24
			req.SessionEpoch = 0
			rt := kmsg.NewFetchRequestTopic()
			rt.Topic, rt.TopicID = topic, e.id
			for p := int32(0); p < 2; p++ {
				rp := kmsg.NewFetchRequestTopicPartition()
				rp.Partition, rp.FetchOffset, rp.CurrentLeaderEpoch, rp.PartitionMaxBytes = p, 0, -1, 1<<20
				rt.Partitions = append(rt.Partitions, rp)
			}
			req.Topics = append(req.Topics, rt)
			ctx, cancel := raw.Ctx()
			resp, err := req.RequestWith(ctx, c.Cl)
			cancel()
			if err != nil || resp.ErrorCode != 0 {
				t.Fatalf("session create: %v %v", err, resp)
			}
			sessID, sessEpoch = resp.SessionID, 1
		}
		p1next := int64(0)
		var lastData []byte
		var lastBase int64
		var lastIdem bool
		for bi, b := range cs.Log {
			changed := map[int32]bool{0: true}
			vals := make([]string, b.N)
			for i := range vals {
				vals[i] = fmt.Sprintf("v%d", b.Base+int64(i))
			}
			switch {
			case b.Ctrl != "none":
				p := prods[b.Pid]
				if !p.open { // a transaction ended without data: the partition is added, nothing is produced
					req := kmsg.NewPtrAddPartitionsToTxnRequest()
					req.TransactionalID = p.txid
					req.ProducerID, req.ProducerEpoch = p.pid, p.epoch
					rt := kmsg.NewAddPartitionsToTxnRequestTopic()
					rt.Topic = topic
					rt.Partitions = []int32{0}
					req.Topics = append(req.Topics, rt)
					ctx, cancel := raw.Ctx()
					resp, err := req.RequestWith(ctx, c.Cl)
					cancel()
					if err != nil || resp.ErrorCode != 0 {
						viol("addpartitions", fmt.Sprintf("AddPartitionsToTxn (empty transaction) failed: %v %+v", err, resp))
					}
				}
				req := kmsg.NewPtrEndTxnRequest()
				req.TransactionalID = p.txid
				req.ProducerID, req.ProducerEpoch = p.pid, p.epoch
				req.Commit = b.Ctrl == "commit"
				ctx, cancel := raw.Ctx()
				resp, err := req.RequestWith(ctx, c.Cl)
				cancel()
				if err != nil || resp.ErrorCode != 0 {
					viol("endtxn", fmt.Sprintf("EndTxn(%s) failed: %v code %v", b.Ctrl, err, resp))
				}
				p.open = false
				// KIP-890 bumps the epoch on end; re-init is not needed for v<5, but pick up a bumped epoch if returned
				if resp != nil && resp.ProducerEpoch > 0 {
					p.epoch = resp.ProducerEpoch
					p.seq = 0
				}
				if resp != nil && resp.ProducerID > 0 && resp.ProducerID != p.pid {
					delete(wire2spec, p.pid)
					p.pid = resp.ProducerID
					wire2spec[p.pid] = b.Pid
				}
			default:
				pid, epoch, seq := int64(-1), int16(-1), int32(-1)
				if b.Pid != 0 {
					p := prods[b.Pid]
					if !p.open {
						req := kmsg.NewPtrAddPartitionsToTxnRequest()
						req.TransactionalID = p.txid
						req.ProducerID, req.ProducerEpoch = p.pid, p.epoch
						rt := kmsg.NewAddPartitionsToTxnRequestTopic()
						rt.Topic = topic
						rt.Partitions = []int32{0}
						req.Topics = append(req.Topics, rt)
						ctx, cancel := raw.Ctx()
						resp, err := req.RequestWith(ctx, c.Cl)
						cancel()
						if err != nil || (len(resp.Topics) > 0 && resp.Topics[0].Partitions[0].ErrorCode != 0) || resp.ErrorCode != 0 {
							viol("addpartitions", fmt.Sprintf("AddPartitionsToTxn failed: %v %+v", err, resp))
						}
						p.open = true
					}
					pid, epoch, seq = p.pid, p.epoch, p.seq
					p.seq += int32(b.N)
				}
				lastData = raw.Batch(pid, epoch, seq, b.Txn, 1700000000000+b.Base, vals...)
				code, base, err := c.Produce(topic, 0, lastData)
				evals++
				if err != nil || code != 0 {
					viol("produce", fmt.Sprintf("produce of batch %d failed: %v code %d", bi+1, err, code))
				} else if base != b.Base {
					viol("contiguous", fmt.Sprintf("batch %d appended at offset %d, specification %d (offsets must be contiguous from the high watermark)", bi+1, base, b.Base))
				}
				lastBase, lastIdem = base, b.Pid != 0
			}
			if bi%2 == 1 { // some traffic on the other partition of the session
				code, base, err := c.Produce(topic, 1, raw.Batch(-1, -1, -1, false, 1700000000000, "other"))
				if err != nil || code != 0 || base != p1next {
					viol("contiguous", fmt.Sprintf("partition 1: code %d base %d want %d err %v", code, base, p1next, err))
				}
				p1next++
				changed[1] = true
			}
			// incremental session fetch: every partition whose data changed must come back
			resp, err := e.fetch(-1, 0, 0, 0, sessID, sessEpoch, false)
			sessEpoch++
			fetches++
			if err != nil || resp.ErrorCode != 0 {
				viol("session", fmt.Sprintf("incremental fetch failed: %v code %v", err, resp))
			} else {
				got := map[int32]bool{}
				for _, rt := range resp.Topics {
					for _, rp := range rt.Partitions {
						if len(rp.RecordBatches) > 0 {
							got[rp.Partition] = true
						}
					}
				}
				for p := range changed {
					if !got[p] {
						viol("session", fmt.Sprintf("incremental fetch after batch %d did not return partition %d whose data changed (session offsets %v)", bi+1, p, sessOff))
					}
				}
				// advance like a consumer: tell the session the new offsets
				sessOff[0] = b.Base + b.N
				sessOff[1] = p1next
				req := kmsg.NewPtrFetchRequest()
				req.ReplicaID, req.MaxBytes, req.SessionID, req.SessionEpoch = -1, 1<<24, sessID, sessEpoch
				sessEpoch++
				rt := kmsg.NewFetchRequestTopic()
				rt.Topic, rt.TopicID = topic, e.id
				for p := int32(0); p < 2; p++ {
					rp := kmsg.NewFetchRequestTopicPartition()
					rp.Partition, rp.FetchOffset, rp.CurrentLeaderEpoch, rp.PartitionMaxBytes = p, sessOff[p], -1, 1<<20
					rt.Partitions = append(rt.Partitions, rp)
				}
				req.Topics = append(req.Topics, rt)
				ctx, cancel := raw.Ctx()
				r2, err := req.RequestWith(ctx, c.Cl)
				cancel()
				if err != nil || r2.ErrorCode != 0 {
					viol("session", fmt.Sprintf("session offset update failed: %v %v", err, r2))
				} else {
					for _, rt := range r2.Topics {
						for _, rp := range rt.Partitions {
							if len(rp.RecordBatches) > 0 {
								viol("session", fmt.Sprintf("session returned data for partition %d at its end offset %d", rp.Partition, sessOff[rp.Partition]))
							}
						}
					}
				}
			}
		}
		// a retried idempotent batch gets its original offset and is not appended again
		if lastIdem && cs.Log[len(cs.Log)-1].Ctrl == "none" {
			code, base, err := c.Produce(topic, 0, lastData)
			evals++
			if err != nil || code != 0 || base != lastBase {
				viol("duplicate", fmt.Sprintf("retried idempotent batch: code %d base %d, original base %d err %v", code, base, lastBase, err))
			}
		}
		// fetches at every offset under both isolation levels, whole and cut to one batch
		for askedS, byIso := range cs.Fetch {
			var asked int64
			fmt.Sscan(askedS, &asked)
			for isoS, rawFc := range byIso {
				iso := 0
				if isoS == "1" {
					iso = 1
				}
				var fcs []FetchCase
				if err := json.Unmarshal(rawFc, &fcs); err != nil {
					t.Fatal(err)
				}
				for _, mode := range []string{"all", "one"} {
					partMax := int32(1 << 20)
					var want FetchCase
					if len(fcs) > 0 {
						want = fcs[len(fcs)-1]
						if mode == "one" {
							want = fcs[0]
							partMax = 1
						}
					} else {
						want = FetchCase{Next: asked}
					}
					resp, err := e.fetch(0, asked, int8(iso), partMax, 0, -1, false)
					fetches++
					evals++
					if len(want.Aborted) > 0 {
						nontrivial++
					}
					if err != nil || resp.ErrorCode != 0 || len(resp.Topics) != 1 || len(resp.Topics[0].Partitions) != 1 {
						viol("fetch", fmt.Sprintf("fetch at %d iso %d failed: %v %+v", asked, iso, err, resp))
						continue
					}
					rp := resp.Topics[0].Partitions[0]
					if rp.ErrorCode != 0 {
						viol("fetch", fmt.Sprintf("fetch at %d iso %d: error code %d", asked, iso, rp.ErrorCode))
						continue
					}
					if rp.HighWatermark != cs.HW {
						viol("hw", fmt.Sprintf("high watermark %d, specification %d", rp.HighWatermark, cs.HW))
					}
					if rp.LastStableOffset != cs.LSO {
						viol("lso", fmt.Sprintf("last stable offset %d, specification %d (high watermark %d)", rp.LastStableOffset, cs.LSO, cs.HW))
					}
					bs, perr := parseBatches(rp.RecordBatches)
					if perr != nil {
						viol("fetch", fmt.Sprintf("fetch at %d iso %d: %v", asked, iso, perr))
						continue
					}
					var gotBases, wantBases []int64
					for _, b := range bs {
						gotBases = append(gotBases, b.base)
					}
					for _, bi := range want.Batches {
						wantBases = append(wantBases, cs.Log[bi-1].Base)
					}
					if !eq(gotBases, wantBases) {
						viol("fetch batches "+mode, fmt.Sprintf("fetch at %d iso %d (%s): returned batches at %v, specification %v", asked, iso, mode, gotBases, wantBases))
						continue
					}
					view := referenceView(bs, rp.AbortedTransactions, asked, iso)
					if !eq(view, want.View) {
						var ab []string
						for _, a := range rp.AbortedTransactions {
							ab = append(ab, fmt.Sprintf("{pid %d first %d}", wire2spec[a.ProducerID], a.FirstOffset))
						}
						viol(fmt.Sprintf("read view iso=%d %s", iso, mode), fmt.Sprintf("fetch at %d iso %d (%s): a consumer following the protocol delivers %v, the committed data is %v (batches %v, aborted list %v, specification lists %v)", asked, iso, mode, view, want.View, gotBases, ab, want.Aborted))
					}
				}
			}
		}
	}
	raw.Emit(map[string]any{"kind": "stat", "logs": logs, "evaluations": evals, "nontrivial": nontrivial, "fetches": fetches})
}
