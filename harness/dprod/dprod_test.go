package dprod

// D-PROD: scenario driver for the producer-side properties (C01, C03, C14 producer half, C13 producer part).
// Each scenario runs the real kgo client against the real kfake inside a synctest bubble (virtual time, true
// quiescence between steps) with a fault-injecting listener; every observable event is recorded and the traces
// are validated by TLC against spec/ProdTrace.tla.

import (
	"context"
	"encoding/json"
	"errors"
	"fmt"
	"math/rand"
	"net"
	"os"
	"strconv"
	"sync"
	"sync/atomic"
	"testing"
	"testing/synctest"
	"time"

	"github.com/twmb/franz-go/pkg/kerr"
	"github.com/twmb/franz-go/pkg/kfake"
	"github.com/twmb/franz-go/pkg/kgo"
	"github.com/twmb/franz-go/pkg/kmsg"
	"verif/harness/raw"
	"verif/harness/sim"
)

type Step struct {
	Op       string `json:"op"` // produce | flush | abort | purge | sleep | fault | cancel
	ID       int    `json:"id,omitempty"`
	Mode     string `json:"mode,omitempty"`  // produce | try | sync
	Topic    string `json:"topic,omitempty"` // t | u (never created) | "" (no topic)
	Ms       int    `json:"ms,omitempty"`
	Fault    string `json:"fault,omitempty"` // dropresp | killconn | retriable | fatal | stall
	N        int    `json:"n,omitempty"`
	BadPart  bool   `json:"badPart,omitempty"` // the partitioner picks a partition that does not exist: the record fails after it was admitted
	ClosesAt bool   `json:"-"`
}

type Scenario struct {
	Seed     int64 `json:"seed"`
	MaxRecs  int   `json:"maxRecs"`
	MaxBytes int   `json:"maxBytes"`
	LingerMs int   `json:"lingerMs"`
	Manual   bool  `json:"manual"`
	// user code that takes (virtual) time: a slow promise callback and a slow partitioner open the windows in which
	// Flush / Produce / Close can arrive while the client is in the middle of finishing or buffering a record
	PromiseMs  int  `json:"promiseMs"`
	SlowPartMs int  `json:"slowPartMs"`
	CloseEarly bool `json:"closeEarly"`
	BadParts   bool `json:"badParts"` // some produce steps carry BadPart (a custom partitioner is installed)
	// Leaderless: records go to partitions by id parity; the "leaderless" fault makes partition 1 of t report LEADER_NOT_AVAILABLE in
	// metadata while brokers reject produce requests for it without naming a leader
	Leaderless bool `json:"leaderless,omitempty"`
	// FirstBatch: both partitions of t live on one broker; after that broker has answered a produce request, the first batch ever
	// sent for the other partition is answered with a retriable error (nothing appended) while a second batch is right behind it
	FirstBatch bool   `json:"firstBatch,omitempty"`
	Steps      []Step `json:"steps"`
}

func gen(seed int64, tier string) Scenario {
	r := rand.New(rand.NewSource(seed))
	sc := Scenario{Seed: seed, MaxRecs: 1 + r.Intn(3), LingerMs: []int{0, 0, 5}[r.Intn(3)]}
	if r.Intn(6) == 0 {
		// records sit on a partition that lost its leader; then the topic is purged (or not), and everything must still be
		// accounted for: every promise runs, hooks pair up, Flush returns
		sc.Leaderless = true
		sc.MaxRecs = 8
		sc.Steps = append(sc.Steps, Step{Op: "produce", ID: 1, Mode: "produce", Topic: "t"}, Step{Op: "produce", ID: 2, Mode: "produce", Topic: "t"}, Step{Op: "flush"},
			Step{Op: "fault", Fault: "leaderless"}, Step{Op: "sleep", Ms: 40})
		for id := 3; id <= 6; id++ {
			sc.Steps = append(sc.Steps, Step{Op: "produce", ID: id, Mode: "produce", Topic: "t"})
		}
		sc.Steps = append(sc.Steps, Step{Op: "sleep", Ms: []int{30, 120, 400}[r.Intn(3)]})
		if r.Intn(3) != 0 {
			sc.Steps = append(sc.Steps, Step{Op: "purge", Topic: "t"})
		}
		sc.Steps = append(sc.Steps, Step{Op: "sleep", Ms: 200})
		return sc
	}
	if r.Intn(8) == 0 {
		sc.FirstBatch = true
		sc.MaxRecs, sc.LingerMs = 8, 0
		sc.Steps = append(sc.Steps, Step{Op: "produce", ID: 2, Mode: "produce", Topic: "t"}, Step{Op: "flush"}, Step{Op: "sleep", Ms: 50}, Step{Op: "fault", Fault: "rejectfirst"},
			Step{Op: "produce", ID: 1, Mode: "produce", Topic: "t"}, Step{Op: "sleep", Ms: 1}, Step{Op: "produce", ID: 3, Mode: "produce", Topic: "t"},
			Step{Op: "sleep", Ms: 1 + r.Intn(3)}, Step{Op: "produce", ID: 5, Mode: "produce", Topic: "t"}, Step{Op: "sleep", Ms: 300}, Step{Op: "flush"})
		return sc
	}
	if r.Intn(8) == 0 {
		sc.Manual = true
	}
	if r.Intn(5) == 0 {
		sc.MaxBytes = 40 + r.Intn(60)
	}
	if r.Intn(3) == 0 {
		sc.PromiseMs = 1 + r.Intn(5)
	}
	if r.Intn(4) == 0 {
		sc.SlowPartMs = 1 + r.Intn(3)
	}
	sc.CloseEarly = r.Intn(4) == 0
	sc.BadParts = r.Intn(5) == 0
	n := 5 + r.Intn(8)
	if tier == "thorough" {
		n += r.Intn(10)
	}
	id := 0
	for i := 0; i < n; i++ {
		switch x := r.Intn(20); {
		case x < 11:
			id++
			st := Step{Op: "produce", ID: id, Mode: []string{"produce", "produce", "produce", "try", "sync"}[r.Intn(5)], Topic: "t"}
			if y := r.Intn(12); y == 0 {
				st.Topic = "u"
			} else if y == 1 {
				st.Topic = ""
			}
			if st.Mode != "try" && r.Intn(4) == 0 {
				st.Ms = 1 + r.Intn(40) // context cancelled after this many virtual ms
			}
			if sc.BadParts && st.Topic == "t" && r.Intn(3) == 0 {
				st.BadPart = true
			}
			sc.Steps = append(sc.Steps, st)
		case x < 13:
			sc.Steps = append(sc.Steps, Step{Op: "flush", Ms: []int{0, 0, 30}[r.Intn(3)]})
		case x < 14:
			sc.Steps = append(sc.Steps, Step{Op: "abort"})
		case x < 15:
			sc.Steps = append(sc.Steps, Step{Op: "purge", Topic: []string{"t", "u"}[r.Intn(2)]})
		case x < 17:
			sc.Steps = append(sc.Steps, Step{Op: "sleep", Ms: 1 + r.Intn(60)})
		default:
			sc.Steps = append(sc.Steps, Step{Op: "fault", Fault: []string{"dropresp", "dropresp", "killconn", "retriable", "fatal", "stall", "stall", "moveleader", "refuse", "stalldropmove"}[r.Intn(10)], N: 1 + r.Intn(2), Ms: 20 + r.Intn(200)})
		}
	}
	// realism constraints on the generated environment:
	//  - a broker that appended a batch never answers its retry with a fatal error, so fabricated fatal codes are not mixed with
	//    "handled, response lost" faults (a fabricated retriable code is harmless: the retry is answered as a duplicate);
	//  - PurgeTopicsFromProducing documents that producing to the purged topic again may silently lose records (sequence
	//    numbers restart under the same producer id), so nothing is produced to a topic after it was purged.
	hasDrop := false
	for _, st := range sc.Steps {
		hasDrop = hasDrop || st.Fault == "dropresp" || st.Fault == "stalldropmove"
	}
	purged := false
	for i := range sc.Steps {
		st := &sc.Steps[i]
		if hasDrop && st.Fault == "fatal" {
			st.Fault = "retriable"
		}
		if st.Op == "purge" && st.Topic == "t" {
			purged = true
		}
		if st.Op == "produce" && purged && st.Topic == "t" {
			st.Topic = "u"
		}
	}
	return sc
}

type hooks struct{ rec *sim.Recorder }

func idOf(r *kgo.Record) int {
	var id int
	fmt.Sscanf(string(r.Value), "r%d", &id)
	return id
}
func errS(err error) string {
	if err == nil {
		return ""
	}
	switch {
	case errors.Is(err, kgo.ErrMaxBuffered):
		return "ErrMaxBuffered"
	case errors.Is(err, kgo.ErrClientClosed):
		return "ErrClientClosed"
	case errors.Is(err, kgo.ErrAborting):
		return "ErrAborting"
	case errors.Is(err, context.Canceled):
		return "canceled"
	case errors.Is(err, context.DeadlineExceeded):
		return "deadline"
	}
	var ke *kerr.Error
	if errors.As(err, &ke) {
		return ke.Message
	}
	return "err:" + err.Error()
}
func (h *hooks) OnProduceRecordBuffered(r *kgo.Record) { h.rec.Ev("hook_buffered", "id", idOf(r)) }
func (h *hooks) OnProduceRecordUnbuffered(r *kgo.Record, err error) {
	h.rec.Ev("hook_unbuffered", "id", idOf(r), "err", errS(err))
}

func runScenario(t *testing.T, rec *sim.Recorder, sc Scenario) {
	synctest.Test(t, func(t *testing.T) {
		rec.ResetSeq()
		js, _ := json.Marshal(sc)
		rec.Ev("reset", "maxRecs", sc.MaxRecs, "maxBytes", sc.MaxBytes, "scenario", string(js))
		var vnet kfake.VirtualNetwork
		chaos := sim.NewChaos()
		var refuseMu sync.Mutex
		refuseUntil := map[string]time.Time{} // broker address -> dials refused until
		dial := func(ctx context.Context, network, addr string) (net.Conn, error) {
			refuseMu.Lock()
			until, ok := refuseUntil[addr]
			refuseMu.Unlock()
			if ok && time.Now().Before(until) {
				return nil, &net.OpError{Op: "dial", Net: network, Err: errors.New("connection refused (injected)")}
			}
			return vnet.DialContext(ctx, network, addr)
		}
		c, err := kfake.NewCluster(kfake.NumBrokers(2), kfake.SeedTopics(2, "t"), kfake.ListenFn(chaos.Listen(vnet.Listen)), kfake.Ports(9092, 9093))
		if err != nil {
			t.Fatal(err)
		}
		kgo.VerifTrace = func(ev string, r *kgo.Record, a, b, cc int64) {
			id := 0
			if r != nil {
				id = idOf(r)
			}
			rec.Ev(ev, "id", id, "buffered", a, "blocked", b, "bytes", cc)
		}
		defer func() { kgo.VerifTrace = nil }()
		opts := []kgo.Opt{
			kgo.SeedBrokers(c.ListenAddrs()...), kgo.Dialer(dial), kgo.WithHooks(&hooks{rec}),
			kgo.MaxBufferedRecords(sc.MaxRecs), kgo.ProducerLinger(time.Duration(sc.LingerMs) * time.Millisecond),
			kgo.UnknownTopicRetries(1), kgo.RecordRetries(4), kgo.RetryBackoffFn(func(int) time.Duration { return 10 * time.Millisecond }),
			kgo.RecordDeliveryTimeout(3 * time.Second), kgo.ProduceRequestTimeout(500 * time.Millisecond), kgo.RequestTimeoutOverhead(500 * time.Millisecond),
			kgo.MetadataMinAge(10 * time.Millisecond),
		}
		if sc.MaxBytes > 0 {
			opts = append(opts, kgo.MaxBufferedBytes(sc.MaxBytes))
		}
		if sc.Manual {
			opts = append(opts, kgo.ManualFlushing())
		}
		if sc.FirstBatch {
			c.MoveTopicPartition("t", 1, c.LeaderFor("t", 0))
			chaos.Latency = 5 * time.Millisecond
		}
		if sc.SlowPartMs > 0 || sc.BadParts || sc.Leaderless || sc.FirstBatch {
			d := time.Duration(sc.SlowPartMs) * time.Millisecond
			opts = append(opts, kgo.RecordPartitioner(kgo.BasicConsistentPartitioner(func(string) func(*kgo.Record, int) int {
				return func(r *kgo.Record, n int) int {
					time.Sleep(d)
					if string(r.Key) == "badpart" {
						return n + 3
					}
					return idOf(r) % n
				}
			})))
		}
		cl, err := kgo.NewClient(opts...)
		if err != nil {
			t.Fatal(err)
		}
		var leaderless atomic.Bool
		if sc.Leaderless {
			tid := c.TopicInfo("t").TopicID
			c.ControlKey(int16(kmsg.Metadata), func(kreq kmsg.Request) (kmsg.Response, error, bool) {
				c.KeepControl()
				req := kreq.(*kmsg.MetadataRequest)
				if !leaderless.Load() || len(req.Topics) != 1 {
					return nil, nil, false
				}
				resp := req.ResponseKind().(*kmsg.MetadataResponse)
				for i, a := range c.ListenAddrs() {
					host, ps, _ := net.SplitHostPort(a)
					port, _ := strconv.Atoi(ps)
					sb := kmsg.NewMetadataResponseBroker()
					sb.NodeID, sb.Host, sb.Port = int32(i), host, int32(port)
					resp.Brokers = append(resp.Brokers, sb)
				}
				st := kmsg.NewMetadataResponseTopic()
				st.Topic, st.TopicID = kmsg.StringPtr("t"), tid
				for p := int32(0); p < 2; p++ {
					sp := kmsg.NewMetadataResponseTopicPartition()
					sp.Partition, sp.Leader, sp.LeaderEpoch = p, c.LeaderFor("t", p), 0
					sp.Replicas, sp.ISR = []int32{sp.Leader}, []int32{sp.Leader}
					if p == 1 {
						sp.ErrorCode, sp.Leader = kerr.LeaderNotAvailable.Code, -1
					}
					st.Partitions = append(st.Partitions, sp)
				}
				resp.Topics = append(resp.Topics, st)
				return resp, nil, true
			})
			c.ControlKey(int16(kmsg.Produce), func(kreq kmsg.Request) (kmsg.Response, error, bool) {
				c.KeepControl()
				req := kreq.(*kmsg.ProduceRequest)
				hasP1 := false
				for _, rt := range req.Topics {
					for _, rp := range rt.Partitions {
						hasP1 = hasP1 || rp.Partition == 1
					}
				}
				if !leaderless.Load() || !hasP1 {
					return nil, nil, false
				}
				resp := req.ResponseKind().(*kmsg.ProduceResponse)
				for _, rt := range req.Topics {
					st := kmsg.NewProduceResponseTopic()
					st.Topic, st.TopicID = rt.Topic, rt.TopicID
					for _, rp := range rt.Partitions {
						sp := kmsg.NewProduceResponseTopicPartition()
						sp.Partition, sp.ErrorCode, sp.BaseOffset = rp.Partition, kerr.NotLeaderForPartition.Code, -1
						sp.CurrentLeader.LeaderID, sp.CurrentLeader.LeaderEpoch = -1, -1
						st.Partitions = append(st.Partitions, sp)
					}
					resp.Topics = append(resp.Topics, st)
				}
				return resp, nil, true
			})
		}
		var wg sync.WaitGroup
		var mu sync.Mutex
		pending := map[string]context.CancelFunc{} // calls that have not returned
		track := func(name string, cancel context.CancelFunc) func() {
			mu.Lock()
			pending[name] = cancel
			mu.Unlock()
			return func() { mu.Lock(); delete(pending, name); mu.Unlock() }
		}
		flushN := 0
		for _, st := range sc.Steps {
			switch st.Op {
			case "produce":
				ctx, cancel := context.WithCancel(context.Background())
				if st.Ms > 0 {
					ms := st.Ms
					go func() { time.Sleep(time.Duration(ms) * time.Millisecond); cancel() }()
				}
				recd := &kgo.Record{Topic: st.Topic, Value: []byte(fmt.Sprintf("r%d", st.ID))}
				if st.BadPart {
					recd.Key = []byte("badpart")
				}
				if st.Topic == "" {
					recd.Topic = ""
				}
				id := st.ID
				promise := func(r *kgo.Record, err error) {
					rec.Ev("promise", "id", id, "err", errS(err), "offset", r.Offset, "partition", r.Partition)
					if sc.PromiseMs > 0 {
						time.Sleep(time.Duration(sc.PromiseMs) * time.Millisecond)
					}
				}
				done := track(fmt.Sprintf("produce %d", id), cancel)
				wg.Add(1)
				go func() {
					defer wg.Done()
					defer done()
					rec.Ev("call", "id", id, "mode", st.Mode)
					switch st.Mode {
					case "try":
						cl.TryProduce(ctx, recd, promise)
					case "sync":
						res := cl.ProduceSync(ctx, recd)
						rec.Ev("promise", "id", id, "err", errS(res.FirstErr()), "offset", recd.Offset, "partition", recd.Partition, "sync", true)
					default:
						cl.Produce(ctx, recd, promise)
					}
					rec.Ev("ret", "id", id)
				}()
			case "flush":
				flushN++
				f := flushN
				ctx, cancel := context.WithCancel(context.Background())
				if st.Ms > 0 {
					ms := st.Ms
					go func() { time.Sleep(time.Duration(ms) * time.Millisecond); cancel() }()
				}
				done := track(fmt.Sprintf("flush %d", f), cancel)
				wg.Add(1)
				go func() {
					defer wg.Done()
					defer done()
					rec.Ev("flush_call", "f", f)
					err := cl.Flush(ctx)
					rec.Ev("flush_ret", "f", f, "err", errS(err))
				}()
			case "abort":
				ctx, cancel := context.WithCancel(context.Background())
				done := track("abort", cancel)
				wg.Add(1)
				go func() {
					defer wg.Done()
					defer done()
					rec.Ev("abort_call")
					err := cl.AbortBufferedRecords(ctx)
					rec.Ev("abort_ret", "err", errS(err))
				}()
			case "purge":
				rec.Ev("purge", "topic", st.Topic)
				cl.PurgeTopicsFromProducing(st.Topic)
			case "sleep":
				time.Sleep(time.Duration(st.Ms) * time.Millisecond)
			case "fault":
				rec.Ev("fault", "fault", st.Fault, "n", st.N)
				n := st.N
				switch st.Fault {
				case "dropresp":
					chaos.DropNext(int16(kmsg.Produce), n)
				case "killconn":
					c.ControlKey(int16(kmsg.Produce), func(kmsg.Request) (kmsg.Response, error, bool) {
						n--
						if n > 0 {
							c.KeepControl()
						} else {
							c.DropControl() // KeepControl is sticky: without this the function would stay forever
						}
						return nil, errors.New("injected connection kill"), true
					})
				case "retriable", "fatal":
					code := kerr.NotLeaderForPartition.Code
					if st.Fault == "fatal" {
						code = kerr.MessageTooLarge.Code
					}
					c.ControlKey(int16(kmsg.Produce), func(kreq kmsg.Request) (kmsg.Response, error, bool) {
						n--
						if n > 0 {
							c.KeepControl()
						} else {
							c.DropControl() // KeepControl is sticky: without this the function would stay forever
						}
						req := kreq.(*kmsg.ProduceRequest)
						resp := req.ResponseKind().(*kmsg.ProduceResponse)
						for _, rt := range req.Topics {
							st := kmsg.NewProduceResponseTopic()
							st.Topic, st.TopicID = rt.Topic, rt.TopicID
							for _, rp := range rt.Partitions {
								sp := kmsg.NewProduceResponseTopicPartition()
								sp.Partition, sp.ErrorCode = rp.Partition, code
								st.Partitions = append(st.Partitions, sp)
							}
							resp.Topics = append(resp.Topics, st)
						}
						return resp, nil, true
					})
				case "moveleader":
					p := int32(n % 2)
					to := int32(0)
					if c.LeaderFor("t", p) == 0 {
						to = 1
					}
					c.MoveTopicPartition("t", p, to)
				case "refuse":
					addrs := c.ListenAddrs()
					refuseMu.Lock()
					refuseUntil[addrs[n%len(addrs)]] = time.Now().Add(time.Duration(st.Ms) * time.Millisecond)
					refuseMu.Unlock()
				case "stall":
					chaos.StallNext(int16(kmsg.Produce), n, time.Duration(st.Ms)*time.Millisecond)
				case "leaderless":
					leaderless.Store(true)
				case "rejectfirst":
					c.ControlKey(int16(kmsg.Produce), func(kreq kmsg.Request) (kmsg.Response, error, bool) {
						req := kreq.(*kmsg.ProduceRequest)
						hasP1 := false
						for _, rt := range req.Topics {
							for _, rp := range rt.Partitions {
								hasP1 = hasP1 || rp.Partition == 1
							}
						}
						if !hasP1 {
							c.KeepControl()
							return nil, nil, false
						}
						c.DropControl()
						resp := req.ResponseKind().(*kmsg.ProduceResponse)
						for _, rt := range req.Topics {
							st := kmsg.NewProduceResponseTopic()
							st.Topic, st.TopicID = rt.Topic, rt.TopicID
							for _, rp := range rt.Partitions {
								sp := kmsg.NewProduceResponseTopicPartition()
								sp.Partition, sp.ErrorCode, sp.BaseOffset = rp.Partition, kerr.NotEnoughReplicas.Code, -1
								st.Partitions = append(st.Partitions, sp)
							}
							resp.Topics = append(resp.Topics, st)
						}
						return resp, nil, true
					})
				case "stalldropmove":
					// the next produce request is handled, its answer held back and then lost; meanwhile the partitions move
					// to the other broker and the client learns about it
					d := time.Duration(st.Ms) * time.Millisecond
					chaos.StallNext(int16(kmsg.Produce), 1, d)
					chaos.DropNext(int16(kmsg.Produce), 1)
					go func() {
						time.Sleep(d / 3)
						for p := int32(0); p < 2; p++ {
							to := int32(0)
							if c.LeaderFor("t", p) == 0 {
								to = 1
							}
							c.MoveTopicPartition("t", p, to)
						}
						cl.ForceMetadataRefresh()
					}()
				}
			}
			synctest.Wait() // quiescence: everything that can run has run
		}
		// give retries and timers their virtual time, then close (or close right away, racing whatever is in flight)
		if !sc.CloseEarly {
			time.Sleep(200 * time.Millisecond)
			synctest.Wait()
			// no more faults, brokers healthy: everything accepted must now complete (retry limits, record timeouts and
			// unknown-topic limits all lie far below this bound)
			chaos.Disarm()
			leaderless.Store(false) // the partition has a leader again
			fctx, fcancel := context.WithTimeout(context.Background(), 3*time.Minute)
			ferr := cl.Flush(fctx)
			fcancel()
			rec.Ev("final_flush", "err", errS(ferr), "buffered", cl.BufferedProduceRecords())
		}
		leaderless.Store(false)
		rec.Ev("close_call")
		closed := make(chan struct{})
		go func() { cl.Close(); close(closed) }()
		select {
		case <-closed:
			rec.Ev("close_ret")
		case <-time.After(2 * time.Minute):
			rec.Ev("close_stuck")
		}
		time.Sleep(5 * time.Second)
		synctest.Wait()
		mu.Lock()
		stuck := []string{}
		for n := range pending {
			stuck = append(stuck, n)
		}
		mu.Unlock()
		// what is in the log now, read by a fresh read_uncommitted consumer
		entries := [][3]int64{}
		{
			cons, err := kgo.NewClient(kgo.SeedBrokers(c.ListenAddrs()...), kgo.Dialer(vnet.DialContext), kgo.ConsumeTopics("t"),
				kgo.FetchIsolationLevel(kgo.ReadUncommitted()), kgo.FetchMaxWait(50*time.Millisecond))
			if err == nil {
				idle := 0
				for idle < 3 {
					ctx, cancel := context.WithTimeout(context.Background(), 300*time.Millisecond)
					fs := cons.PollFetches(ctx)
					cancel()
					if fs.NumRecords() == 0 {
						idle++
						continue
					}
					idle = 0
					fs.EachRecord(func(r *kgo.Record) { entries = append(entries, [3]int64{int64(r.Partition), r.Offset, int64(idOf(r))}) })
				}
				cons.Close()
			}
		}
		rec.Ev("log", "entries", entries)
		rec.Ev("quiesce", "bufferedRecords", cl.BufferedProduceRecords(), "bufferedBytes", cl.BufferedProduceBytes(), "stuck", stuck, "dropped", chaos.Dropped)
		// unstick whatever hangs so that the bubble can end
		mu.Lock()
		for _, cancel := range pending {
			cancel()
		}
		mu.Unlock()
		c.Close()
		wg.Wait()
		time.Sleep(2 * time.Second) // let injected stalls (sleeping control functions) run out before the bubble ends
		synctest.Wait()
	})
}

func TestScenarios(t *testing.T) {
	rec, err := sim.NewRecorder(os.Getenv("VERIF_OUT"))
	if err != nil {
		t.Fatal(err)
	}
	defer rec.Close()
	var scs []Scenario
	if p := os.Getenv("VERIF_SCENARIOS"); p != "" {
		scs, err = raw.ReadNDJSON[Scenario](p)
		if err != nil {
			t.Fatal(err)
		}
	} else {
		n := raw.EnvInt("VERIF_N", 40)
		seed := int64(raw.EnvInt("VERIF_SEED", 1))
		for i := 0; i < n; i++ {
			scs = append(scs, gen(seed*100000+int64(i), os.Getenv("VERIF_TIER")))
		}
	}
	for i, sc := range scs {
		ok := t.Run(fmt.Sprintf("s%d", i), func(t *testing.T) { runScenario(t, rec, sc) })
		if !ok {
			rec.Ev("driver_failed", "scenario", i)
		}
	}
	raw.Emit(map[string]any{"kind": "stat", "scenarios": len(scs), "events": rec.N})
}
