// Package raw has helpers shared by the replayers: building record batches by hand,
// a one-broker kfake cluster with a raw request client, and result emission.
package raw

import (
	"context"
	"encoding/json"
	"fmt"
	"hash/crc32"
	"os"
	"strconv"
	"testing"
	"time"

	"github.com/twmb/franz-go/pkg/kfake"
	"github.com/twmb/franz-go/pkg/kgo"
	"github.com/twmb/franz-go/pkg/kmsg"
)

var crc32c = crc32.MakeTable(crc32.Castagnoli)

// Batch builds the wire bytes of a v2 record batch (FirstOffset 0).
func Batch(pid int64, epoch int16, seq int32, txnal bool, ts int64, vals ...string) []byte {
	b := kmsg.RecordBatch{
		PartitionLeaderEpoch: -1,
		Magic:                2,
		LastOffsetDelta:      int32(len(vals) - 1),
		FirstTimestamp:       ts,
		MaxTimestamp:         ts,
		ProducerID:           pid,
		ProducerEpoch:        epoch,
		FirstSequence:        seq,
		NumRecords:           int32(len(vals)),
	}
	if txnal {
		b.Attributes |= 0x0010
	}
	for i, v := range vals {
		r := kmsg.Record{OffsetDelta: int32(i), Value: []byte(v)}
		r.Length = int32(len(recBody(r)))
		b.Records = append(b.Records, r.AppendTo(nil)...)
	}
	raw := b.AppendTo(nil)
	b.Length = int32(len(raw) - 12)
	raw = b.AppendTo(nil)
	b.CRC = int32(crc32.Checksum(raw[21:], crc32c))
	return b.AppendTo(nil)
}

func recBody(r kmsg.Record) []byte {
	r.Length = 0
	full := r.AppendTo(nil)
	return full[1:] // varint(0) is one byte
}

// Cluster is a kfake cluster plus a client usable for raw requests.
type Cluster struct {
	C  *kfake.Cluster
	Cl *kgo.Client
	ids map[string][16]byte
}

func NewCluster(t testing.TB, opts ...kfake.Opt) *Cluster {
	c, err := kfake.NewCluster(append([]kfake.Opt{kfake.NumBrokers(1)}, opts...)...)
	if err != nil {
		t.Fatal(err)
	}
	cl, err := kgo.NewClient(kgo.SeedBrokers(c.ListenAddrs()...), kgo.RequestRetries(0))
	if err != nil {
		t.Fatal(err)
	}
	t.Cleanup(func() { cl.Close(); c.Close() })
	return &Cluster{C: c, Cl: cl}
}

// TopicID resolves (and caches) a topic's id through a Metadata request.
func (c *Cluster) TopicID(topic string) [16]byte {
	if id, ok := c.ids[topic]; ok {
		return id
	}
	req := kmsg.NewPtrMetadataRequest()
	rt := kmsg.NewMetadataRequestTopic()
	rt.Topic = kmsg.StringPtr(topic)
	req.Topics = append(req.Topics, rt)
	ctx, cancel := Ctx()
	defer cancel()
	resp, err := req.RequestWith(ctx, c.Cl)
	if err != nil || len(resp.Topics) != 1 {
		panic(fmt.Sprintf("metadata for %s: %v", topic, err))
	}
	if c.ids == nil {
		c.ids = map[string][16]byte{}
	}
	c.ids[topic] = resp.Topics[0].TopicID
	return resp.Topics[0].TopicID
}

func Ctx() (context.Context, context.CancelFunc) {
	return context.WithTimeout(context.Background(), 20*time.Second)
}

// Produce sends one batch to (topic, partition) and returns (errorCode, baseOffset).
func (c *Cluster) Produce(topic string, part int32, batch []byte) (int16, int64, error) {
	req := kmsg.NewPtrProduceRequest()
	req.Acks = -1
	req.TimeoutMillis = 5000
	rt := kmsg.NewProduceRequestTopic()
	rt.Topic = topic
	rt.TopicID = c.TopicID(topic)
	rp := kmsg.NewProduceRequestTopicPartition()
	rp.Partition = part
	rp.Records = batch
	rt.Partitions = append(rt.Partitions, rp)
	req.Topics = append(req.Topics, rt)
	ctx, cancel := Ctx()
	defer cancel()
	resp, err := c.Cl.Request(ctx, req)
	if err != nil {
		return 0, 0, err
	}
	pr := resp.(*kmsg.ProduceResponse)
	if len(pr.Topics) != 1 || len(pr.Topics[0].Partitions) != 1 {
		return 0, 0, fmt.Errorf("bad produce response shape")
	}
	p := pr.Topics[0].Partitions[0]
	return p.ErrorCode, p.BaseOffset, nil
}

// Emit prints a result line the orchestrator collects.
func Emit(v any) {
	b, _ := json.Marshal(v)
	fmt.Printf("@@ %s\n", b)
}

func EnvInt(k string, def int) int {
	if s := os.Getenv(k); s != "" {
		if n, err := strconv.Atoi(s); err == nil {
			return n
		}
	}
	return def
}

func ReadNDJSON[T any](path string) ([]T, error) {
	f, err := os.Open(path)
	if err != nil {
		return nil, err
	}
	defer f.Close()
	dec := json.NewDecoder(f)
	var out []T
	for dec.More() {
		var v T
		if err := dec.Decode(&v); err != nil {
			return out, err
		}
		out = append(out, v)
	}
	return out, nil
}
