package c36

// Oracle evaluation (binding O1) for C36: spec/SerdeHdr.tla produces byte strings and verdicts
// for the Confluent wire header; this runner feeds them to pkg/sr.

import (
	"bytes"
	"errors"
	"fmt"
	"os"
	"reflect"
	"testing"

	"github.com/twmb/franz-go/pkg/sr"
	"verif/harness/raw"
)

type caseT struct {
	Kind      string `json:"kind"`
	ID        int    `json:"id"`
	Index     []int  `json:"index"`
	Bytes     []int  `json:"bytes"`
	Verdict   string `json:"verdict"`
	Rest      []int  `json:"rest"`
	Payload   []int  `json:"payload"`
	MaxLength int    `json:"maxLength"`
}
type viol struct {
	Kind string `json:"kind"`
	Key  string `json:"key"`
	What string `json:"what"`
	Case int    `json:"case"`
}

func bs(x []int) []byte {
	b := make([]byte, len(x))
	for i, v := range x {
		b[i] = byte(v)
	}
	return b
}

type (
	t1   struct{ P []byte }
	t20  struct{ P []byte }
	t21  struct{ P []byte }
	t310 struct{ P []byte }
	t300 struct{ P []byte }
)

func classify(err error) string {
	switch {
	case err == nil:
		return "ok"
	case errors.Is(err, sr.ErrBadHeader):
		return "badheader"
	case errors.Is(err, sr.ErrNotRegistered):
		return "notregistered"
	default:
		return "err"
	}
}

func guard(f func()) (panicked any) {
	defer func() { panicked = recover() }()
	f()
	return nil
}

func TestOracle(t *testing.T) {
	cases, err := raw.ReadNDJSON[caseT](os.Getenv("VERIF_IN"))
	if err != nil || len(cases) == 0 {
		t.Fatalf("no cases: %v", err)
	}
	var serde sr.Serde
	enc := func(v any) ([]byte, error) { return reflect.ValueOf(v).Field(0).Bytes(), nil }
	dec := func(b []byte, v any) error {
		reflect.ValueOf(v).Elem().Field(0).SetBytes(append([]byte(nil), b...))
		return nil
	}
	serde.Register(1, t1{}, sr.EncodeFn(enc), sr.DecodeFn(dec))
	serde.Register(2, t20{}, sr.EncodeFn(enc), sr.DecodeFn(dec), sr.Index(0))
	serde.Register(2, t21{}, sr.EncodeFn(enc), sr.DecodeFn(dec), sr.Index(1))
	serde.Register(3, t310{}, sr.EncodeFn(enc), sr.DecodeFn(dec), sr.Index(1, 0))
	serde.Register(300, t300{}, sr.EncodeFn(enc), sr.DecodeFn(dec), sr.Index(2, 63))
	types := map[string]any{"1:[]": t1{}, "2:[0]": t20{}, "2:[1]": t21{}, "3:[1 0]": t310{}, "300:[2 63]": t300{}}
	var h sr.ConfluentHeader
	nviol, counts := 0, map[string]int{}
	report := func(ci int, key, what string) {
		nviol++
		if nviol <= 60 {
			raw.Emit(viol{"viol", key, what, ci})
		}
	}
	for ci, c := range cases {
		counts[c.Kind+"/"+c.Verdict]++
		in := bs(c.Bytes)
		switch c.Kind {
		case "encode":
			payload := []byte{7, 8, 9}
			got, err := sr.Encode(payload, &h, c.ID, c.Index, func(v any) ([]byte, error) { return v.([]byte), nil })
			if err != nil || !bytes.Equal(got, in) {
				report(ci, "encode", fmt.Sprintf("Encode(id=%d,index=%v)=%v err=%v, wire format says %v", c.ID, c.Index, got, err, in))
			}
			// and back through the header decoder
			id, rest, err := h.DecodeID(got)
			if err != nil || id != c.ID {
				report(ci, "encode-decodeid", fmt.Sprintf("DecodeID(Encode(id=%d))=%d err=%v", c.ID, id, err))
			} else if len(c.Index) > 0 {
				idx, rest2, err := h.DecodeIndex(rest, len(c.Index))
				if err != nil || !reflect.DeepEqual(idx, c.Index) || !bytes.Equal(rest2, payload) {
					report(ci, "encode-decodeindex", fmt.Sprintf("DecodeIndex(Encode(index=%v))=%v rest=%v err=%v", c.Index, idx, rest2, err))
				}
			}
		case "decodeid":
			var id int
			var rest []byte
			var err error
			if p := guard(func() { id, rest, err = h.DecodeID(in) }); p != nil {
				report(ci, "decodeid panic", fmt.Sprintf("DecodeID(%v) panicked: %v", in, p))
				continue
			}
			if got := classify(err); got != c.Verdict || (got == "ok" && (id != c.ID || !bytes.Equal(rest, bs(c.Rest)))) {
				report(ci, "decodeid", fmt.Sprintf("DecodeID(%v)=(%d,%v,%v), expected %s id=%d rest=%v", in, id, rest, err, c.Verdict, c.ID, c.Rest))
			}
			if p := guard(func() { err = h.UpdateID(append([]byte(nil), in...), 7) }); p != nil || (classify(err) != c.Verdict) {
				report(ci, "updateid", fmt.Sprintf("UpdateID(%v) err=%v panic=%v, expected %s", in, err, p, c.Verdict))
			}
		case "decodeindex":
			var idx []int
			var rest []byte
			var err error
			if p := guard(func() { idx, rest, err = h.DecodeIndex(in, c.MaxLength) }); p != nil {
				report(ci, "decodeindex panic", fmt.Sprintf("ConfluentHeader.DecodeIndex(%v, maxLength=%d) panicked: %v", in, c.MaxLength, p))
				continue
			}
			got := classify(err)
			bad := got != c.Verdict
			if c.Verdict == "err" && got != "ok" {
				bad = false // any error is acceptable where the format only says "malformed"
			}
			if !bad && got == "ok" && (!reflect.DeepEqual(idx, c.Index) || !bytes.Equal(rest, bs(c.Rest))) {
				bad = true
			}
			if bad {
				report(ci, "decodeindex "+c.Verdict+"->"+got, fmt.Sprintf("DecodeIndex(%v, maxLength=%d)=(%v,%v,%v), expected %s index=%v rest=%v", in, c.MaxLength, idx, rest, err, c.Verdict, c.Index, c.Rest))
			}
		case "serde":
			if c.Verdict == "other" {
				guard(func() { serde.DecodeNew(in) })
				continue
			}
			var v any
			var err error
			if p := guard(func() { v, err = serde.DecodeNew(in) }); p != nil {
				report(ci, "serde panic", fmt.Sprintf("Serde.DecodeNew(%v) panicked: %v", in, p))
				continue
			}
			got := classify(err)
			bad := got != c.Verdict
			if c.Verdict == "err" && got != "ok" {
				bad = false
			}
			if bad {
				report(ci, "serde "+c.Verdict+"->"+got, fmt.Sprintf("Serde.DecodeNew(%v) err=%v, expected %s (id=%d index=%v)", in, err, c.Verdict, c.ID, c.Index))
				continue
			}
			if got != "ok" {
				continue
			}
			key := fmt.Sprintf("%d:%v", c.ID, c.Index)
			if c.ID == 1 {
				key = "1:[]"
			}
			want := types[key]
			if reflect.TypeOf(v).Elem() != reflect.TypeOf(want) || !bytes.Equal(reflect.ValueOf(v).Elem().Field(0).Bytes(), bs(c.Payload)) {
				report(ci, "serde value", fmt.Sprintf("Serde.DecodeNew(%v)=%T%+v, expected %T payload %v", in, v, v, want, c.Payload))
				continue
			}
			// round trip: Encode of the registered value gives the canonical bytes again (only when the input was canonical)
			if c.ID != 1 {
				out, err := serde.Encode(reflect.ValueOf(v).Elem().Interface())
				if err != nil || !bytes.Equal(out, in) {
					report(ci, "serde roundtrip", fmt.Sprintf("Serde.Encode(DecodeNew(%v))=%v err=%v", in, out, err))
				}
				// Decode into an existing value
				nv := reflect.New(reflect.TypeOf(want)).Interface()
				if err := serde.Decode(in, nv); err != nil || !reflect.DeepEqual(nv, v) {
					report(ci, "serde decode", fmt.Sprintf("Serde.Decode(%v) err=%v value %+v vs DecodeNew %+v", in, err, nv, v))
				}
			}
		}
	}
	raw.Emit(map[string]any{"kind": "stat", "cases": len(cases), "by_kind": counts, "violations": nviol})
}
