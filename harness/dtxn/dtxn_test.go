package dtxn

// D-TXN: scenario driver for the transactional properties.
//   mode "txn": C11 — a transactional producer runs several transactions while single requests of the transactional
//               protocol are lost before/after handling or answered with retriable codes; the application retries as
//               documented (TryAbort after a failed commit), sometimes producing in between; a read_committed reader
//               then shows which records are visible.
//   mode "eos": C10 — GroupTransactSession members consume an input topic, produce one output per input and End each
//               transaction, across member churn and connection faults; the read_committed view of the output must
//               hold every input exactly once.
// Validated by TLC against spec/TxnTrace.tla.

import (
	"context"
	"encoding/json"
	"errors"
	"fmt"
	"math/rand"
	"os"
	"sort"
	"sync"
	"testing"
	"testing/synctest"
	"time"

	"github.com/twmb/franz-go/pkg/kerr"
	"github.com/twmb/franz-go/pkg/kfake"
	"github.com/twmb/franz-go/pkg/kgo"
	"github.com/twmb/franz-go/pkg/kmsg"
	"github.com/twmb/franz-go/pkg/kversion"
	"verif/harness/raw"
	"verif/harness/sim"
)

type Fault struct {
	Key  string `json:"key"`  // produce | endtxn | initpid | addparts | txnoffsetcommit | addoffsets
	Kind string `json:"kind"` // dropresp | kill | retriable | concurrent
	N    int    `json:"n"`
}
type Txn struct {
	N          int     `json:"n"`          // records produced
	Commit     bool    `json:"commit"`     // what the application asks for
	Faults     []Fault `json:"faults"`     // armed right before End (EndTxn faults) or before producing (others)
	ProduceGap bool    `json:"produceGap"` // produce one more record between a failed End and the abort retry
	// Kinds, if given, says record by record how the produce goes: "ok", or "ghost" (the broker appends the batch, the answer is
	// lost, and the client's retry is answered with a fatal code: the record is in the log but reported as failed)
	Kinds []string `json:"kinds,omitempty"`
	// AsyncAbortMs > 0: the records are produced without waiting for them and, this many (virtual) ms later, the application
	// aborts: AbortBufferedRecords + End(TryAbort) while batches may be in flight or being retried
	AsyncAbortMs int `json:"asyncAbortMs,omitempty"`
}
type Step struct {
	Op string `json:"op"` // join | stop | produce_in | sleep | fault
	M  int    `json:"m,omitempty"`
	N  int    `json:"n,omitempty"`
	Ms int    `json:"ms,omitempty"`
	F  *Fault `json:"f,omitempty"`
}
type Scenario struct {
	Seed  int64  `json:"seed"`
	Mode  string `json:"mode"`
	Txns  []Txn  `json:"txns,omitempty"`
	Steps []Step `json:"steps,omitempty"`
	Proto string `json:"proto,omitempty"`
	// GapMs (eos): how long a member takes between a poll that returned records and Begin (a rebalance can land in between)
	GapMs int  `json:"gapMs,omitempty"`
	Old   bool `json:"old,omitempty"` // brokers before KIP-890 part 2 (no epoch bump per transaction): kfake capped at 3.7
	// Expect is carried through untouched: what spec/Txn.tla says EndTransaction reports and which records end up visible
	// (scenarios exported from the specification; compared by the check, not by the driver)
	Expect json.RawMessage `json:"expect,omitempty"`
}

var keyOf = map[string]kmsg.Key{"produce": kmsg.Produce, "endtxn": kmsg.EndTxn, "initpid": kmsg.InitProducerID, "addparts": kmsg.AddPartitionsToTxn,
	"txnoffsetcommit": kmsg.TxnOffsetCommit, "addoffsets": kmsg.AddOffsetsToTxn}

func gen(seed int64, tier, mode string) Scenario {
	r := rand.New(rand.NewSource(seed))
	sc := Scenario{Seed: seed, Mode: mode}
	fault := func(keys []string) Fault {
		f := Fault{Key: keys[r.Intn(len(keys))], Kind: []string{"dropresp", "dropresp", "kill", "retriable", "concurrent"}[r.Intn(5)], N: 1 + r.Intn(2)}
		if f.Kind == "dropresp" {
			// Fault model: an acknowledgement lost after the broker acted is recovered by the client's own retry. A second loss in
			// a row hits a fresh connection whose first request gets no answer, which kgo classifies as non-retriable; the outcome of
			// an EndTxn is then unknowable for any client, so that sequence is outside what C11 can promise.
			f.N = 1
		}
		return f
	}
	if mode == "txn" {
		sc.Old = r.Intn(2) == 0
		n := 2 + r.Intn(3)
		for i := 0; i < n; i++ {
			t := Txn{N: r.Intn(4), Commit: r.Intn(4) != 0}
			dropped := map[string]bool{}
			for k := r.Intn(3); k > 0; k-- {
				f := fault([]string{"produce", "endtxn", "endtxn", "initpid", "addparts"})
				if f.Kind == "dropresp" {
					if dropped[f.Key] {
						continue // at most one lost acknowledgement per request kind (see the fault model above)
					}
					dropped[f.Key] = true
				}
				t.Faults = append(t.Faults, f)
			}
			t.ProduceGap = r.Intn(3) == 0
			if r.Intn(4) == 0 && t.N > 0 {
				// abort in the middle of producing; the acknowledgement of the first attempt is lost and the retry is answered
				// with a retriable error, so the batch is in its retry loop when the abort comes
				t.AsyncAbortMs = []int{5, 15, 30, 60, 150}[r.Intn(5)]
				t.Commit = false
				t.Faults = []Fault{{Key: "produce", Kind: "dropthenretriable", N: 1 + r.Intn(3)}}
			}
			if len(sc.Txns) > 0 && sc.Txns[len(sc.Txns)-1].AsyncAbortMs > 0 {
				t.N = sc.Txns[len(sc.Txns)-1].N // same batch shape right after the aborted one
				t.Commit = true
				t.AsyncAbortMs = 0
				t.Faults = nil
			}
			sc.Txns = append(sc.Txns, t)
		}
		sc.Txns = append(sc.Txns, Txn{N: 2, Commit: true}) // a clean committed transaction at the end: nothing earlier may ride along
		return sc
	}
	sc.Proto = []string{"coop", "coop", "range", "848"}[r.Intn(4)]
	sc.GapMs = []int{0, 0, 150, 600, 1500}[r.Intn(5)]
	sc.Steps = append(sc.Steps, Step{Op: "produce_in", N: 6 + r.Intn(8)}, Step{Op: "join", M: 1})
	live := map[int]bool{1: true}
	droppedEOS := map[string]bool{}
	n := 5 + r.Intn(7)
	for i := 0; i < n; i++ {
		switch x := r.Intn(10); {
		case x < 2:
			m := 1 + r.Intn(3)
			if !live[m] {
				live[m] = true
				sc.Steps = append(sc.Steps, Step{Op: "join", M: m})
			}
		case x < 3:
			for m := range live {
				if len(live) > 1 {
					delete(live, m)
					sc.Steps = append(sc.Steps, Step{Op: "stop", M: m})
				}
				break
			}
		case x < 5:
			sc.Steps = append(sc.Steps, Step{Op: "produce_in", N: 2 + r.Intn(8)})
		case x < 7:
			f := fault([]string{"produce", "endtxn", "txnoffsetcommit", "addoffsets"})
			if f.Kind == "dropresp" {
				if droppedEOS[f.Key] {
					continue // single-loss fault model: one lost acknowledgement per request kind per pipeline
				}
				droppedEOS[f.Key] = true
			}
			sc.Steps = append(sc.Steps, Step{Op: "fault", F: &f})
		default:
			sc.Steps = append(sc.Steps, Step{Op: "sleep", Ms: 50 + r.Intn(1500)})
		}
	}
	return sc
}

func arm(c *kfake.Cluster, chaos *sim.Chaos, rec *sim.Recorder, f Fault) {
	key := int16(keyOf[f.Key])
	rec.Ev("fault", "key", f.Key, "kind", f.Kind, "n", f.N)
	n := f.N
	switch f.Kind {
	case "dropresp":
		chaos.DropNext(key, n)
	case "kill":
		c.ControlKey(key, func(kmsg.Request) (kmsg.Response, error, bool) {
			n--
			if n > 0 {
				c.KeepControl()
			} else {
				c.DropControl() // KeepControl is sticky: without this the function would stay forever
			}
			if os.Getenv("VERIF_DEBUG_TXN") != "" {
				rec.Ev("dbg_kill", "key", f.Key, "left", n)
			}
			return nil, errors.New("injected connection kill"), true
		})
	case "dropthenfatal":
		// produce: the request is handled and its acknowledgement lost; the retry is answered TRANSACTION_ABORTABLE
		chaos.DropNext(key, 1)
		first := true
		c.ControlKey(key, func(kreq kmsg.Request) (kmsg.Response, error, bool) {
			if first {
				first = false
				c.KeepControl()
				return nil, nil, false
			}
			c.DropControl()
			req := kreq.(*kmsg.ProduceRequest)
			resp := req.ResponseKind().(*kmsg.ProduceResponse)
			for _, rt := range req.Topics {
				st := kmsg.NewProduceResponseTopic()
				st.Topic, st.TopicID = rt.Topic, rt.TopicID
				for _, rp := range rt.Partitions {
					sp := kmsg.NewProduceResponseTopicPartition()
					sp.Partition, sp.ErrorCode, sp.BaseOffset = rp.Partition, kerr.TransactionAbortable.Code, -1
					st.Partitions = append(st.Partitions, sp)
				}
				resp.Topics = append(resp.Topics, st)
			}
			return resp, nil, true
		})
	case "dropthenretriable":
		// produce: the first request is handled and its acknowledgement lost; the next n are answered NOT_LEADER_FOR_PARTITION
		chaos.DropNext(key, 1)
		first := true
		c.ControlKey(key, func(kreq kmsg.Request) (kmsg.Response, error, bool) {
			if first {
				first = false
				c.KeepControl()
				return nil, nil, false
			}
			n--
			if n > 0 {
				c.KeepControl()
			} else {
				c.DropControl()
			}
			req := kreq.(*kmsg.ProduceRequest)
			resp := req.ResponseKind().(*kmsg.ProduceResponse)
			for _, rt := range req.Topics {
				st := kmsg.NewProduceResponseTopic()
				st.Topic, st.TopicID = rt.Topic, rt.TopicID
				for _, rp := range rt.Partitions {
					sp := kmsg.NewProduceResponseTopicPartition()
					sp.Partition, sp.ErrorCode = rp.Partition, kerr.NotLeaderForPartition.Code
					st.Partitions = append(st.Partitions, sp)
				}
				resp.Topics = append(resp.Topics, st)
			}
			return resp, nil, true
		})
	case "retriable", "concurrent", "fatal":
		code := kerr.CoordinatorLoadInProgress.Code
		if f.Kind == "concurrent" {
			code = kerr.ConcurrentTransactions.Code
		}
		if f.Kind == "fatal" {
			// answered without being handled, with a code the client does not retry: EndTransaction returns the error
			code = kerr.UnknownServerError.Code
		}
		c.ControlKey(key, func(kreq kmsg.Request) (kmsg.Response, error, bool) {
			n--
			if n > 0 {
				c.KeepControl()
			} else {
				c.DropControl() // KeepControl is sticky: without this the function would stay forever
			}
			switch req := kreq.(type) {
			case *kmsg.EndTxnRequest:
				resp := req.ResponseKind().(*kmsg.EndTxnResponse)
				resp.ErrorCode = code
				return resp, nil, true
			case *kmsg.InitProducerIDRequest:
				resp := req.ResponseKind().(*kmsg.InitProducerIDResponse)
				resp.ErrorCode = code
				return resp, nil, true
			case *kmsg.AddOffsetsToTxnRequest:
				resp := req.ResponseKind().(*kmsg.AddOffsetsToTxnResponse)
				resp.ErrorCode = code
				return resp, nil, true
			}
			return nil, nil, false // other request kinds: no fabricated answer, handled normally
		})
	}
}

func idOf(r *kgo.Record) int {
	var id int
	fmt.Sscanf(string(r.Value), "r%d", &id)
	return id
}

func readCommitted(c *kfake.Cluster, vnet *kfake.VirtualNetwork, topic string) []int {
	cons, err := kgo.NewClient(kgo.SeedBrokers(c.ListenAddrs()...), kgo.Dialer(vnet.DialContext), kgo.ConsumeTopics(topic),
		kgo.FetchIsolationLevel(kgo.ReadCommitted()), kgo.FetchMaxWait(50*time.Millisecond))
	ids := []int{}
	if err != nil {
		return ids
	}
	defer cons.Close()
	for idle := 0; idle < 4; {
		ctx, cancel := context.WithTimeout(context.Background(), 400*time.Millisecond)
		fs := cons.PollFetches(ctx)
		cancel()
		if fs.NumRecords() == 0 {
			idle++
			continue
		}
		idle = 0
		fs.EachRecord(func(r *kgo.Record) { ids = append(ids, idOf(r)) })
	}
	return ids
}

func runTxn(t *testing.T, rec *sim.Recorder, sc Scenario) {
	synctest.Test(t, func(t *testing.T) {
		rec.ResetSeq()
		js, _ := json.Marshal(sc)
		rec.Ev("reset", "mode", sc.Mode, "scenario", string(js))
		var vnet kfake.VirtualNetwork
		chaos := sim.NewChaos()
		copts := []kfake.Opt{kfake.NumBrokers(2), kfake.SeedTopics(2, "out"), kfake.ListenFn(chaos.Listen(vnet.Listen)), kfake.Ports(9092, 9093)}
		if sc.Old {
			copts = append(copts, kfake.MaxVersions(kversion.V3_7_0()))
		}
		c, err := kfake.NewCluster(copts...)
		if err != nil {
			t.Fatal(err)
		}
		cl, err := kgo.NewClient(kgo.SeedBrokers(c.ListenAddrs()...), kgo.Dialer(vnet.DialContext), kgo.TransactionalID("tx"), kgo.TransactionTimeout(2*time.Minute),
			kgo.RetryBackoffFn(func(int) time.Duration { return 20 * time.Millisecond }), kgo.RequestTimeoutOverhead(500*time.Millisecond), kgo.RequestRetries(4),
			kgo.DefaultProduceTopic("out"), kgo.MetadataMinAge(10*time.Millisecond))
		if err != nil {
			t.Fatal(err)
		}
		nextID := 0
		ctxT := func() (context.Context, context.CancelFunc) {
			return context.WithTimeout(context.Background(), 20*time.Second)
		}
		produce := func(k, n int) {
			for i := 0; i < n; i++ {
				nextID++
				id := nextID
				ctx, cancel := ctxT()
				err := cl.ProduceSync(ctx, &kgo.Record{Value: []byte(fmt.Sprintf("r%d", id))}).FirstErr()
				cancel()
				rec.Ev("produced", "id", id, "txn", k, "ok", err == nil, "err", fmt.Sprint(err))
			}
		}
		for k, tx := range sc.Txns {
			k++
			if err := cl.BeginTransaction(); err != nil {
				rec.Ev("begin_failed", "txn", k, "err", err.Error())
				continue
			}
			rec.Ev("txn_begin", "txn", k)
			for _, f := range tx.Faults {
				if f.Key != "endtxn" {
					arm(c, chaos, rec, f)
				}
			}
			var ferr error
			var ctx context.Context
			var cancel context.CancelFunc
			if tx.AsyncAbortMs > 0 {
				for i := 0; i < tx.N; i++ {
					nextID++
					id := nextID
					cl.Produce(context.Background(), &kgo.Record{Value: []byte(fmt.Sprintf("r%d", id)), Partition: 0}, func(_ *kgo.Record, err error) {
						rec.Ev("produced", "id", id, "txn", k, "ok", err == nil, "err", fmt.Sprint(err))
					})
				}
				time.Sleep(time.Duration(tx.AsyncAbortMs) * time.Millisecond)
				ctx, cancel = ctxT()
				ferr = cl.AbortBufferedRecords(ctx)
				cancel()
				rec.Ev("abort_buffered", "txn", k, "err", fmt.Sprint(ferr))
				ferr = errors.New("application aborts")
			} else {
				if len(tx.Kinds) > 0 {
					for _, kind := range tx.Kinds {
						if kind == "ghost" {
							arm(c, chaos, rec, Fault{Key: "produce", Kind: "dropthenfatal", N: 1})
						}
						produce(k, 1)
					}
				} else {
					produce(k, tx.N)
				}
				ctx, cancel = ctxT()
				ferr = cl.Flush(ctx)
				cancel()
			}
			for _, f := range tx.Faults {
				if f.Key == "endtxn" {
					arm(c, chaos, rec, f)
				}
			}
			want := kgo.TryCommit
			if !tx.Commit || ferr != nil {
				want = kgo.TryAbort
			}
			ctx, cancel = ctxT()
			err := cl.EndTransaction(ctx, want)
			cancel()
			rec.Ev("end_ret", "txn", k, "commit", bool(want), "err", fmt.Sprint(err), "ok", err == nil)
			outcome := "aborted"
			if err == nil && want == kgo.TryCommit {
				outcome = "committed"
			}
			if err != nil {
				// the documented recovery: the outcome is unknown to the application, so it aborts
				if tx.ProduceGap {
					produce(k, 1) // an application that keeps producing before it retries the end
				}
				outcome = "error"
				for try := 0; try < 3; try++ {
					ctx, cancel = ctxT()
					err2 := cl.EndTransaction(ctx, kgo.TryAbort)
					cancel()
					rec.Ev("end_ret", "txn", k, "commit", false, "err", fmt.Sprint(err2), "ok", err2 == nil, "retry", try+1)
					if err2 == nil {
						outcome = "aborted"
						break
					}
					time.Sleep(200 * time.Millisecond)
				}
			}
			rec.Ev("txn_outcome", "txn", k, "outcome", outcome)
			chaos.Disarm() // a lost acknowledgement that was armed but never used (no request of that kind was sent) must not pile up
			synctest.Wait()
		}
		cl.Close()
		vis := readCommitted(c, &vnet, "out")
		sort.Ints(vis)
		rec.Ev("visible", "ids", vis)
		c.Close()
		time.Sleep(2 * time.Second)
		synctest.Wait()
	})
}

func runEOS(t *testing.T, rec *sim.Recorder, sc Scenario) {
	synctest.Test(t, func(t *testing.T) {
		rec.ResetSeq()
		js, _ := json.Marshal(sc)
		rec.Ev("reset", "mode", sc.Mode, "scenario", string(js))
		var vnet kfake.VirtualNetwork
		chaos := sim.NewChaos()
		c, err := kfake.NewCluster(kfake.NumBrokers(2), kfake.SeedTopics(3, "in", "out"), kfake.ListenFn(chaos.Listen(vnet.Listen)), kfake.Ports(9092, 9093),
			kfake.BrokerConfigs(map[string]string{"group.consumer.heartbeat.interval.ms": "1000"}))
		if err != nil {
			t.Fatal(err)
		}
		base := []kgo.Opt{kgo.SeedBrokers(c.ListenAddrs()...), kgo.Dialer(vnet.DialContext), kgo.MetadataMinAge(10 * time.Millisecond),
			kgo.RetryBackoffFn(func(int) time.Duration { return 30 * time.Millisecond }), kgo.RequestTimeoutOverhead(500 * time.Millisecond)}
		prod, err := kgo.NewClient(base...)
		if err != nil {
			t.Fatal(err)
		}
		nextIn := 0
		type member struct {
			sess   *kgo.GroupTransactSession
			cancel context.CancelFunc
			done   chan struct{}
		}
		members := map[int]*member{}
		var mu sync.Mutex
		join := func(m int) {
			name := fmt.Sprintf("m%d", m)
			opts := append([]kgo.Opt{kgo.ConsumerGroup("g"), kgo.ConsumeTopics("in"), kgo.TransactionalID("eos-" + name), kgo.TransactionTimeout(2 * time.Minute),
				kgo.FetchIsolationLevel(kgo.ReadCommitted()), kgo.RequireStableFetchOffsets(), kgo.FetchMaxWait(300 * time.Millisecond),
				kgo.SessionTimeout(30 * time.Second), kgo.HeartbeatInterval(500 * time.Millisecond), kgo.RequestRetries(6)}, base...)
			switch sc.Proto {
			case "range":
				opts = append(opts, kgo.Balancers(kgo.RangeBalancer()))
			case "848":
				opts = append(opts, kgo.WithContext(context.WithValue(context.Background(), "opt_in_kafka_next_gen_balancer_beta", true)))
			}
			sess, err := kgo.NewGroupTransactSession(opts...)
			if err != nil {
				t.Fatal(err)
			}
			ctx, cancel := context.WithCancel(context.Background())
			mb := &member{sess: sess, cancel: cancel, done: make(chan struct{})}
			mu.Lock()
			members[m] = mb
			mu.Unlock()
			rec.Ev("join", "m", name)
			go func() {
				defer close(mb.done)
				for ctx.Err() == nil {
					pctx, pc := context.WithTimeout(ctx, 300*time.Millisecond)
					fs := sess.PollRecords(pctx, 3)
					pc()
					if fs.IsClientClosed() {
						return
					}
					if fs.NumRecords() == 0 {
						continue
					}
					if sc.GapMs > 0 {
						time.Sleep(time.Duration(sc.GapMs) * time.Millisecond)
					}
					if err := sess.Begin(); err != nil {
						rec.Ev("note", "what", "begin: "+err.Error())
						return
					}
					var ids []int
					fs.EachRecord(func(r *kgo.Record) {
						ids = append(ids, idOf(r))
						sess.Produce(context.Background(), &kgo.Record{Topic: "out", Value: r.Value}, nil)
					})
					time.Sleep(20 * time.Millisecond)
					ectx, ec := context.WithTimeout(context.Background(), 30*time.Second)
					committed, err := sess.End(ectx, kgo.TryCommit)
					ec()
					rec.Ev("eos_end", "m", name, "ids", ids, "committed", committed, "err", fmt.Sprint(err))
					if err != nil && !committed {
						// documented: on error, abort; the records will be consumed again
						actx, ac := context.WithTimeout(context.Background(), 30*time.Second)
						sess.End(actx, kgo.TryAbort)
						ac()
					}
				}
			}()
		}
		stop := func(m int) {
			mu.Lock()
			mb := members[m]
			delete(members, m)
			mu.Unlock()
			if mb == nil {
				return
			}
			mb.cancel()
			<-mb.done
			mb.sess.Close()
			rec.Ev("stopped", "m", fmt.Sprintf("m%d", m))
		}
		for _, st := range sc.Steps {
			switch st.Op {
			case "produce_in":
				var recs []*kgo.Record
				for i := 0; i < st.N; i++ {
					nextIn++
					recs = append(recs, &kgo.Record{Topic: "in", Value: []byte(fmt.Sprintf("r%d", nextIn))})
				}
				ctx, cancel := context.WithTimeout(context.Background(), 10*time.Second)
				if err := prod.ProduceSync(ctx, recs...).FirstErr(); err != nil {
					t.Fatal(err)
				}
				cancel()
				rec.Ev("input", "upto", nextIn)
			case "join":
				if members[st.M] == nil {
					join(st.M)
				}
			case "stop":
				stop(st.M)
			case "sleep":
				time.Sleep(time.Duration(st.Ms) * time.Millisecond)
			case "fault":
				arm(c, chaos, rec, *st.F)
			}
			synctest.Wait()
		}
		// let the remaining members finish the input, then stop them gracefully
		time.Sleep(60 * time.Second)
		synctest.Wait()
		var ms []int
		for m := range members {
			ms = append(ms, m)
		}
		sort.Ints(ms)
		for _, m := range ms {
			stop(m)
		}
		out := readCommitted(c, &vnet, "out")
		sort.Ints(out)
		rec.Ev("eos_visible", "inputs", nextIn, "out", out)
		prod.Close()
		c.Close()
		time.Sleep(2 * time.Second)
		synctest.Wait()
	})
}

func TestScenarios(t *testing.T) {
	rec, err := sim.NewRecorder(os.Getenv("VERIF_OUT"))
	if err != nil {
		t.Fatal(err)
	}
	defer rec.Close()
	var scs []Scenario
	if p := os.Getenv("VERIF_SCENARIOS"); p != "" {
		if scs, err = raw.ReadNDJSON[Scenario](p); err != nil {
			t.Fatal(err)
		}
	} else {
		n := raw.EnvInt("VERIF_N", 20)
		seed := int64(raw.EnvInt("VERIF_SEED", 1))
		mode := os.Getenv("VERIF_MODE")
		if mode == "" {
			mode = "txn"
		}
		for i := 0; i < n; i++ {
			scs = append(scs, gen(seed*100000+int64(i), os.Getenv("VERIF_TIER"), mode))
		}
	}
	for i, sc := range scs {
		f := runTxn
		if sc.Mode == "eos" {
			f = runEOS
		}
		if ok := t.Run(fmt.Sprintf("s%d", i), func(t *testing.T) { f(t, rec, sc) }); !ok {
			rec.Ev("driver_failed", "scenario", i)
		}
	}
	raw.Emit(map[string]any{"kind": "stat", "scenarios": len(scs), "events": rec.N})
}
