// Package c33: crash-point enumeration for kfake persistence (DataDir + SyncWrites). A workload runs on the recording
// file system; for every prefix of its journal and every loss mode a post-crash image is built, kfake is restarted on
// it and its state read back through the protocol. Events are validated against spec/PersistTrace.tla.
package c33

import (
	"context"
	"fmt"
	"math/rand"
	"os"
	"sort"
	"sync"
	"testing"
	"time"

	"github.com/twmb/franz-go/pkg/kadm"
	"github.com/twmb/franz-go/pkg/kfake"
	"github.com/twmb/franz-go/pkg/kgo"
	"verif/harness/crashfs"
	"verif/harness/raw"
	"verif/harness/sim"
)

type ack struct {
	At    int    // journal length when the acknowledgement was received
	Kind  string // produce | commit | txn
	ID    string // produce: record value; commit: group/topic/partition
	Part  int32
	Off   int64 // commit: committed offset
	Topic string
}

type state struct {
	Records map[string][]string // "t/p" -> values in offset order
	Offsets map[string][]int64
	Commits map[string]int64 // "g/t/p" -> offset
	Err     string
}

func readState(addrs []string, groups []string) state {
	st := state{Records: map[string][]string{}, Offsets: map[string][]int64{}, Commits: map[string]int64{}}
	ctx, cancel := context.WithTimeout(context.Background(), 20*time.Second)
	defer cancel()
	cl, err := kgo.NewClient(kgo.SeedBrokers(addrs...), kgo.DisableClientMetrics(), kgo.FetchMaxWait(50*time.Millisecond),
		kgo.FetchIsolationLevel(kgo.ReadCommitted()))
	if err != nil {
		st.Err = err.Error()
		return st
	}
	defer cl.Close()
	adm := kadm.NewClient(cl)
	ends, err := adm.ListCommittedOffsets(ctx) // last stable offsets: what a read_committed reader can reach
	if err != nil {
		st.Err = "list offsets: " + err.Error()
		return st
	}
	starts, err := adm.ListStartOffsets(ctx)
	if err != nil {
		st.Err = "list start offsets: " + err.Error()
		return st
	}
	assign := map[string]map[int32]kgo.Offset{}
	ends.Each(func(o kadm.ListedOffset) {
		if o.Err != nil {
			st.Err = fmt.Sprintf("list %s/%d: %v", o.Topic, o.Partition, o.Err)
			return
		}
		k := fmt.Sprintf("%s/%d", o.Topic, o.Partition)
		st.Records[k] = nil
		s, _ := starts.Lookup(o.Topic, o.Partition)
		if o.Offset > s.Offset {
			if assign[o.Topic] == nil {
				assign[o.Topic] = map[int32]kgo.Offset{}
			}
			assign[o.Topic][o.Partition] = kgo.NewOffset().At(s.Offset)
		}
	})
	if st.Err != "" {
		return st
	}
	if len(assign) > 0 {
		cl.AddConsumePartitions(assign)
		empty := 0
		for empty < 2 && ctx.Err() == nil {
			pctx, pc := context.WithTimeout(ctx, 250*time.Millisecond)
			fs := cl.PollFetches(pctx)
			pc()
			for _, e := range fs.Errors() {
				if e.Err != context.DeadlineExceeded && e.Err != context.Canceled {
					st.Err = fmt.Sprintf("fetch %s/%d: %v", e.Topic, e.Partition, e.Err)
					return st
				}
			}
			if fs.NumRecords() == 0 {
				empty++
				continue
			}
			empty = 0
			fs.EachPartition(func(p kgo.FetchTopicPartition) {
				k := fmt.Sprintf("%s/%d", p.Topic, p.Partition)
				for _, r := range p.Records {
					st.Records[k] = append(st.Records[k], string(r.Value))
					st.Offsets[k] = append(st.Offsets[k], r.Offset)
				}
			})
		}
	}
	for _, g := range groups {
		os, err := adm.FetchOffsets(ctx, g)
		if err != nil {
			continue // group unknown: nothing committed
		}
		os.Each(func(o kadm.OffsetResponse) {
			if o.Err == nil && o.At >= 0 {
				st.Commits[fmt.Sprintf("%s/%s/%d", g, o.Topic, o.Partition)] = o.At
			}
		})
	}
	return st
}

type workload struct {
	journal []crashfs.Op
	acks    []ack
	sent    map[string]bool // every record value ever sent (acked or not)
	final   state           // state observed right before the clean Close
	closeAt int             // journal length when Close began
	groups  []string
}

func runWorkload(t *testing.T, seed int64) workload {
	r := rand.New(rand.NewSource(seed))
	fs := crashfs.New()
	c, err := kfake.NewCluster(kfake.NumBrokers(1), kfake.DataDir("/data"), kfake.SyncWrites(), kfake.VerifWithFS(fs), kfake.SeedTopics(2, "t"))
	if err != nil {
		t.Fatal(err)
	}
	w := workload{sent: map[string]bool{}, groups: []string{"g-one", "g-two"}}
	ctx, cancel := context.WithTimeout(context.Background(), 60*time.Second)
	defer cancel()
	p, _ := kgo.NewClient(kgo.SeedBrokers(c.ListenAddrs()...), kgo.DisableClientMetrics(), kgo.RecordPartitioner(kgo.ManualPartitioner()), kgo.DefaultProduceTopic("t"))
	defer p.Close()
	adm := kadm.NewClient(p)
	txp, _ := kgo.NewClient(kgo.SeedBrokers(c.ListenAddrs()...), kgo.DisableClientMetrics(), kgo.RecordPartitioner(kgo.ManualPartitioner()), kgo.DefaultProduceTopic("t"), kgo.TransactionalID("tx-c33"))
	defer txp.Close()
	id := 0
	produced := map[int32]int64{}
	produce := func(cl *kgo.Client, part int32, kind string) {
		id++
		v := fmt.Sprintf("r%d", id)
		w.sent[v] = true
		if err := cl.ProduceSync(ctx, &kgo.Record{Partition: part, Value: []byte(v)}).FirstErr(); err != nil {
			t.Fatalf("produce: %v", err)
		}
		if kind == "produce" {
			w.acks = append(w.acks, ack{At: fs.Len(), Kind: "produce", ID: v, Part: part, Topic: "t"})
		}
		produced[part]++
	}
	steps := 10 + r.Intn(8)
	for i := 0; i < steps; i++ {
		switch x := r.Intn(10); {
		case x < 5:
			produce(p, int32(r.Intn(2)), "produce")
		case x < 7:
			g := w.groups[r.Intn(2)]
			part := int32(r.Intn(2))
			off := int64(r.Intn(int(produced[part]) + 1))
			var os kadm.Offsets
			os.Add(kadm.Offset{Topic: "t", Partition: part, At: off, LeaderEpoch: -1})
			if _, err := adm.CommitOffsets(ctx, g, os); err != nil {
				t.Fatalf("commit: %v", err)
			}
			w.acks = append(w.acks, ack{At: fs.Len(), Kind: "commit", ID: fmt.Sprintf("%s/t/%d", g, part), Off: off})
		case x < 9:
			// a transaction of 1-2 records, committed or aborted
			if err := txp.BeginTransaction(); err != nil {
				t.Fatalf("begin: %v", err)
			}
			n := 1 + r.Intn(2)
			var vals []string
			var parts []int32
			for j := 0; j < n; j++ {
				part := int32(r.Intn(2))
				produce(txp, part, "txn")
				vals = append(vals, fmt.Sprintf("r%d", id))
				parts = append(parts, part)
			}
			commit := r.Intn(3) != 0
			how := kgo.TryAbort
			if commit {
				how = kgo.TryCommit
			}
			if err := txp.EndTransaction(ctx, how); err != nil {
				t.Fatalf("end txn: %v", err)
			}
			for j, v := range vals {
				if commit {
					w.acks = append(w.acks, ack{At: fs.Len(), Kind: "produce", ID: v, Part: parts[j], Topic: "t"})
				} else {
					w.acks = append(w.acks, ack{At: fs.Len(), Kind: "aborted", ID: v, Part: parts[j], Topic: "t"})
				}
			}
		default:
			if _, err := adm.CreateTopic(ctx, 1, 1, nil, fmt.Sprintf("extra%d", i)); err != nil {
				t.Fatalf("create topic: %v", err)
			}
			w.acks = append(w.acks, ack{At: fs.Len(), Kind: "topic", ID: fmt.Sprintf("extra%d", i)})
		}
	}
	w.final = readState(c.ListenAddrs(), w.groups)
	if w.final.Err != "" {
		t.Fatalf("reading the live state: %s", w.final.Err)
	}
	p.Close()
	txp.Close()
	c.Close()
	// second life on the same directory: a clean restart, a few more acknowledged produces and commits (no segment roll),
	// then another clean Close. Crash points inside this phase meet state written by the first Close (snapshots).
	c2, err := kfake.NewCluster(kfake.NumBrokers(1), kfake.DataDir("/data"), kfake.SyncWrites(), kfake.VerifWithFS(fs))
	if err != nil {
		t.Fatalf("clean restart failed: %v", err)
	}
	p2, _ := kgo.NewClient(kgo.SeedBrokers(c2.ListenAddrs()...), kgo.DisableClientMetrics(), kgo.RecordPartitioner(kgo.ManualPartitioner()), kgo.DefaultProduceTopic("t"))
	adm2 := kadm.NewClient(p2)
	for i := 0; i < 3+r.Intn(4); i++ {
		if r.Intn(4) != 0 {
			produce(p2, int32(r.Intn(2)), "produce")
		} else {
			g := w.groups[r.Intn(2)]
			part := int32(r.Intn(2))
			off := int64(r.Intn(int(produced[part]) + 1))
			var os kadm.Offsets
			os.Add(kadm.Offset{Topic: "t", Partition: part, At: off, LeaderEpoch: -1})
			if _, err := adm2.CommitOffsets(ctx, g, os); err != nil {
				t.Fatalf("commit: %v", err)
			}
			w.acks = append(w.acks, ack{At: fs.Len(), Kind: "commit", ID: fmt.Sprintf("%s/t/%d", g, part), Off: off})
		}
	}
	w.final = readState(c2.ListenAddrs(), w.groups)
	if w.final.Err != "" {
		t.Fatalf("reading the live state (second life): %s", w.final.Err)
	}
	p2.Close()
	w.closeAt = fs.Len()
	c2.Close()
	w.journal = fs.Journal
	return w
}

type postResult struct {
	Ran        bool
	Produced   int
	Err        string
	Missing    []string
	Contiguous bool
}

// postLife produces to the recovered cluster and reads it again without restarting it.
func postLife(addrs []string, groups []string, before state) (res postResult) {
	res.Ran, res.Contiguous = true, true
	if _, ok := before.Records["t/0"]; !ok {
		res.Ran = false // the topic itself did not survive (crash before its creation was durable): nothing to produce to
		return
	}
	ctx, cancel := context.WithTimeout(context.Background(), 20*time.Second)
	defer cancel()
	p, err := kgo.NewClient(kgo.SeedBrokers(addrs...), kgo.DisableClientMetrics(), kgo.RecordPartitioner(kgo.ManualPartitioner()), kgo.DefaultProduceTopic("t"))
	if err != nil {
		res.Err = err.Error()
		return
	}
	var want []string
	for i := 0; i < 2; i++ {
		for part := int32(0); part < 2; part++ {
			if _, ok := before.Records[fmt.Sprintf("t/%d", part)]; !ok {
				continue
			}
			v := fmt.Sprintf("post-%d-%d", part, i)
			if err := p.ProduceSync(ctx, &kgo.Record{Partition: part, Value: []byte(v)}).FirstErr(); err != nil {
				res.Err = "produce after recovery: " + err.Error()
				p.Close()
				return
			}
			want = append(want, v)
		}
	}
	p.Close()
	res.Produced = len(want)
	after := readState(addrs, groups)
	if after.Err != "" {
		res.Err = "reading after recovery and " + fmt.Sprint(len(want)) + " further acknowledged produces: " + after.Err
		return
	}
	got := recordSet(after)
	for v := range recordSet(before) {
		want = append(want, v)
	}
	for _, v := range want {
		if _, ok := got[v]; !ok {
			res.Missing = append(res.Missing, v)
		}
	}
	sort.Strings(res.Missing)
	for _, offs := range after.Offsets {
		for i := 1; i < len(offs); i++ {
			if offs[i] <= offs[i-1] {
				res.Contiguous = false
			}
		}
	}
	return
}

func recordSet(st state) map[string]string {
	m := map[string]string{}
	for k, vs := range st.Records {
		for _, v := range vs {
			m[v] = k
		}
	}
	return m
}

func TestCrashPoints(t *testing.T) {
	rec, err := sim.NewRecorder(os.Getenv("VERIF_OUT"))
	if err != nil {
		t.Fatal(err)
	}
	defer rec.Close()
	nw := raw.EnvInt("VERIF_N", 1)
	seed := int64(raw.EnvInt("VERIF_SEED", 1))
	stride := raw.EnvInt("VERIF_STRIDE", 1)
	images, ops := 0, 0
	for wi := 0; wi < nw; wi++ {
		w := runWorkload(t, seed*1000+int64(wi))
		ops += len(w.journal)
		type job struct {
			n    int
			mode string
		}
		var jobs []job
		for n := 0; n <= len(w.journal); n++ {
			if n%stride != 0 && n != len(w.journal) && n < w.closeAt {
				continue
			}
			for _, m := range []string{"keep", "lose", "cut"} {
				jobs = append(jobs, job{n, m})
			}
		}
		type result struct {
			j    job
			st   state
			post postResult
		}
		results := make([]result, len(jobs))
		var wg sync.WaitGroup
		sem := make(chan struct{}, 12)
		for i, j := range jobs {
			wg.Add(1)
			sem <- struct{}{}
			go func() {
				defer wg.Done()
				defer func() { <-sem }()
				var st state
				var post postResult
				func() {
					defer func() {
						if r := recover(); r != nil {
							st.Err = fmt.Sprintf("panic during restart: %v", r)
						}
					}()
					img := crashfs.Image(w.journal, j.n, j.mode)
					c, err := kfake.NewCluster(kfake.NumBrokers(1), kfake.DataDir("/data"), kfake.SyncWrites(), kfake.VerifWithFS(img))
					if err != nil {
						st.Err = "restart failed: " + err.Error()
						return
					}
					st = readState(c.ListenAddrs(), w.groups)
					if st.Err == "" {
						// the recovered broker keeps working: two more acknowledged produces per partition of "t", then everything is
						// read again from the same incarnation (positions derived during recovery must still address the files)
						post = postLife(c.ListenAddrs(), w.groups, st)
					}
					c.Close()
				}()
				results[i] = result{j, st, post}
			}()
		}
		wg.Wait()
		for _, res := range results {
			images++
			j, st := res.j, res.st
			rec.ResetSeq()
			rec.Ev("reset", "workload", wi, "seed", seed*1000+int64(wi), "prefix", j.n, "of", len(w.journal), "mode", j.mode, "clean", j.n == len(w.journal) && j.mode == "keep")
			var op string
			if j.n > 0 {
				o := w.journal[j.n-1]
				op = fmt.Sprintf("%s %s%s", o.Kind, o.Path, func() string {
					if o.Path2 != "" {
						return " -> " + o.Path2
					}
					return ""
				}())
			}
			rec.Ev("crash", "after_op", op)
			if st.Err != "" {
				rec.Ev("restart_failed", "err", st.Err)
				continue
			}
			got := recordSet(st)
			var ackedProduce, missing, aborted, unknown []string
			for _, a := range w.acks {
				if a.At > j.n {
					continue
				}
				switch a.Kind {
				case "produce":
					ackedProduce = append(ackedProduce, a.ID)
					if _, ok := got[a.ID]; !ok {
						missing = append(missing, a.ID)
					}
				case "aborted":
					if _, ok := got[a.ID]; ok {
						aborted = append(aborted, a.ID)
					}
				}
			}
			for v := range got {
				if !w.sent[v] {
					unknown = append(unknown, v)
				}
			}
			contiguous := true
			for _, offs := range st.Offsets {
				for i := 1; i < len(offs); i++ {
					if offs[i] <= offs[i-1] {
						contiguous = false
					}
				}
			}
			// committed offsets: the last acknowledged commit per key must be there, or a later sent one
			lastAck := map[string]int64{}
			sentLater := map[string]map[int64]bool{}
			for _, a := range w.acks {
				if a.Kind != "commit" {
					continue
				}
				if a.At <= j.n {
					lastAck[a.ID] = a.Off
					sentLater[a.ID] = map[int64]bool{}
				} else {
					if sentLater[a.ID] == nil {
						sentLater[a.ID] = map[int64]bool{}
					}
					sentLater[a.ID][a.Off] = true
				}
			}
			var lostCommits []string
			for k, off := range lastAck {
				if g, ok := st.Commits[k]; !ok || (g != off && !sentLater[k][g]) {
					lostCommits = append(lostCommits, fmt.Sprintf("%s acked %d recovered %v", k, off, st.Commits[k]))
				}
			}
			sort.Strings(missing)
			sort.Strings(lostCommits)
			same := true
			if j.n == len(w.journal) && j.mode == "keep" {
				same = fmt.Sprint(st.Records) == fmt.Sprint(w.final.Records) && fmt.Sprint(st.Commits) == fmt.Sprint(w.final.Commits)
			}
			nn := func(x []string) []string {
				if x == nil {
					return []string{}
				}
				return x
			}
			missing, aborted, unknown, lostCommits = nn(missing), nn(aborted), nn(unknown), nn(lostCommits)
			if res.post.Ran {
				rec.Ev("after_recovery", "produced", res.post.Produced, "err", res.post.Err, "missing", nn(res.post.Missing), "contiguous", res.post.Contiguous)
			}
			rec.Ev("recovered", "acked", len(ackedProduce), "missing", missing, "aborted_visible", aborted, "unknown", unknown, "contiguous", contiguous, "lost_commits", lostCommits, "identical_after_clean_close", same,
				"records", len(got))
		}
	}
	raw.Emit(map[string]any{"kind": "stat", "workloads": nw, "images": images, "ops": ops, "events": rec.N})
}
