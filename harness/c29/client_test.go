package c29

// Replays the scenarios of spec/SeqClient.tla on the real idempotent producer against kfake (virtual time, virtual
// network): the partition's sequence state is placed just below 2^31 (VerifSetProduceSequence), each batch of the
// scenario is produced and flushed while the scenario's faults hit its transmissions (answer lost after the broker
// appended; retriable error without append). Every produce request the client writes is captured and decoded: the
// (first sequence, record count) of every transmission must be exactly the specification's.

import (
	"context"
	"encoding/binary"
	"fmt"
	"os"
	"sync"
	"testing"
	"testing/synctest"
	"time"

	"github.com/twmb/franz-go/pkg/kadm"
	"github.com/twmb/franz-go/pkg/kerr"
	"github.com/twmb/franz-go/pkg/kfake"
	"github.com/twmb/franz-go/pkg/kgo"
	"github.com/twmb/franz-go/pkg/kmsg"
	"verif/harness/raw"
	"verif/harness/sim"
)

type send struct {
	S     int64  `json:"s"`
	N     int32  `json:"n"`
	Fault string `json:"fault"` // what happens to this transmission: "", "lost", "err"
}

type scenario struct {
	Start   int64   `json:"start"`
	Batches []int32 `json:"batches"`
	Sends   []send  `json:"sends"`
}

type frame struct {
	Seq   int32
	N     int32
	Epoch int16
	PID   int64
}

func runClient(t *testing.T, sc scenario, seqMod int64) (frames []frame, errs []string, offsets []int64, end int64) {
	synctest.Test(t, func(t *testing.T) {
		var vnet kfake.VirtualNetwork
		chaos := sim.NewChaos()
		chaos.Latency = time.Millisecond
		c, err := kfake.NewCluster(kfake.NumBrokers(1), kfake.SeedTopics(2, "t"), kfake.ListenFn(chaos.Listen(vnet.Listen)), kfake.Ports(9092))
		if err != nil {
			t.Fatal(err)
		}
		var mu sync.Mutex
		chaos.OnFrame = func(key, version int16, f []byte) {
			if key != int16(kmsg.Produce) {
				return
			}
			body := f[8:]
			n := int(int16(binary.BigEndian.Uint16(body)))
			body = body[2:]
			if n > 0 {
				body = body[n:]
			}
			req := kmsg.NewPtrProduceRequest()
			req.SetVersion(version)
			if req.IsFlexible() {
				body = body[1:]
			}
			if err := req.ReadFrom(body); err != nil {
				mu.Lock()
				errs = append(errs, "produce frame does not decode: "+err.Error())
				mu.Unlock()
				return
			}
			for _, rt := range req.Topics {
				for _, rp := range rt.Partitions {
					if rp.Partition != 0 {
						continue
					}
					var b kmsg.RecordBatch
					if err := b.ReadFrom(rp.Records); err != nil {
						mu.Lock()
						errs = append(errs, "record batch does not decode: "+err.Error())
						mu.Unlock()
						continue
					}
					mu.Lock()
					frames = append(frames, frame{b.FirstSequence, b.NumRecords, b.ProducerEpoch, b.ProducerID})
					mu.Unlock()
				}
			}
		}
		cl, err := kgo.NewClient(kgo.SeedBrokers(c.ListenAddrs()...), kgo.Dialer(vnet.DialContext), kgo.DisableClientMetrics(),
			kgo.DefaultProduceTopic("t"), kgo.RecordPartitioner(kgo.ManualPartitioner()), kgo.ProducerLinger(time.Second),
			kgo.MaxProduceRequestsInflightPerBroker(1), kgo.MetadataMinAge(10*time.Millisecond))
		if err != nil {
			t.Fatal(err)
		}
		ctx, cancel := context.WithTimeout(context.Background(), 10*time.Minute)
		defer cancel()
		// warm-up on partition 1: loads the topic and the producer id; partition 0 stays unseen by the broker
		if err := cl.ProduceSync(ctx, &kgo.Record{Partition: 1, Value: []byte("warm")}).FirstErr(); err != nil {
			t.Fatal(err)
		}
		if !kgo.VerifSetProduceSequence(cl, "t", 0, mapSeq(sc.Start, seqMod)) {
			t.Fatal("VerifSetProduceSequence refused")
		}
		// faults by ordinal of the produce request (1 is the warm-up)
		errAt := map[int]bool{}
		for i, s := range sc.Sends {
			switch s.Fault {
			case "lost":
				chaos.DropResponse(int16(kmsg.Produce), i+2)
			case "err":
				errAt[i+2] = true
			}
		}
		seen := 1
		c.ControlKey(int16(kmsg.Produce), func(kreq kmsg.Request) (kmsg.Response, error, bool) {
			c.KeepControl()
			seen++
			if !errAt[seen] {
				return nil, nil, false
			}
			req := kreq.(*kmsg.ProduceRequest)
			resp := req.ResponseKind().(*kmsg.ProduceResponse)
			for _, rt := range req.Topics {
				st := kmsg.NewProduceResponseTopic()
				st.Topic, st.TopicID = rt.Topic, rt.TopicID
				for _, rp := range rt.Partitions {
					sp := kmsg.NewProduceResponseTopicPartition()
					sp.Partition, sp.ErrorCode = rp.Partition, kerr.NotLeaderForPartition.Code
					st.Partitions = append(st.Partitions, sp)
				}
				resp.Topics = append(resp.Topics, st)
			}
			return resp, nil, true
		})
		for bi, n := range sc.Batches {
			for i := int32(0); i < n; i++ {
				cl.Produce(ctx, &kgo.Record{Partition: 0, Value: []byte(fmt.Sprintf("b%d-%d", bi, i))}, func(r *kgo.Record, err error) {
					mu.Lock()
					defer mu.Unlock()
					if err != nil {
						errs = append(errs, fmt.Sprintf("record %s failed: %v", r.Value, err))
						return
					}
					offsets = append(offsets, r.Offset)
				})
			}
			fctx, fcancel := context.WithTimeout(ctx, 3*time.Minute)
			if err := cl.Flush(fctx); err != nil {
				mu.Lock()
				errs = append(errs, fmt.Sprintf("flush of batch %d: %v", bi, err))
				mu.Unlock()
			}
			fcancel()
		}
		c.DropControl()
		chaos.OnFrame = nil
		end = -1
		if lo, err := kadm.NewClient(cl).ListEndOffsets(ctx, "t"); err == nil {
			if o, ok := lo.Lookup("t", 0); ok && o.Err == nil {
				end = o.Offset
			}
		}
		cl.Close()
		c.Close()
		time.Sleep(2 * time.Second)
		synctest.Wait()
	})
	return
}

func TestClient(t *testing.T) {
	scs, err := raw.ReadNDJSON[scenario](os.Getenv("VERIF_IN"))
	if err != nil || len(scs) == 0 {
		t.Fatalf("no scenarios: %v", err)
	}
	seqMod := int64(raw.EnvInt("VERIF_SEQMOD", 32))
	nviol, wraps, sends := 0, 0, 0
	for si, sc := range scs {
		var frames []frame
		var errs []string
		var offsets []int64
		var end int64
		ok := t.Run(fmt.Sprintf("s%d", si), func(t *testing.T) { frames, errs, offsets, end = runClient(t, sc, seqMod) })
		var total int64
		for _, n := range sc.Batches {
			total += int64(n)
		}
		sends += len(sc.Sends)
		for _, s := range sc.Sends {
			if s.S+int64(s.N) >= seqMod {
				wraps++
				break
			}
		}
		report := func(key, what string) {
			nviol++
			if nviol <= 40 {
				raw.Emit(viol{"viol", key, fmt.Sprintf("%s; scenario start=%d batches=%v transmissions=%v", what, mapSeq(sc.Start, seqMod), sc.Batches, sc.Sends), si, 0})
			}
		}
		if !ok {
			report("client driver", "driver failed")
			continue
		}
		for _, e := range errs {
			report("client produce error", e)
		}
		match := len(frames) == len(sc.Sends)
		for i := 0; match && i < len(frames); i++ {
			match = frames[i].Seq == mapSeq(sc.Sends[i].S, seqMod) && frames[i].N == sc.Sends[i].N && frames[i].Epoch == frames[0].Epoch && frames[i].PID == frames[0].PID
		}
		if !match {
			want := []string{}
			for _, s := range sc.Sends {
				want = append(want, fmt.Sprintf("(seq %d, %d records)", mapSeq(s.S, seqMod), s.N))
			}
			report("client transmissions", fmt.Sprintf("the producer wrote batches %+v for the partition, the specification's transmissions are %v", frames, want))
		}
		if end != total {
			report("client log end", fmt.Sprintf("the partition holds %d records after producing %d", end, total))
		}
		for i, o := range offsets {
			if o != int64(i) {
				report("client offsets", fmt.Sprintf("records were acknowledged at offsets %v, expected 0..%d in order", offsets, total-1))
				break
			}
		}
		if int64(len(offsets)) != total && len(errs) == 0 {
			report("client promises", fmt.Sprintf("%d of %d records acknowledged", len(offsets), total))
		}
	}
	raw.Emit(map[string]any{"kind": "stat", "scenarios": len(scs), "transmissions": sends, "crossing_wrap": wraps, "violations": nviol})
}
