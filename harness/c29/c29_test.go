package c29

// Replays TLC-generated behaviours of spec/SeqWindow.tla on the real code:
//  (a) kgo's incrementSequence (client),
//  (b) kfake's pidwindow directly,
//  (c) a real kfake cluster, through raw idempotent ProduceRequests.
// The model's modulus SeqMod stands for 2^31: the top half of 0..SeqMod-1 is mapped to the
// top of 0..2^31-1, the bottom half to itself, so the model's wrap is the real wrap.

import (
	"fmt"
	"os"
	"testing"

	"github.com/twmb/franz-go/pkg/kerr"
	"github.com/twmb/franz-go/pkg/kfake"
	"github.com/twmb/franz-go/pkg/kgo"
	"verif/harness/raw"
)

type op struct {
	Ep   int16  `json:"ep"`
	S    int64  `json:"s"`
	N    int32  `json:"n"`
	Out  string `json:"out"`
	Off  int64  `json:"off"`
	Next int64  `json:"next"`
}

type viol struct {
	Kind string `json:"kind"`
	Key  string `json:"key"`
	What string `json:"what"`
	Beh  int    `json:"beh"`
	Step int    `json:"step"`
}

func mapSeq(s int64, seqMod int64) int32 {
	if s >= seqMod/2 {
		return int32((int64(1) << 31) - (seqMod - s))
	}
	return int32(s)
}

func TestReplay(t *testing.T) {
	behs, err := raw.ReadNDJSON[[]op](os.Getenv("VERIF_IN"))
	if err != nil || len(behs) == 0 {
		t.Fatalf("no behaviours: %v", err)
	}
	seqMod := int64(raw.EnvInt("VERIF_SEQMOD", 16))
	c := raw.NewCluster(t, kfake.SeedTopics(1, "t"))
	nviol, steps := 0, 0
	report := func(v viol) {
		nviol++
		if nviol <= 40 {
			raw.Emit(v)
		}
	}
	var hwm int64
	for bi, beh := range behs {
		pid := int64(1000 + bi)
		base := hwm
		var w kfake.VerifPidWindow
		var whwm int64
		for si, o := range beh {
			steps++
			rs := mapSeq(o.S, seqMod)
			// (a) client arithmetic
			crossesSeam := o.S < seqMod/2 && o.S+int64(o.N) >= seqMod/2 // artefact of the scaled modulus, only on rejected ops
			if got, want := kgo.VerifIncrementSequence(rs, o.N), mapSeq(o.Next, seqMod); got != want && !crossesSeam {
				report(viol{"viol", fmt.Sprintf("client-inc s=%d n=%d", rs, o.N), fmt.Sprintf("incrementSequence(%d,%d)=%d want %d", rs, o.N, got, want), bi, si})
			}
			// (b) window directly (fenced epochs are decided outside the window)
			if o.Out != "fenced" {
				ok, dup, off := w.Push(o.Ep, rs, o.N, whwm)
				got := "ooosn"
				if ok && dup {
					got = "dup"
				} else if ok {
					got = "append"
					off = whwm
					whwm += int64(o.N)
				}
				if got != o.Out || (got != "ooosn" && off != o.Off) {
					report(viol{"viol", fmt.Sprintf("window %s->%s s=%d n=%d", o.Out, got, rs, o.N),
						fmt.Sprintf("pidwindow step %d of %v: got %s off=%d, spec %s off=%d", si, beh, got, off, o.Out, o.Off), bi, si})
				}
			}
			// (c) real kfake over the wire
			vals := make([]string, o.N)
			for i := range vals {
				vals[i] = fmt.Sprintf("b%d-s%d-%d", bi, si, i)
			}
			code, off, err := c.Produce("t", 0, raw.Batch(pid, o.Ep, rs, false, 1000, vals...))
			if err != nil {
				t.Fatalf("produce: %v", err)
			}
			var got string
			switch code {
			case 0:
				if off == hwm {
					got = "append"
					hwm += int64(o.N)
				} else {
					got = "dup"
				}
			case kerr.OutOfOrderSequenceNumber.Code:
				got = "ooosn"
			case kerr.InvalidProducerEpoch.Code:
				got = "fenced"
			default:
				got = fmt.Sprintf("code%d", code)
			}
			if got != o.Out || ((got == "append" || got == "dup") && off-base != o.Off) {
				report(viol{"viol", fmt.Sprintf("kfake %s->%s s=%d n=%d", o.Out, got, rs, o.N),
					fmt.Sprintf("kfake produce step %d of %v (real seq %d): got %s off=%d, spec %s off=%d", si, beh, rs, got, off-base, o.Out, o.Off), bi, si})
				// resynchronise: nothing to do, next behaviour uses a fresh pid and the measured hwm
			}
		}
	}
	raw.Emit(map[string]any{"kind": "stat", "behaviours": len(behs), "steps": steps, "violations": nviol})
}

// Large-increment arithmetic: TLC cannot hold 2^31, so the rule (s+n) mod 2^31 is evaluated here over
// boundary classes with 64-bit arithmetic (transcription of Inc in SeqWindow.tla) against client and window.
func TestBoundaryArithmetic(t *testing.T) {
	const M = int64(1) << 31
	vals := []int64{0, 1, 2, 5, 1 << 15, 1<<30 - 1, 1 << 30, M/2 + 1, M - 6, M - 5, M - 3, M - 2, M - 1}
	n, bad := 0, 0
	for _, s := range vals {
		for _, k := range vals {
			if k == 0 {
				continue
			}
			n++
			want := int32((s + k) % M)
			if got := kgo.VerifIncrementSequence(int32(s), int32(k)); got != want {
				bad++
				raw.Emit(viol{"viol", fmt.Sprintf("client-inc s=%d n=%d", s, k), fmt.Sprintf("incrementSequence(%d,%d)=%d want %d", s, k, got, want), -1, 0})
			}
			var w kfake.VerifPidWindow
			w.Push(0, int32(s), int32(k), 0)
			if ok, dup, _ := w.Push(0, want, 1, int64(k)); !ok || dup {
				bad++
				raw.Emit(viol{"viol", fmt.Sprintf("window-next s=%d n=%d", s, k), fmt.Sprintf("after batch (s=%d,n=%d) the next batch at %d was not accepted (ok=%v dup=%v)", s, k, want, ok, dup), -1, 0})
			}
		}
	}
	raw.Emit(map[string]any{"kind": "stat", "pairs": n, "violations": bad})
}
