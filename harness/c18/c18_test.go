// Package c18: produce requests as written on the wire. Real producers (every produce version kfake serves, every
// codec, transactional or not, many topics / partitions, record sizes on varint and limit boundaries, small
// BrokerMaxWriteBytes / ProducerBatchMaxBytes) run against kfake behind a frame-capturing listener; each Produce frame is
// decoded by an independent decoder and checked; its structure is written out for TLC to validate against
// spec/ProduceEnc.tla (layout length and limits).
package c18

import (
	"bytes"
	"compress/gzip"
	"context"
	"encoding/binary"
	"encoding/json"
	"fmt"
	"hash/crc32"
	"io"
	"math/rand"
	"net"
	"os"
	"sort"
	"strings"
	"sync"
	"testing"
	"time"

	"github.com/klauspost/compress/s2"
	"github.com/klauspost/compress/zstd"
	"github.com/pierrec/lz4/v4"
	"github.com/twmb/franz-go/pkg/kfake"
	"github.com/twmb/franz-go/pkg/kgo"
	"github.com/twmb/franz-go/pkg/kversion"
	"verif/harness/raw"
	"verif/harness/sim"
)

type Case struct {
	Seed       int64  `json:"seed"`
	Version    int16  `json:"version"`
	Topics     int    `json:"topics"`
	Parts      int    `json:"parts"`
	NameLen    int    `json:"nameLen"`
	Records    int    `json:"records"`
	Codec      string `json:"codec"`
	Txn        bool   `json:"txn"`
	ClientID   int    `json:"clientIdLen"`
	MaxWrite   int32  `json:"maxWrite"`
	MaxBatch   int32  `json:"maxBatch"`
	ValueClass int    `json:"valueClass"`
}

func gen(seed int64) Case {
	r := rand.New(rand.NewSource(seed))
	if seed%6 == 0 {
		// requests filled to the brim with hundreds of tiny batches: every per-partition byte of the layout counts
		return Case{Seed: seed, Version: []int16{7, 9, 11, 12, 13}[r.Intn(5)], Topics: 1 + r.Intn(3), Parts: []int{130, 400}[r.Intn(2)], NameLen: []int{3, 17, 127, 200}[r.Intn(4)], Records: 1,
			Codec: "none", Txn: r.Intn(5) == 0, ClientID: []int{0, 3}[r.Intn(2)], MaxWrite: []int32{4096, 8192}[r.Intn(2)], MaxBatch: 1024, ValueClass: r.Intn(2)}
	}
	if seed%6 == 2 {
		// very compressible large batches: the compact length prefix written before compression shrinks by more than one byte
		return Case{Seed: seed, Version: []int16{8, 9, 11, 13}[r.Intn(4)], Topics: 1 + r.Intn(2), Parts: 1 + r.Intn(2), NameLen: 5, Records: 1 + r.Intn(2),
			Codec: []string{"zstd", "gzip", "zstd", "lz4", "snappy"}[r.Intn(5)], ClientID: 3, MaxWrite: 1 << 20, MaxBatch: 1 << 18, ValueClass: 4 + r.Intn(2)}
	}
	if seed%6 == 1 {
		// the first request on a connection is packed before the produce version is known: short names against topic ids
		return Case{Seed: seed, Version: []int16{12, 13, 13}[r.Intn(3)], Topics: []int{40, 120}[r.Intn(2)], Parts: 1 + r.Intn(3), NameLen: []int{3, 5, 11}[r.Intn(3)], Records: 1,
			Codec: "none", ClientID: []int{0, 3}[r.Intn(2)], MaxWrite: []int32{4096, 8192}[r.Intn(2)], MaxBatch: 1024, ValueClass: r.Intn(2)}
	}
	return Case{Seed: seed, Version: []int16{3, 5, 7, 8, 9, 10, 11, 12, 13}[r.Intn(9)], Topics: []int{1, 2, 5, 40}[r.Intn(4)], Parts: []int{1, 3, 8, 130}[r.Intn(4)],
		NameLen: []int{3, 16, 17, 126, 127, 200}[r.Intn(6)], Records: []int{1, 2, 5, 20}[r.Intn(4)], Codec: []string{"none", "none", "gzip", "snappy", "lz4", "zstd"}[r.Intn(6)],
		Txn: r.Intn(4) == 0, ClientID: []int{0, 3, 127, 128}[r.Intn(4)], MaxWrite: []int32{8192, 16384, 1 << 20}[r.Intn(3)], MaxBatch: []int32{512, 1024, 8192}[r.Intn(3)], ValueClass: r.Intn(4)}
}

type frame struct {
	version int16
	data    []byte
}

type part struct {
	Index    int32 `json:"index"`
	BatchLen int   `json:"batchLen"`
}
type topicRow struct {
	Name  int    `json:"name"`
	Parts []int  `json:"parts"`
	key   string // name or hex id
	ps    []part
	raw   [][]byte
}
type Row struct {
	Kind     string     `json:"kind"`
	Case     int        `json:"case"`
	Version  int        `json:"version"`
	ClientID int        `json:"clientId"`
	TxnID    int        `json:"txnId"`
	Topics   []topicRow `json:"topics"`
	Size     int        `json:"size"`     // bytes on the wire including the 4-byte size prefix
	Limit    int        `json:"limit"`    // BrokerMaxWriteBytes
	MaxBatch int        `json:"maxBatch"` // ProducerBatchMaxBytes
}

const nullLen = 99999

func uvarint(b []byte) (uint64, int) { return binary.Uvarint(b) }

// decodeProduce parses a produce request frame (header + body) of version 3..13.
func decodeProduce(f []byte) (row Row, err error) {
	defer func() {
		if r := recover(); r != nil {
			err = fmt.Errorf("frame does not parse as a produce request: %v", r)
		}
	}()
	v := int16(binary.BigEndian.Uint16(f[2:]))
	flex := v >= 9
	p := 8
	n := int(int16(binary.BigEndian.Uint16(f[p:])))
	p += 2
	row.ClientID = nullLen
	if n >= 0 {
		row.ClientID = n
		p += n
	}
	if flex {
		if f[p] != 0 {
			return row, fmt.Errorf("request header tags not empty")
		}
		p++
	}
	row.TxnID = nullLen
	if flex {
		l, m := uvarint(f[p:])
		p += m
		if l > 0 {
			row.TxnID = int(l - 1)
			p += int(l - 1)
		}
	} else {
		n := int(int16(binary.BigEndian.Uint16(f[p:])))
		p += 2
		if n >= 0 {
			row.TxnID = n
			p += n
		}
	}
	p += 2 + 4 // acks, timeout
	var nt int
	if flex {
		l, m := uvarint(f[p:])
		p += m
		nt = int(l) - 1
	} else {
		nt = int(int32(binary.BigEndian.Uint32(f[p:])))
		p += 4
	}
	for i := 0; i < nt; i++ {
		var t topicRow
		switch {
		case v >= 13:
			t.key = fmt.Sprintf("%x", f[p:p+16])
			t.Name = 16
			p += 16
		case flex:
			l, m := uvarint(f[p:])
			p += m
			t.key = string(f[p : p+int(l)-1])
			t.Name = int(l) - 1
			p += int(l) - 1
		default:
			n := int(binary.BigEndian.Uint16(f[p:]))
			p += 2
			t.key = string(f[p : p+n])
			t.Name = n
			p += n
		}
		var np int
		if flex {
			l, m := uvarint(f[p:])
			p += m
			np = int(l) - 1
		} else {
			np = int(int32(binary.BigEndian.Uint32(f[p:])))
			p += 4
		}
		for j := 0; j < np; j++ {
			idx := int32(binary.BigEndian.Uint32(f[p:]))
			p += 4
			var bl int
			if flex {
				l, m := uvarint(f[p:])
				p += m
				bl = int(l) - 1
			} else {
				bl = int(int32(binary.BigEndian.Uint32(f[p:])))
				p += 4
			}
			if bl < 0 {
				return row, fmt.Errorf("null record set")
			}
			t.ps = append(t.ps, part{idx, bl})
			t.Parts = append(t.Parts, bl)
			t.raw = append(t.raw, f[p:p+bl])
			p += bl
			if flex {
				if f[p] != 0 {
					return row, fmt.Errorf("partition tags not empty")
				}
				p++
			}
		}
		if flex {
			if f[p] != 0 {
				return row, fmt.Errorf("topic tags not empty")
			}
			p++
		}
		row.Topics = append(row.Topics, t)
	}
	if flex {
		if f[p] != 0 {
			return row, fmt.Errorf("request tags not empty")
		}
		p++
	}
	if p != len(f) {
		return row, fmt.Errorf("%d trailing bytes after the request", len(f)-p)
	}
	row.Version = int(v)
	row.Size = len(f) + 4
	return row, nil
}

var castagnoli = crc32.MakeTable(crc32.Castagnoli)

func decompress(codec int, in []byte) ([]byte, error) {
	switch codec {
	case 0:
		return in, nil
	case 1:
		r, err := gzip.NewReader(bytes.NewReader(in))
		if err != nil {
			return nil, err
		}
		return io.ReadAll(r)
	case 2:
		if len(in) > 16 && bytes.HasPrefix(in, []byte{130, 83, 78, 65, 80, 80, 89, 0}) { // xerial framing
			var out []byte
			in = in[16:]
			for len(in) >= 4 {
				n := int(binary.BigEndian.Uint32(in))
				b, err := s2.Decode(nil, in[4:4+n])
				if err != nil {
					return nil, err
				}
				out = append(out, b...)
				in = in[4+n:]
			}
			return out, nil
		}
		return s2.Decode(nil, in)
	case 3:
		return io.ReadAll(lz4.NewReader(bytes.NewReader(in)))
	case 4:
		d, err := zstd.NewReader(bytes.NewReader(in))
		if err != nil {
			return nil, err
		}
		defer d.Close()
		return io.ReadAll(d)
	}
	return nil, fmt.Errorf("codec %d", codec)
}

type decBatch struct {
	base       int64
	pid        int64
	epoch      int16
	seq        int32
	txn        bool
	codec      int
	values     []string
	timestamps []int64
}

// decodeBatch checks one record batch v2 field by field.
func decodeBatch(b []byte) (d decBatch, err error) {
	defer func() {
		if r := recover(); r != nil {
			err = fmt.Errorf("batch does not parse: %v", r)
		}
	}()
	if len(b) < 61 {
		return d, fmt.Errorf("batch shorter than its header: %d", len(b))
	}
	d.base = int64(binary.BigEndian.Uint64(b))
	if l := int(binary.BigEndian.Uint32(b[8:])); l != len(b)-12 {
		return d, fmt.Errorf("batch length field %d, actual %d", l, len(b)-12)
	}
	if b[16] != 2 {
		return d, fmt.Errorf("magic %d", b[16])
	}
	if crc := binary.BigEndian.Uint32(b[17:]); crc != crc32.Checksum(b[21:], castagnoli) {
		return d, fmt.Errorf("crc mismatch")
	}
	attrs := binary.BigEndian.Uint16(b[21:])
	d.codec = int(attrs & 7)
	d.txn = attrs&0x10 != 0
	lastDelta := int32(binary.BigEndian.Uint32(b[23:]))
	firstTS := int64(binary.BigEndian.Uint64(b[27:]))
	maxTS := int64(binary.BigEndian.Uint64(b[35:]))
	d.pid = int64(binary.BigEndian.Uint64(b[43:]))
	d.epoch = int16(binary.BigEndian.Uint16(b[51:]))
	d.seq = int32(binary.BigEndian.Uint32(b[53:]))
	n := int(int32(binary.BigEndian.Uint32(b[57:])))
	recs, err := decompress(d.codec, b[61:])
	if err != nil {
		return d, fmt.Errorf("decompress: %v", err)
	}
	if int(lastDelta) != n-1 {
		return d, fmt.Errorf("lastOffsetDelta %d with %d records", lastDelta, n)
	}
	var seenMax int64 = -1 << 62
	for i := 0; i < n; i++ {
		l, m := binary.Varint(recs)
		if m <= 0 || int(l) > len(recs)-m {
			return d, fmt.Errorf("record %d: bad length", i)
		}
		body := recs[m : m+int(l)]
		recs = recs[m+int(l):]
		p := 1
		tsd, k := binary.Varint(body[p:])
		p += k
		od, k := binary.Varint(body[p:])
		p += k
		if int(od) != i {
			return d, fmt.Errorf("record %d has offset delta %d", i, od)
		}
		kl, k := binary.Varint(body[p:])
		p += k
		if kl > 0 {
			p += int(kl)
		}
		vl, k := binary.Varint(body[p:])
		p += k
		val := ""
		if vl > 0 {
			val = string(body[p : p+int(vl)])
			p += int(vl)
		}
		nh, k := binary.Varint(body[p:])
		p += k
		for h := 0; h < int(nh); h++ {
			hk, k := binary.Varint(body[p:])
			p += k + int(hk)
			hv, k := binary.Varint(body[p:])
			p += k
			if hv > 0 {
				p += int(hv)
			}
		}
		if p != len(body) {
			return d, fmt.Errorf("record %d: %d stray bytes", i, len(body)-p)
		}
		d.values = append(d.values, val)
		d.timestamps = append(d.timestamps, firstTS+tsd)
		if firstTS+tsd > seenMax {
			seenMax = firstTS + tsd
		}
	}
	if len(recs) != 0 {
		return d, fmt.Errorf("%d stray bytes after the records", len(recs))
	}
	if n > 0 && seenMax != maxTS {
		return d, fmt.Errorf("maxTimestamp %d, records say %d", maxTS, seenMax)
	}
	return d, nil
}

func TestFrames(t *testing.T) {
	out, err := os.Create(os.Getenv("VERIF_OUT"))
	if err != nil {
		t.Fatal(err)
	}
	defer out.Close()
	enc := json.NewEncoder(out)
	n := raw.EnvInt("VERIF_N", 40)
	seed := int64(raw.EnvInt("VERIF_SEED", 1))
	frames, nontrivial, records := 0, 0, 0
	nviol := 0
	for ci := 0; ci < n && nviol < 12; ci++ { // a broken encoder fails every request of a family: a dozen reports are enough
		c := gen(seed*100000 + int64(ci))
		viol := func(key, what string) {
			nviol++
			js, _ := json.Marshal(c)
			raw.Emit(map[string]any{"kind": "viol", "key": key, "what": what + " (case " + string(js) + ")", "case": ci})
		}
		chaos := sim.NewChaos()
		var mu sync.Mutex
		var got []frame
		chaos.OnFrame = func(key, version int16, f []byte) {
			if key == 0 {
				mu.Lock()
				got = append(got, frame{version, f})
				mu.Unlock()
			}
		}
		var topics []string
		for i := 0; i < c.Topics; i++ {
			topics = append(topics, fmt.Sprintf("t%02d", i)+strings.Repeat("x", c.NameLen-3))
		}
		vs := kversion.Stable()
		vs.SetMaxKeyVersion(0, c.Version)
		if c.Txn && c.Version < 12 {
			// before KIP-890 part 2 the transactional requests stay old as well
			vs = kversion.V3_7_0()
			vs.SetMaxKeyVersion(0, min(c.Version, 11))
		}
		cl, err := kfake.NewCluster(kfake.NumBrokers(1), kfake.SeedTopics(int32(c.Parts), topics...), kfake.ListenFn(chaos.Listen(net.Listen)), kfake.MaxVersions(vs))
		if err != nil {
			t.Fatal(err)
		}
		opts := []kgo.Opt{kgo.SeedBrokers(cl.ListenAddrs()...), kgo.DisableClientMetrics(), kgo.RecordPartitioner(kgo.ManualPartitioner()), kgo.BrokerMaxWriteBytes(c.MaxWrite),
			kgo.ProducerBatchMaxBytes(c.MaxBatch), kgo.ManualFlushing(), kgo.MaxBufferedRecords(1 << 20),
			kgo.RecordRetries(4)} // a batch the broker keeps refusing (CORRUPT_MESSAGE is retriable) fails its records instead of being retried for the whole deadline
		if c.ClientID > 0 {
			opts = append(opts, kgo.ClientID(strings.Repeat("c", c.ClientID)))
		} else {
			opts = append(opts, kgo.ClientID(""))
		}
		codecs := map[string]kgo.CompressionCodec{"none": kgo.NoCompression(), "gzip": kgo.GzipCompression(), "snappy": kgo.SnappyCompression(), "lz4": kgo.Lz4Compression(), "zstd": kgo.ZstdCompression()}
		opts = append(opts, kgo.ProducerBatchCompression(codecs[c.Codec]))
		txid := ""
		if c.Txn {
			txid = "tx-" + strings.Repeat("i", int(c.Seed%130))
			opts = append(opts, kgo.TransactionalID(txid))
		}
		p, err := kgo.NewClient(opts...)
		if err != nil {
			cl.Close()
			viol("config", "client configuration rejected: "+err.Error())
			continue
		}
		ctx, cancel := context.WithTimeout(context.Background(), 60*time.Second)
		sent := map[string][]string{} // topic/partition -> values in produce order
		vsize := []int{0, 10, 100, 300, 10000, 20000}[c.ValueClass]
		fill := "v"
		if c.ValueClass >= 4 {
			fill = "\x00"
		}
		// record timestamps: left to the client, or set by the application and spread over hours / months / years inside one batch
		// (mirroring historic data): the timestamp delta of a record is a varlong of up to ten bytes and counts towards every length
		spread := []time.Duration{0, 0, 36 * time.Hour, 60 * 24 * time.Hour, 250 * 24 * time.Hour, 800 * 24 * time.Hour}[c.Seed%6]
		tsBase := time.Unix(1700000000, 0)
		for round := 0; round < 2; round++ { // the first request on a connection is sized before the produce version is known
			if c.Txn {
				if err := p.BeginTransaction(); err != nil {
					viol("txn", "begin: "+err.Error())
				}
			}
			for _, tp := range topics {
				for q := 0; q < c.Parts; q++ {
					for i := 0; i < c.Records; i++ {
						val := fmt.Sprintf("%s/%d/%d/%d/", tp[:3], q, round, i) + strings.Repeat(fill, vsize+i%3)
						k := fmt.Sprintf("%s/%d", tp, q)
						sent[k] = append(sent[k], val)
						records++
						var ts time.Time
						if spread != 0 {
							ts = tsBase.Add(time.Duration(i*(1-2*(q%2))) * spread) // forwards on even partitions, backwards on odd ones
						}
						p.Produce(ctx, &kgo.Record{Topic: tp, Partition: int32(q), Timestamp: ts, Value: []byte(val), Key: []byte(fmt.Sprint(i))[:i%2], Headers: []kgo.RecordHeader{{Key: "h", Value: []byte("x")}}[:i%2]}, func(_ *kgo.Record, err error) {
							if err != nil {
								viol("produce", "record failed: "+err.Error())
							}
						})
					}
				}
			}
			if err := p.Flush(ctx); err != nil {
				viol("flush", err.Error())
			}
			if c.Txn {
				if err := p.EndTransaction(ctx, kgo.TryCommit); err != nil {
					viol("txn", "end: "+err.Error())
				}
			}
		}
		cancel()
		p.Close()
		ids := map[string]string{} // topic id hex -> name
		for _, tp := range topics {
			if ti := cl.TopicInfo(tp); ti != nil {
				ids[fmt.Sprintf("%x", ti.TopicID[:])] = tp
			}
		}
		cl.Close()
		// check the frames
		seen := map[string][]string{}
		nextSeq := map[string]int32{}
		for _, f := range got {
			frames++
			row, err := decodeProduce(f.data)
			if err != nil {
				viol("frame", fmt.Sprintf("produce v%d frame: %v", f.version, err))
				continue
			}
			if c.Codec != "none" || len(row.Topics) > 1 {
				nontrivial++
			}
			row.Kind, row.Case, row.Limit, row.MaxBatch = "frame", ci, int(c.MaxWrite), int(c.MaxBatch)
			wantTxn := nullLen
			if c.Txn {
				wantTxn = len(txid)
			}
			if row.TxnID != wantTxn {
				viol("txnid", fmt.Sprintf("transactional id of length %d on the wire, configured %d", row.TxnID, wantTxn))
			}
			perReq := map[string]bool{}
			for _, tr := range row.Topics {
				name := tr.key
				if row.Version >= 13 {
					name = ids[tr.key]
				}
				for j, ps := range tr.ps {
					k := fmt.Sprintf("%s/%d", name, ps.Index)
					if perReq[k] {
						viol("one batch per partition", "partition "+k+" appears twice in one request")
					}
					perReq[k] = true
					d, err := decodeBatch(tr.raw[j])
					if err != nil {
						viol("batch", fmt.Sprintf("%s: %v", k, err))
						continue
					}
					wantCodec := map[string]int{"none": 0, "gzip": 1, "snappy": 2, "lz4": 3, "zstd": 4}[c.Codec]
					if d.codec != wantCodec && d.codec != 0 { // a batch that does not shrink may stay uncompressed
						viol("codec", fmt.Sprintf("%s: codec %d, configured %s", k, d.codec, c.Codec))
					}
					if d.txn != c.Txn || d.base != 0 || d.pid < 0 {
						viol("batch fields", fmt.Sprintf("%s: transactional=%v base=%d pid=%d", k, d.txn, d.base, d.pid))
					}
					ek := fmt.Sprintf("%s@%d/%d", k, d.pid, d.epoch) // sequences continue within a producer epoch and start at 0 in a new one
					if d.seq != nextSeq[ek] {
						viol("sequence", fmt.Sprintf("%s: first sequence %d, expected %d (producer %d epoch %d)", k, d.seq, nextSeq[ek], d.pid, d.epoch))
					}
					nextSeq[ek] = d.seq + int32(len(d.values))
					seen[k] = append(seen[k], d.values...)
				}
			}
			enc.Encode(row)
		}
		// before KIP-890p2 the epoch is not bumped per transaction, so sequences continue; with it they restart: accept both by
		// only comparing the records themselves
		keys := make([]string, 0, len(sent))
		for k := range sent {
			keys = append(keys, k)
		}
		sort.Strings(keys)
		for _, k := range keys {
			if strings.Join(seen[k], ",") != strings.Join(sent[k], ",") {
				viol("records in order", fmt.Sprintf("%s: wrote %d records, produced %d; first difference matters: wrote %.80q produced %.80q", k, len(seen[k]), len(sent[k]), strings.Join(seen[k], ","), strings.Join(sent[k], ",")))
				break
			}
		}
	}
	raw.Emit(map[string]any{"kind": "stat", "cases": n, "frames": frames, "nontrivial": nontrivial, "records": records})
}
