// Package dsel replays behaviours of spec/Select.tla (C39) on a real direct consumer against kfake under virtual time:
// after every step one fresh record is produced to every partition of every topic; the partitions that deliver it must
// be exactly the specification's Selected set.
package dsel

import (
	"context"
	"fmt"
	"os"
	"sort"
	"strings"
	"testing"
	"testing/synctest"
	"time"

	"github.com/twmb/franz-go/pkg/kadm"
	"github.com/twmb/franz-go/pkg/kfake"
	"github.com/twmb/franz-go/pkg/kgo"
	"verif/harness/raw"
)

type TP struct {
	T string `json:"t"`
	P int32  `json:"p"`
}

type Step struct {
	Op       string  `json:"op"`
	Topic    string  `json:"topic"`
	Ps       []int32 `json:"ps"`
	Selected []TP    `json:"selected"`
}

type Case struct {
	Mode  string `json:"mode"`
	Steps []Step `json:"steps"`
}

func tpKey(t string, p int32) string { return fmt.Sprintf("%s/%d", t, p) }

func run(t *testing.T, c Case) (viol string, step int) {
	step = -1
	synctest.Test(t, func(t *testing.T) {
		var vnet kfake.VirtualNetwork
		cl, err := kfake.NewCluster(kfake.NumBrokers(1), kfake.ListenFn(vnet.Listen), kfake.Ports(9092))
		if err != nil {
			t.Fatal(err)
		}
		common := []kgo.Opt{kgo.SeedBrokers(cl.ListenAddrs()...), kgo.Dialer(vnet.DialContext), kgo.DisableClientMetrics(), kgo.MetadataMinAge(50 * time.Millisecond), kgo.MetadataMaxAge(time.Second)}
		ctx, cancel := context.WithTimeout(context.Background(), 10*time.Minute)
		defer cancel()
		p, _ := kgo.NewClient(append(common, kgo.RecordPartitioner(kgo.ManualPartitioner()))...)
		adm := kadm.NewClient(p)
		nparts := map[string]int32{}
		create := func(topic string, n int32) {
			if _, err := adm.CreateTopic(ctx, n, 1, nil, topic); err != nil {
				t.Fatalf("create %s: %v", topic, err)
			}
			nparts[topic] = n
		}
		create("ta", 2)
		create("tb", 1)
		create("ux", 1)
		copts := append([]kgo.Opt{}, common...)
		copts = append(copts, kgo.FetchMaxWait(100*time.Millisecond), kgo.ConsumeResetOffset(kgo.NewOffset().AtStart()))
		switch c.Mode {
		case "topics":
			copts = append(copts, kgo.ConsumeTopics("ta"))
		case "partitions":
			copts = append(copts, kgo.ConsumePartitions(map[string]map[int32]kgo.Offset{"ta": {0: kgo.NewOffset().AtStart()}}))
		case "regex":
			copts = append(copts, kgo.ConsumeRegex(), kgo.ConsumeTopics("^t[a-z]$"), kgo.ConsumeExcludeTopics("^tb$"))
		}
		cons, err := kgo.NewClient(copts...)
		if err != nil {
			t.Fatal(err)
		}
		defer func() {
			cons.Close()
			p.Close()
			cl.Close()
			time.Sleep(2 * time.Second)
			synctest.Wait()
		}()
		drain := func() map[string][]string { // partition -> record values
			got := map[string][]string{}
			empty := 0
			for empty < 2 {
				pctx, pc := context.WithTimeout(ctx, 300*time.Millisecond)
				fs := cons.PollFetches(pctx)
				pc()
				if fs.NumRecords() == 0 {
					empty++
					continue
				}
				empty = 0
				fs.EachRecord(func(r *kgo.Record) {
					got[tpKey(r.Topic, r.Partition)] = append(got[tpKey(r.Topic, r.Partition)], string(r.Value))
				})
			}
			return got
		}
		time.Sleep(2 * time.Second)
		drain()
		for si, st := range c.Steps {
			switch st.Op {
			case "create":
				create(st.Topic, 1)
			case "grow":
				nparts[st.Topic]++
				if _, err := adm.UpdatePartitions(ctx, int(nparts[st.Topic]), st.Topic); err != nil {
					t.Fatalf("grow: %v", err)
				}
			case "addtopic":
				cons.AddConsumeTopics(st.Topic)
			case "addpart":
				cons.AddConsumePartitions(map[string]map[int32]kgo.Offset{st.Topic: {st.Ps[0]: kgo.NewOffset().AtStart()}})
			case "removeparts":
				cons.RemoveConsumePartitions(map[string][]int32{st.Topic: st.Ps})
			case "purge":
				cons.PurgeTopicsFromConsuming(st.Topic)
			}
			if st.Op == "create" || st.Op == "grow" {
				p.ForceMetadataRefresh()
				time.Sleep(300 * time.Millisecond)
			}
			marker := fmt.Sprintf("step%d", si)
			var topics []string
			for tp := range nparts {
				topics = append(topics, tp)
			}
			sort.Strings(topics)
			for _, tp := range topics {
				for q := int32(0); q < nparts[tp]; q++ {
					if err := p.ProduceSync(ctx, &kgo.Record{Topic: tp, Partition: q, Value: []byte(marker)}).FirstErr(); err != nil {
						t.Fatalf("produce %s/%d: %v", tp, q, err)
					}
				}
			}
			time.Sleep(3 * time.Second)
			got := drain()
			want := map[string]bool{}
			for _, s := range st.Selected {
				want[tpKey(s.T, s.P)] = true
			}
			var missing, extra []string
			for k := range want {
				has := false
				for _, v := range got[k] {
					has = has || v == marker
				}
				if !has {
					missing = append(missing, k)
				}
			}
			for k := range got {
				if !want[k] {
					extra = append(extra, k)
				}
			}
			sort.Strings(missing)
			sort.Strings(extra)
			if len(extra) > 0 {
				viol, step = fmt.Sprintf("records of partitions that are not selected were returned: %s", strings.Join(extra, ",")), si
				return
			}
			if len(missing) > 0 {
				viol, step = fmt.Sprintf("selected partitions did not deliver the record produced after the step: %s", strings.Join(missing, ",")), si
				return
			}
		}
	})
	return viol, step
}

func describe(c Case, upto int) string {
	var b strings.Builder
	fmt.Fprintf(&b, "mode %s:", c.Mode)
	for i, s := range c.Steps {
		if i > upto {
			break
		}
		fmt.Fprintf(&b, " %s(%s", s.Op, s.Topic)
		if len(s.Ps) > 0 {
			fmt.Fprintf(&b, ",%v", s.Ps)
		}
		b.WriteString(")")
	}
	return b.String()
}

func TestReplay(t *testing.T) {
	cases, err := raw.ReadNDJSON[Case](os.Getenv("VERIF_CASES"))
	if err != nil {
		t.Fatal(err)
	}
	evals, steps, nontrivial := 0, 0, 0
	for ci, c := range cases {
		evals++
		steps += len(c.Steps)
		for _, s := range c.Steps {
			if s.Op == "removeparts" || s.Op == "purge" {
				nontrivial++
				break
			}
		}
		var viol string
		var step int
		ok := t.Run(fmt.Sprintf("c%d", ci), func(t *testing.T) { viol, step = run(t, c) })
		if !ok {
			raw.Emit(map[string]any{"kind": "viol", "key": "driver failed " + c.Mode, "what": "driver failed: " + describe(c, 99), "case": ci})
		} else if viol != "" {
			s := c.Steps[step]
			raw.Emit(map[string]any{"kind": "viol", "key": fmt.Sprintf("%s after %s(%s)", c.Mode, s.Op, s.Topic), "what": fmt.Sprintf("%s; history: %s; selected per specification: %v", viol, describe(c, step), s.Selected), "case": ci})
		}
	}
	raw.Emit(map[string]any{"kind": "stat", "evaluations": evals, "steps": steps, "nontrivial": nontrivial})
}
