package c25

// Runner for C25/C26/C27 (binding O2): reads group situations generated from spec/Balancer.tla, runs the real
// balancers (range, roundrobin, sticky, cooperative-sticky; kfake's server-side uniform and range) and writes
// (input, balancer, plan) rows that TLC judges with the predicates of Balancer.tla. For cooperative-sticky the
// members' revoke-and-rejoin discipline is iterated for three rounds (binding R for C27).

import (
	"encoding/json"
	"fmt"
	"os"
	"sort"
	"testing"

	"github.com/twmb/franz-go/pkg/kfake"
	"github.com/twmb/franz-go/pkg/kgo"
	"github.com/twmb/franz-go/pkg/kmsg"
	"verif/harness/raw"
)

type tp [2]any // [topic, partition]

type member struct {
	ID    string  `json:"id"`
	Subs  []string `json:"subs"`
	Gen   int32   `json:"gen"`
	Owned [][2]any `json:"owned"`
	Rack  string  `json:"rack"`
}
type input struct {
	ID      int    `json:"id"`
	Style   string `json:"style"`
	Topics  []struct {
		T string `json:"t"`
		N int32  `json:"n"`
	} `json:"topics"`
	Members []member `json:"members"`
	PRack   []struct {
		T     string   `json:"t"`
		P     int32    `json:"p"`
		Racks []string `json:"racks"`
	} `json:"prack"`
}
type planEntry struct {
	M     string   `json:"m"`
	Parts [][2]any `json:"parts"`
}
type row struct {
	Kind     string      `json:"kind"`
	In       input       `json:"in"`
	Balancer string      `json:"balancer"`
	Plan     []planEntry `json:"plan"`
	Plan3    []planEntry `json:"plan3"`
	Round    int         `json:"round"`
	Err      string      `json:"err"`
}

func ownedMap(m member) map[string][]int32 {
	o := map[string][]int32{}
	for _, x := range m.Owned {
		t := x[0].(string)
		o[t] = append(o[t], int32(x[1].(float64)))
	}
	for t := range o {
		sort.Slice(o[t], func(i, j int) bool { return o[t][i] < o[t][j] })
	}
	return o
}

func balance(b kgo.GroupBalancer, in input) ([]planEntry, error) {
	var members []kmsg.JoinGroupResponseMember
	for _, m := range in.Members {
		subs := append([]string(nil), m.Subs...)
		sort.Strings(subs)
		meta := b.JoinGroupMetadata(subs, ownedMap(m), m.Gen)
		if m.Rack != "" {
			var cm kmsg.ConsumerMemberMetadata
			if err := cm.ReadFrom(meta); err != nil {
				return nil, fmt.Errorf("reading own metadata: %v", err)
			}
			if cm.Version < 3 {
				cm.Version = 3
			}
			cm.Rack = kmsg.StringPtr(m.Rack)
			meta = cm.AppendTo(nil)
		}
		jm := kmsg.NewJoinGroupResponseMember()
		jm.MemberID = m.ID
		jm.ProtocolMetadata = meta
		members = append(members, jm)
	}
	sort.Slice(members, func(i, j int) bool { return members[i].MemberID < members[j].MemberID })
	mb, _, err := b.MemberBalancer(members)
	if err != nil {
		return nil, err
	}
	if cb, ok := mb.(*kgo.ConsumerBalancer); ok && len(in.PRack) > 0 {
		racks := map[string][]string{}
		for _, t := range in.Topics {
			racks[t.T] = make([]string, t.N)
		}
		for _, pr := range in.PRack {
			if int(pr.P) < len(racks[pr.T]) && len(pr.Racks) > 0 {
				racks[pr.T][pr.P] = pr.Racks[0]
			}
		}
		kgo.VerifSetPartitionRacks(cb, racks)
	}
	topics := map[string]int32{}
	for _, t := range in.Topics {
		topics[t.T] = t.N
	}
	var into kgo.IntoSyncAssignment
	if be, ok := mb.(kgo.GroupMemberBalancerOrError); ok {
		into, err = be.BalanceOrError(topics)
		if err != nil {
			return nil, err
		}
	} else {
		into = mb.Balance(topics)
	}
	var plan []planEntry
	for _, a := range into.IntoSyncAssignment() {
		parsed, err := kgo.ParseConsumerSyncAssignment(a.MemberAssignment)
		if err != nil {
			return nil, fmt.Errorf("parse assignment of %s: %v", a.MemberID, err)
		}
		plan = append(plan, mkEntry(a.MemberID, parsed))
	}
	sort.Slice(plan, func(i, j int) bool { return plan[i].M < plan[j].M })
	return plan, nil
}

func mkEntry(id string, parsed map[string][]int32) planEntry {
	e := planEntry{M: id, Parts: [][2]any{}}
	ts := make([]string, 0, len(parsed))
	for t := range parsed {
		ts = append(ts, t)
	}
	sort.Strings(ts)
	for _, t := range ts {
		for _, p := range parsed[t] {
			e.Parts = append(e.Parts, [2]any{t, int(p)})
		}
	}
	return e
}

func kfakeAssign(kind string, in input) []planEntry {
	topics := map[string]int32{}
	for _, t := range in.Topics {
		topics[t.T] = t.N
	}
	var ms []kfake.VerifAssignMember
	for _, m := range in.Members {
		ms = append(ms, kfake.VerifAssignMember{ID: m.ID, Topics: m.Subs, Target: ownedMap(m)})
	}
	out := kfake.VerifServerAssign(kind, topics, ms)
	var plan []planEntry
	for id, parsed := range out {
		plan = append(plan, mkEntry(id, parsed))
	}
	sort.Slice(plan, func(i, j int) bool { return plan[i].M < plan[j].M })
	return plan
}

func guard(f func()) (p any) {
	defer func() { p = recover() }()
	f()
	return nil
}

func TestRun(t *testing.T) {
	ins, err := raw.ReadNDJSON[input](os.Getenv("VERIF_IN"))
	if err != nil || len(ins) == 0 {
		t.Fatalf("no inputs: %v", err)
	}
	f, err := os.Create(os.Getenv("VERIF_OUT"))
	if err != nil {
		t.Fatal(err)
	}
	defer f.Close()
	enc := json.NewEncoder(f)
	nrows, chains, panics := 0, 0, 0
	emit := func(r row) {
		if r.Plan == nil {
			r.Plan = []planEntry{}
		}
		if r.Plan3 == nil {
			r.Plan3 = []planEntry{}
		}
		enc.Encode(r)
		nrows++
	}
	bals := []kgo.GroupBalancer{kgo.RangeBalancer(), kgo.RoundRobinBalancer(), kgo.StickyBalancer(), kgo.CooperativeStickyBalancer()}
	for _, in := range ins {
		for _, b := range bals {
			var plan []planEntry
			var err error
			if p := guard(func() { plan, err = balance(b, in) }); p != nil {
				panics++
				err = fmt.Errorf("panic: %v", p)
			}
			r := row{Kind: "plan", In: in, Balancer: b.ProtocolName(), Plan: plan}
			if err != nil {
				r.Err = err.Error()
			}
			emit(r)
			if b.ProtocolName() != "cooperative-sticky" || err != nil {
				continue
			}
			// C27: members revoke what they lost, keep/receive what the adjusted plan gives, and rejoin (generation+1)
			cur, p1 := in, plan
			var plans [][]planEntry
			ok := true
			for round := 2; round <= 3 && ok; round++ {
				next := cur
				next.Members = nil
				maxGen := int32(0)
				for _, m := range cur.Members {
					if m.Gen > maxGen {
						maxGen = m.Gen
					}
				}
				for _, m := range cur.Members {
					nm := m
					nm.Gen = maxGen + 1
					nm.Owned = [][2]any{}
					for _, e := range p1 {
						if e.M == m.ID {
							for _, x := range e.Parts {
								nm.Owned = append(nm.Owned, [2]any{x[0], float64(x[1].(int))})
							}
						}
					}
					next.Members = append(next.Members, nm)
				}
				var pn []planEntry
				var err error
				if p := guard(func() { pn, err = balance(b, next) }); p != nil || err != nil {
					emit(row{Kind: "plan", In: next, Balancer: b.ProtocolName(), Round: round, Err: fmt.Sprintf("round %d: %v %v", round, p, err)})
					ok = false
					break
				}
				emit(row{Kind: "plan", In: next, Balancer: b.ProtocolName(), Plan: pn, Round: round})
				plans = append(plans, pn)
				if round == 2 {
					// chain row: round-2 input and plan, with round 3 attached below
					cur = next
					p1 = pn
				} else {
					emit(row{Kind: "chain", In: cur, Balancer: b.ProtocolName(), Plan: plans[0], Plan3: pn})
					chains++
				}
			}
		}
		for _, kind := range []string{"uniform", "range"} {
			if in.Style == "chaos" {
				// the server maintains its own target assignment, which never holds conflicting or stale claims
				continue
			}
			var plan []planEntry
			r := row{Kind: "plan", In: in, Balancer: "kfake-" + kind}
			if p := guard(func() { plan = kfakeAssign(kind, in) }); p != nil {
				panics++
				r.Err = fmt.Sprintf("panic: %v", p)
			}
			r.Plan = plan
			emit(r)
		}
	}
	raw.Emit(map[string]any{"kind": "stat", "inputs": len(ins), "rows": nrows, "chains": chains, "panics": panics})
}
