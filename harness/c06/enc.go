// Package c06: an encoder of Kafka log data written from the protocol documentation (no kmsg/kgo encoding code is
// used), and the comparison of kgo.ProcessFetchPartition with the expectations computed by TLC from spec/KLog.tla.
package c06

import (
	"bytes"
	"compress/gzip"
	"encoding/binary"
	"fmt"
	"hash/crc32"

	"github.com/klauspost/compress/s2"
	"github.com/klauspost/compress/zstd"
	"github.com/pierrec/lz4/v4"
)

var castagnoli = crc32.MakeTable(crc32.Castagnoli)

type Hdr struct{ K, V string }

type Rec struct {
	Offset  int64
	TS      int64
	Key     []byte // nil = null
	Value   []byte
	Headers []Hdr
}

func varint(dst []byte, v int64) []byte {
	u := uint64(v<<1) ^ uint64(v>>63)
	for u >= 0x80 {
		dst = append(dst, byte(u)|0x80)
		u >>= 7
	}
	return append(dst, byte(u))
}

func vbytes(dst, b []byte) []byte {
	if b == nil {
		return varint(dst, -1)
	}
	return append(varint(dst, int64(len(b))), b...)
}

// Corrupt describes one structured corruption of a record's encoding (CRC stays valid).
type Corrupt struct {
	Rec   int    // which record of the batch
	Field string // "length" | "keylen" | "vallen" | "nheaders" | "offsetdelta" | "tsdelta"
	Bytes []byte // replacement encoding of the field
}

func encRecordV2(r Rec, base, baseTS int64, c *Corrupt) []byte {
	fld := func(name string, v int64) []byte {
		if c != nil && c.Field == name {
			return c.Bytes
		}
		return varint(nil, v)
	}
	body := []byte{0}
	body = append(body, fld("tsdelta", r.TS-baseTS)...)
	body = append(body, fld("offsetdelta", r.Offset-base)...)
	if c != nil && c.Field == "keylen" {
		body = append(append(body, c.Bytes...), r.Key...)
	} else {
		body = vbytes(body, r.Key)
	}
	if c != nil && c.Field == "vallen" {
		body = append(append(body, c.Bytes...), r.Value...)
	} else {
		body = vbytes(body, r.Value)
	}
	body = append(body, fld("nheaders", int64(len(r.Headers)))...)
	for _, h := range r.Headers {
		body = vbytes(body, []byte(h.K))
		body = vbytes(body, []byte(h.V))
	}
	return append(fld("length", int64(len(body))), body...)
}

func compress(codec int, in []byte) []byte {
	var out bytes.Buffer
	switch codec {
	case 0:
		return in
	case 1:
		w := gzip.NewWriter(&out)
		w.Write(in)
		w.Close()
	case 2:
		return s2.EncodeSnappy(nil, in)
	case 3:
		w := lz4.NewWriter(&out)
		w.Write(in)
		w.Close()
	case 4:
		w, _ := zstd.NewWriter(&out)
		w.Write(in)
		w.Close()
	default:
		panic(fmt.Sprint("codec ", codec))
	}
	return out.Bytes()
}

type BatchV2 struct {
	Base, LastDelta    int64
	LeaderEpoch        int32
	Codec              int
	LogAppendTime      bool
	Txn, Control       bool
	BaseTS, MaxTS      int64
	PID                int64
	PEpoch             int16
	BaseSeq            int32
	Recs               []Rec
	ControlCommit      bool // for control batches: the single marker record
	Corrupt            *Corrupt
	NumRecordsOverride *int32
}

func (b BatchV2) Encode() []byte {
	var recs []byte
	n := int32(len(b.Recs))
	if b.Control {
		typ := uint16(0)
		if b.ControlCommit {
			typ = 1
		}
		key := binary.BigEndian.AppendUint16(binary.BigEndian.AppendUint16(nil, 0), typ)
		val := binary.BigEndian.AppendUint32(binary.BigEndian.AppendUint16(nil, 0), 7)
		recs = encRecordV2(Rec{Offset: b.Base, TS: b.BaseTS, Key: key, Value: val}, b.Base, b.BaseTS, nil)
		n = 1
	} else {
		for i, r := range b.Recs {
			var c *Corrupt
			if b.Corrupt != nil && b.Corrupt.Rec == i {
				c = b.Corrupt
			}
			recs = append(recs, encRecordV2(r, b.Base, b.BaseTS, c)...)
		}
	}
	if b.NumRecordsOverride != nil {
		n = *b.NumRecordsOverride
	}
	attrs := uint16(b.Codec)
	if b.LogAppendTime {
		attrs |= 1 << 3
	}
	if b.Txn {
		attrs |= 1 << 4
	}
	if b.Control {
		attrs |= 1 << 5
	}
	var body []byte // from attributes on: what the crc covers
	body = binary.BigEndian.AppendUint16(body, attrs)
	body = binary.BigEndian.AppendUint32(body, uint32(b.LastDelta))
	body = binary.BigEndian.AppendUint64(body, uint64(b.BaseTS))
	body = binary.BigEndian.AppendUint64(body, uint64(b.MaxTS))
	body = binary.BigEndian.AppendUint64(body, uint64(b.PID))
	body = binary.BigEndian.AppendUint16(body, uint16(b.PEpoch))
	body = binary.BigEndian.AppendUint32(body, uint32(b.BaseSeq))
	body = binary.BigEndian.AppendUint32(body, uint32(n))
	body = append(body, compress(b.Codec, recs)...)
	var out []byte
	out = binary.BigEndian.AppendUint64(out, uint64(b.Base))
	out = binary.BigEndian.AppendUint32(out, uint32(4+1+4+len(body)))
	out = binary.BigEndian.AppendUint32(out, uint32(b.LeaderEpoch))
	out = append(out, 2)
	out = binary.BigEndian.AppendUint32(out, crc32.Checksum(body, castagnoli))
	return append(out, body...)
}

func i32bytes(dst, b []byte) []byte {
	if b == nil {
		return binary.BigEndian.AppendUint32(dst, 0xffffffff)
	}
	return append(binary.BigEndian.AppendUint32(dst, uint32(len(b))), b...)
}

// message encodes one v0/v1 message (magic 0 or 1) at the given offset.
func message(magic byte, attrs byte, offset, ts int64, key, value []byte) []byte {
	body := []byte{magic, attrs}
	if magic == 1 {
		body = binary.BigEndian.AppendUint64(body, uint64(ts))
	}
	body = i32bytes(body, key)
	body = i32bytes(body, value)
	var out []byte
	out = binary.BigEndian.AppendUint64(out, uint64(offset))
	out = binary.BigEndian.AppendUint32(out, uint32(4+len(body)))
	out = binary.BigEndian.AppendUint32(out, crc32.ChecksumIEEE(body))
	return append(out, body...)
}

// MessageSet encodes records as a v0 / v1 message set; with codec != 0 as one wrapper message holding the inner set
// (v0: inner offsets absolute; v1: inner offsets relative 0.., wrapper offset = absolute offset of the last inner message).
// Returns the bytes and the end of each top-level container.
func MessageSet(magic byte, codec int, recs []Rec, lastOffset int64) ([]byte, []int) {
	var out []byte
	var ends []int
	if codec == 0 {
		for _, r := range recs {
			out = append(out, message(magic, 0, r.Offset, r.TS, r.Key, r.Value)...)
			ends = append(ends, len(out))
		}
		return out, ends
	}
	var inner []byte
	first := recs[0].Offset
	for _, r := range recs {
		off := r.Offset
		if magic == 1 {
			off = r.Offset - first
			// relative to the wrapper: absolute = wrapper - (lastInnerRelative - relative)
			off = r.Offset - first
		}
		inner = append(inner, message(magic, 0, off, r.TS, r.Key, r.Value)...)
	}
	wrapOff := recs[len(recs)-1].Offset
	_ = lastOffset
	out = message(magic, byte(codec), wrapOff, recs[len(recs)-1].TS, nil, compress(codec, inner))
	return out, []int{len(out)}
}
