package c06

import (
	"bytes"
	"encoding/json"
	"fmt"
	"os"
	"sort"
	"testing"
	"time"

	"github.com/twmb/franz-go/pkg/kgo"
	"github.com/twmb/franz-go/pkg/kmsg"
	"verif/harness/raw"
)

type LogBatch struct {
	Base    int64   `json:"base"`
	N       int64   `json:"n"`
	Present []int64 `json:"present"`
	Pid     int64   `json:"pid"`
	Txn     bool    `json:"txn"`
	Ctrl    string  `json:"ctrl"`
}

type FetchCase struct {
	Batches []int   `json:"batches"`
	Aborted []int64 `json:"aborted"` // pid*1000 + first
	View    []int64 `json:"view"`
	Next    int64   `json:"next"`
}

type Case struct {
	Log   []LogBatch                            `json:"log"`
	HW    int64                                 `json:"hw"`
	LSO   int64                                 `json:"lso"`
	Fetch map[string]map[string]json.RawMessage `json:"fetch"`
}

const baseTS = 1700000000000

func recFor(off int64) Rec {
	r := Rec{Offset: off, TS: baseTS + off*10, Value: []byte(fmt.Sprintf("value-%d-%s", off, bytes.Repeat([]byte("x"), int(off%7))))}
	if off%3 != 0 {
		r.Key = []byte(fmt.Sprintf("k%d", off))
	}
	if off%2 == 1 {
		r.Headers = []Hdr{{"h", fmt.Sprint(off)}, {"", ""}}
	}
	return r
}

func wirePid(p int64) (int64, int16) {
	if p == 0 {
		return -1, -1
	}
	return 1000 + p, int16(p)
}

func v2Batch(b LogBatch, codec int, lat bool) BatchV2 {
	pid, pe := wirePid(b.Pid)
	out := BatchV2{Base: b.Base, LastDelta: b.N - 1, LeaderEpoch: int32(3 + b.Base%2), Codec: codec, LogAppendTime: lat, Txn: b.Txn, Control: b.Ctrl != "none",
		BaseTS: baseTS + b.Base*10, MaxTS: baseTS + (b.Base+b.N-1)*10, PID: pid, PEpoch: pe, BaseSeq: int32(b.Base), ControlCommit: b.Ctrl == "commit"}
	if b.Pid == 0 {
		out.BaseSeq = -1
	}
	for _, d := range b.Present {
		out.Recs = append(out.Recs, recFor(b.Base+d))
	}
	return out
}

type result struct {
	offsets []int64
	next    int64
	err     error
	panic   any
	recs    []*kgo.Record
}

func process(data []byte, asked int64, iso int, aborted []int64, hw, lso int64) (res result) {
	rp := kmsg.NewFetchResponseTopicPartition()
	rp.Partition = 2
	rp.HighWatermark = hw
	rp.LastStableOffset = lso
	rp.RecordBatches = data
	for _, a := range aborted {
		at := kmsg.NewFetchResponseTopicPartitionAbortedTransaction()
		at.ProducerID = 1000 + a/1000
		at.FirstOffset = a % 1000
		rp.AbortedTransactions = append(rp.AbortedTransactions, at)
	}
	o := kgo.ProcessFetchPartitionOpts{Offset: asked, Topic: "t", Partition: 2}
	if iso == 1 {
		o.IsolationLevel = kgo.ReadCommitted()
	}
	defer func() {
		if r := recover(); r != nil {
			res.panic = r
		}
	}()
	fp, next := kgo.ProcessFetchPartition(o, &rp, kgo.DefaultDecompressor(), nil)
	res.next = next
	res.err = fp.Err
	res.recs = fp.Records
	for _, r := range fp.Records {
		res.offsets = append(res.offsets, r.Offset)
	}
	return res
}

func eq(a, b []int64) bool {
	if len(a) != len(b) {
		return false
	}
	for i := range a {
		if a[i] != b[i] {
			return false
		}
	}
	return true
}

func permutations(a []int64) [][]int64 {
	if len(a) <= 1 {
		return [][]int64{a}
	}
	var out [][]int64
	for i := range a {
		rest := append(append([]int64{}, a[:i]...), a[i+1:]...)
		for _, p := range permutations(rest) {
			out = append(out, append([]int64{a[i]}, p...))
		}
	}
	return out
}

// checkFields compares every field of a returned record with what was encoded.
func checkFields(r *kgo.Record, format string, codec int, lat bool, b LogBatch) string {
	want := recFor(r.Offset)
	if !bytes.Equal(r.Value, want.Value) || !bytes.Equal(r.Key, want.Key) || (r.Key == nil) != (want.Key == nil) {
		return fmt.Sprintf("key/value of offset %d: got %q/%q", r.Offset, r.Key, r.Value)
	}
	if r.Topic != "t" || r.Partition != 2 {
		return "topic/partition"
	}
	if format == "v2" {
		if len(r.Headers) != len(want.Headers) {
			return fmt.Sprintf("headers of offset %d: %v", r.Offset, r.Headers)
		}
		for i, h := range want.Headers {
			if r.Headers[i].Key != h.K || string(r.Headers[i].Value) != h.V {
				return fmt.Sprintf("header %d of offset %d", i, r.Offset)
			}
		}
		ts := want.TS
		if lat {
			ts = baseTS + (b.Base+b.N-1)*10
		}
		if !r.Timestamp.Equal(time.UnixMilli(ts)) {
			return fmt.Sprintf("timestamp of offset %d: %v want %v (logAppendTime=%v)", r.Offset, r.Timestamp.UnixMilli(), ts, lat)
		}
		pid, pe := wirePid(b.Pid)
		if r.ProducerID != pid || r.ProducerEpoch != pe {
			return fmt.Sprintf("producer of offset %d: %d/%d want %d/%d", r.Offset, r.ProducerID, r.ProducerEpoch, pid, pe)
		}
		if r.LeaderEpoch != int32(3+b.Base%2) {
			return fmt.Sprintf("leader epoch of offset %d: %d", r.Offset, r.LeaderEpoch)
		}
		if r.Attrs.IsTransactional() != b.Txn || r.Attrs.IsControl() || int(r.Attrs.CompressionType()) != codec || (r.Attrs.TimestampType() == 1) != lat {
			return fmt.Sprintf("attributes of offset %d: txn=%v control=%v codec=%d tstype=%d", r.Offset, r.Attrs.IsTransactional(), r.Attrs.IsControl(), r.Attrs.CompressionType(), r.Attrs.TimestampType())
		}
	} else if format == "v1" {
		if !r.Timestamp.Equal(time.UnixMilli(want.TS)) {
			return fmt.Sprintf("timestamp of offset %d (v1)", r.Offset)
		}
	}
	return ""
}

func TestOracle(t *testing.T) {
	cases, err := raw.ReadNDJSON[Case](os.Getenv("VERIF_CASES"))
	if err != nil {
		t.Fatal(err)
	}
	stride := raw.EnvInt("VERIF_STRIDE", 1)
	seed := raw.EnvInt("VERIF_SEED", 1)
	evals, nontrivial, truncs, logs := 0, 0, 0, 0
	viol := func(kind string, ci int, what string, extra map[string]any) {
		m := map[string]any{"kind": "viol", "key": kind, "what": what, "case": ci}
		for k, v := range extra {
			m[k] = v
		}
		raw.Emit(m)
	}
	for ci, c := range cases {
		if int((uint32(ci)*2654435761)>>9)%stride != seed%stride { // a pseudo-random 1/stride slice, not every stride-th case
			continue
		}
		logs++
		plainOnly := true
		for _, b := range c.Log {
			if b.Pid != 0 || len(b.Present) == 0 {
				plainOnly = false
			}
		}
		for askedS, byIso := range c.Fetch {
			var asked int64
			fmt.Sscan(askedS, &asked)
			for isoS, rawFc := range byIso {
				iso := 0
				if isoS == "1" {
					iso = 1
				}
				var fcs []FetchCase
				if err := json.Unmarshal(rawFc, &fcs); err != nil {
					t.Fatalf("case %d: %v: %s", ci, err, rawFc)
				}
				for k, fc := range fcs {
					prevView, prevNext := []int64{}, asked
					if k > 0 {
						prevView, prevNext = fcs[k-1].View, fcs[k-1].Next
					}
					type variant struct {
						format string
						codec  int
						lat    bool
					}
					vars := []variant{{"v2", 0, false}, {"v2", 1 + (ci+k)%4, (ci+k)%2 == 0}}
					if (ci+int(asked))%5 == 0 {
						vars = []variant{{"v2", 0, true}, {"v2", 1, false}, {"v2", 2, false}, {"v2", 3, true}, {"v2", 4, false}}
					}
					if plainOnly && iso == 0 {
						vars = append(vars, variant{"v0", 0, false}, variant{"v1", 0, false}, variant{"v0", 1 + (ci % 2), false}, variant{"v1", 1 + (ci % 3), false})
					}
					for _, v := range vars {
						var data []byte
						lastStart := 0
						var msgEnds []int
						for _, bi := range fc.Batches {
							b := c.Log[bi-1]
							lastStart = len(data)
							switch v.format {
							case "v2":
								data = append(data, v2Batch(b, v.codec, v.lat).Encode()...)
							default:
								var recs []Rec
								for _, d := range b.Present {
									recs = append(recs, recFor(b.Base+d))
								}
								magic := byte(0)
								if v.format == "v1" {
									magic = 1
								}
								ms, ends := MessageSet(magic, v.codec, recs, b.Base+b.N-1)
								for _, e := range ends {
									msgEnds = append(msgEnds, len(data)+e)
								}
								data = append(data, ms...)
							}
						}
						wantView, wantNext := fc.View, fc.Next
						if v.format != "v2" {
							// message sets carry no lastOffsetDelta: after a batch whose tail was compacted away the
							// next offset is the last present message + 1
							msNext := func(batches []int) int64 {
								next := asked
								for _, bi := range batches {
									b := c.Log[bi-1]
									if len(b.Present) > 0 && b.Base+b.Present[len(b.Present)-1]+1 > next {
										next = b.Base + b.Present[len(b.Present)-1] + 1
									}
								}
								return next
							}
							wantNext = msNext(fc.Batches)
							prevNext = msNext(fc.Batches[:len(fc.Batches)-1])
						}
						for _, perm := range permutations(fc.Aborted) {
							evals++
							if len(fc.Aborted) > 0 || v.codec != 0 {
								nontrivial++
							}
							res := process(data, asked, iso, perm, c.HW, c.LSO)
							ctx := map[string]any{"log": c.Log, "asked": asked, "iso": iso, "batches": fc.Batches, "aborted": perm, "format": v.format, "codec": v.codec, "logAppendTime": v.lat}
							if res.panic != nil {
								viol("panic", ci, fmt.Sprintf("ProcessFetchPartition panicked: %v", res.panic), ctx)
								continue
							}
							if !eq(res.offsets, wantView) {
								viol("records", ci, fmt.Sprintf("returned offsets %v, reference %v (asked %d, iso %d, %s codec %d, aborted list %v)", res.offsets, wantView, asked, iso, v.format, v.codec, perm), ctx)
								continue
							}
							if res.next != wantNext {
								viol("next", ci, fmt.Sprintf("next offset %d, reference %d (asked %d, iso %d, %s codec %d)", res.next, wantNext, asked, iso, v.format, v.codec), ctx)
								continue
							}
							for _, r := range res.recs {
								var owner LogBatch
								for _, b := range c.Log {
									if r.Offset >= b.Base && r.Offset < b.Base+b.N {
										owner = b
									}
								}
								if why := checkFields(r, v.format, v.codec, v.lat, owner); why != "" {
									viol("fields", ci, why+fmt.Sprintf(" (%s codec %d)", v.format, v.codec), ctx)
									break
								}
							}
						}
						// truncation at every byte of the last container: it must not be delivered and must not advance the offset
						if v.format == "v2" || v.codec != 0 {
							for cut := lastStart; cut < len(data); cut++ {
								if (cut+ci)%3 != 0 && cut != lastStart && cut != len(data)-1 {
									continue // a third of the cut points per case, always the first and last
								}
								truncs++
								res := process(data[:cut], asked, iso, fc.Aborted, c.HW, c.LSO)
								ctx := map[string]any{"log": c.Log, "asked": asked, "iso": iso, "batches": fc.Batches, "aborted": fc.Aborted, "format": v.format, "codec": v.codec, "cut": cut, "len": len(data)}
								if res.panic != nil {
									viol("panic", ci, fmt.Sprintf("panic on truncated input: %v", res.panic), ctx)
								} else if !eq(res.offsets, prevView) && !(len(prevView) == 0 && len(res.offsets) == 0) {
									viol("truncated", ci, fmt.Sprintf("truncated trailing batch (cut %d of %d): offsets %v, reference %v", cut, len(data), res.offsets, prevView), ctx)
								} else if res.next != prevNext {
									viol("truncated-next", ci, fmt.Sprintf("truncated trailing batch (cut %d of %d) advanced the next offset to %d, reference %d", cut, len(data), res.next, prevNext), ctx)
								}
							}
						}
					}
				}
			}
		}
	}
	raw.Emit(map[string]any{"kind": "stat", "logs": logs, "evaluations": evals, "nontrivial": nontrivial, "truncations": truncs})
}

// TestCorrupt: structured corruptions of record fields with a valid CRC: no panic, nothing past the corruption is
// delivered out of thin air, the next offset does not pass an undelivered data record of an earlier intact batch.
func TestCorrupt(t *testing.T) {
	bad := map[string][]byte{
		"overflow5":    {0xff, 0xff, 0xff, 0xff, 0x7f},
		"overflow5b":   {0x80, 0x80, 0x80, 0x80, 0x10},
		"neg":          varint(nil, -7),
		"huge":         varint(nil, 1<<30),
		"maxint":       varint(nil, 1<<31-1),
		"minint":       varint(nil, -(1 << 31)),
		"unterminated": {0x80, 0x80},
	}
	names := make([]string, 0, len(bad))
	for k := range bad {
		names = append(names, k)
	}
	sort.Strings(names)
	evals := 0
	for _, codec := range []int{0, 1, 2, 3, 4} {
		for _, field := range []string{"length", "keylen", "vallen", "nheaders", "offsetdelta", "tsdelta"} {
			for _, name := range names {
				for recIdx := 0; recIdx < 3; recIdx++ {
					for _, asked := range []int64{0, 4, 5} {
						intact := v2Batch(LogBatch{Base: 0, N: 3, Present: []int64{0, 1, 2}, Ctrl: "none"}, 0, false)
						b := v2Batch(LogBatch{Base: 3, N: 3, Present: []int64{0, 1, 2}, Ctrl: "none"}, codec, false)
						b.Corrupt = &Corrupt{Rec: recIdx, Field: field, Bytes: bad[name]}
						data := append(intact.Encode(), b.Encode()...)
						evals++
						res := process(data, asked, 0, nil, 6, 6)
						ctx := map[string]any{"codec": codec, "field": field, "value": name, "record": recIdx, "asked": asked}
						if res.panic != nil {
							raw.Emit(map[string]any{"kind": "viol", "key": "panic corrupt " + field, "what": fmt.Sprintf("ProcessFetchPartition panicked on a record whose %s varint is %s (% x): %v", field, name, bad[name], res.panic), "ctx": ctx})
							continue
						}
						for _, o := range res.offsets {
							if o < asked { // a corrupted field may decode as some other valid record; only the offset filter is certain
								raw.Emit(map[string]any{"kind": "viol", "key": "corrupt delivers", "what": fmt.Sprintf("delivered offset %d below the requested offset", o), "ctx": ctx})
							}
						}
						if asked == 0 && (len(res.offsets) < 3 || res.offsets[0] != 0 || res.offsets[2] != 2) {
							raw.Emit(map[string]any{"kind": "viol", "key": "corrupt loses intact", "what": fmt.Sprintf("records of the intact first batch missing: %v", res.offsets), "ctx": ctx})
						}
					}
				}
			}
		}
	}
	raw.Emit(map[string]any{"kind": "stat", "corrupt_evaluations": evals})
}
