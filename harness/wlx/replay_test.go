package wlx

// Behaviour replay (binding R) for C30/work latch: every behaviour exported from the TLC state graph of
// spec/WorkLoop.tla is executed on the CURRENT pkg/kgo/atomic_maybe_work.go, whose atomic word is a controlled
// ctl.Uint32 (each Load / CompareAndSwap / Store is one scheduler step, the grain of the specification).

import (
	"encoding/json"
	"fmt"
	"math/rand"
	"os"
	"strconv"
	"testing"

	"verif/harness/ctl"
	"verif/harness/raw"
)

type st struct {
	State  int            `json:"state"`
	Work   int            `json:"work"`
	Spc    map[string]string `json:"spc"`
	Wpc    map[string]string `json:"wpc"`
	NW     int            `json:"nworkers"`
}
type step struct {
	Act   string   `json:"act"`
	Args  []string `json:"args"`
	State st       `json:"state"`
}
type beh struct {
	Init  st     `json:"init"`
	Steps []step `json:"steps"`
}
type cfg struct {
	Sig    []string `json:"sig"`
	MaxSig int      `json:"maxSig"`
}
type viol struct {
	Kind string `json:"kind"`
	Key  string `json:"key"`
	What string `json:"what"`
	Case int    `json:"case"`
	Step int    `json:"step"`
}

func replay(c cfg, b beh) (int, string, string) {
	s := ctl.New()
	var l workLoop
	work, inBody, nworkers := 0, 0, 0
	var spawn func()
	spawn = func() {
		nworkers++
		name := fmt.Sprintf("w%d", nworkers)
		s.Go(name, func() {
			inBody++
			for again := true; again; {
				s.Yield("body")
				work = 0 // consume everything signalled so far
				again = l.maybeFinish(false)
			}
			inBody--
		})
	}
	for _, sg := range c.Sig {
		s.Go(sg, func() {
			for k := 0; k < c.MaxSig; k++ {
				s.Yield("add")
				work++
				if l.maybeBegin() {
					spawn()
				}
			}
		})
	}
	primed := map[string]bool{}
	prime := func() string {
		for _, n := range s.Alive() {
			if !primed[n] {
				primed[n] = true
				if err := s.Step(n); err != nil {
					return err.Error()
				}
			}
		}
		return ""
	}
	if e := prime(); e != "" {
		return -1, "infra", e
	}
	for i, stp := range b.Steps {
		th := stp.Args[0]
		if stp.Act[0] == 'W' || stp.Act[:2] == "MF" {
			th = "w" + stp.Args[0]
		}
		if stp.Act == "WExit" { // the worker already returned inside the previous step; the spec only retires its pc
			if t := s.Threads[th]; t == nil || !t.Done {
				return i, "shape worker alive at WExit", fmt.Sprintf("step %d: the spec says worker %s left the loop, in the real code it is at %q", i, th, s.Threads[th].At)
			}
			continue
		}
		t := s.Threads[th]
		if t == nil || t.Done {
			return i, "shape not enabled " + stp.Act, fmt.Sprintf("step %d %s%v: the specification takes this step but thread %q does not exist or has finished in the real code", i, stp.Act, stp.Args, th)
		}
		if err := s.Step(th); err != nil {
			return i, "shape stuck " + stp.Act, fmt.Sprintf("step %d %s%v: %v", i, stp.Act, stp.Args, err)
		}
		if e := prime(); e != "" {
			return i, "infra", e
		}
		if len(s.Errors) > 0 {
			return i, "scheduler " + stp.Act, fmt.Sprintf("step %d %s%v: %v", i, stp.Act, stp.Args, s.Errors)
		}
		if inBody > 1 {
			return i, "two workers", fmt.Sprintf("step %d %s%v: %d workers are inside the loop at once", i, stp.Act, stp.Args, inBody)
		}
		w := stp.State
		diff := ""
		if int(l.state.Peek()) != w.State {
			diff = fmt.Sprintf("latch state %d, spec %d", l.state.Peek(), w.State)
		} else if work != w.Work {
			diff = fmt.Sprintf("pending work %d, spec %d", work, w.Work)
		} else if nworkers != w.NW {
			diff = fmt.Sprintf("workers spawned %d, spec %d", nworkers, w.NW)
		}
		for name, pc := range w.Spc {
			at := s.Threads[name].At
			want := map[string]string{"idle": "add", "load": "load", "cas": "cas"}[pc]
			if diff == "" && !(at == want || (pc == "idle" && at == "done")) {
				diff = fmt.Sprintf("signaller %s is at %q, spec pc %q", name, at, pc)
			}
		}
		for ws, pc := range w.Wpc {
			k, _ := strconv.Atoi(ws)
			t := s.Threads[fmt.Sprintf("w%d", k)]
			at := "none"
			if t != nil {
				at = t.At
			}
			want := map[string]string{"none": "none", "body": "body", "mfload": "load", "mfcas": "cas", "mfstore": "store", "exit": "done"}[pc]
			if diff == "" && !(at == want || (pc == "none" && at == "done")) {
				diff = fmt.Sprintf("worker %d is at %q, spec pc %q", k, at, pc)
			}
		}
		if diff != "" {
			// what a user can observe (pending work, workers started) differing is a violation; the latch word's encoding and
			// where a thread stands inside maybeBegin / maybeFinish are the code's shape, decided by TestExplore instead
			key := "state "
			if work == w.Work && nworkers == w.NW {
				key = "shape "
			}
			return i, key + stp.Act, fmt.Sprintf("after step %d %s%v the real latch differs from the specification: %s", i, stp.Act, stp.Args, diff)
		}
	}
	s.Drain(500)
	// at quiescence no work may be stranded (the property itself, on the real run)
	if len(s.Alive()) == 0 && work != 0 {
		return len(b.Steps), "lost wakeup", fmt.Sprintf("all threads finished but %d unit(s) of signalled work were never consumed", work)
	}
	return -1, "", ""
}

func TestReplay(t *testing.T) {
	var c cfg
	bs, err := os.ReadFile(os.Getenv("VERIF_CFG"))
	if err != nil || json.Unmarshal(bs, &c) != nil {
		t.Fatal("cfg", err)
	}
	behs, err := raw.ReadNDJSON[beh](os.Getenv("VERIF_IN"))
	if err != nil || len(behs) == 0 {
		t.Fatalf("no behaviours: %v", err)
	}
	nviol, steps := 0, 0
	for bi, b := range behs {
		steps += len(b.Steps)
		if i, key, msg := replay(c, b); key != "" {
			nviol++
			if nviol <= 25 {
				raw.Emit(viol{"viol", key, msg, bi, i})
			}
		}
	}
	raw.Emit(map[string]any{"kind": "stat", "behaviours": len(behs), "steps": steps, "violations": nviol})
}

// TestExplore runs the same system (signallers adding work and calling maybeBegin, workers consuming it and calling
// maybeFinish) under pseudo-random schedules that are NOT steered by the specification, and checks WorkLoop.tla's
// invariants on what is observable, whatever the shape of the code between its atomic operations: never two workers
// inside the loop, and when every thread has finished no signalled work is left unconsumed (no lost wake-up).
func TestExplore(t *testing.T) {
	var c cfg
	bs, err := os.ReadFile(os.Getenv("VERIF_CFG"))
	if err != nil || json.Unmarshal(bs, &c) != nil {
		t.Fatal("cfg", err)
	}
	n := raw.EnvInt("VERIF_N", 20000)
	rng := rand.New(rand.NewSource(int64(raw.EnvInt("VERIF_SEED", 1))))
	nviol, steps := 0, 0
	for run := 0; run < n; run++ {
		s := ctl.New()
		var l workLoop
		work, inBody, nworkers := 0, 0, 0
		var spawn func()
		spawn = func() {
			nworkers++
			s.Go(fmt.Sprintf("w%d", nworkers), func() {
				inBody++
				for again := true; again; {
					s.Yield("body")
					work = 0
					again = l.maybeFinish(false)
				}
				inBody--
			})
		}
		for _, sg := range c.Sig {
			s.Go(sg, func() {
				for k := 0; k < c.MaxSig; k++ {
					s.Yield("add")
					work++
					if l.maybeBegin() {
						spawn()
					}
				}
			})
		}
		var sched []string
		bad, what := "", ""
		for len(sched) < 400 {
			alive := s.Alive()
			if len(alive) == 0 {
				break
			}
			// a bias towards staying on one thread makes long uninterrupted runs as likely as fine interleavings
			th := alive[rng.Intn(len(alive))]
			if len(sched) > 0 && rng.Intn(3) == 0 {
				for _, a := range alive {
					if a == sched[len(sched)-1] {
						th = a
					}
				}
			}
			sched = append(sched, th)
			if err := s.Step(th); err != nil {
				bad, what = "infra", err.Error()
				break
			}
			if len(s.Errors) > 0 {
				bad, what = "infra", fmt.Sprint(s.Errors)
				break
			}
			if inBody > 1 {
				bad, what = "two workers", fmt.Sprintf("%d workers are inside the loop at once", inBody)
				break
			}
		}
		steps += len(sched)
		if bad == "" && len(s.Alive()) != 0 {
			bad, what = "no termination", fmt.Sprintf("threads %v still running after %d steps", s.Alive(), len(sched))
		}
		if bad == "" && work != 0 {
			bad, what = "lost wakeup", fmt.Sprintf("every thread has finished, the latch word is %d, and %d unit(s) of signalled work were never consumed: no worker is running and none will be started", l.state.Peek(), work)
		}
		if bad != "" {
			s.Drain(500)
			nviol++
			if nviol <= 5 {
				raw.Emit(map[string]any{"kind": "viol", "key": bad, "what": fmt.Sprintf("%s; schedule (thread taking each step) %v", what, sched), "schedule": sched, "case": -1, "step": len(sched)})
			}
		}
	}
	raw.Emit(map[string]any{"kind": "stat", "schedules": n, "steps": steps, "violations": nviol})
}
