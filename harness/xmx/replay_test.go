package xmx

// Behaviour replay (binding R) for C31/synctest mutexes: behaviours of spec/XMutex.tla executed on the CURRENT
// pkg/kgo/internal/xsync/synctest_mutex.go, whose channel operations are rewritten to controlled channels
// (every send / receive / select-with-default is one scheduler step).

import (
	"encoding/json"
	"fmt"
	"os"
	"testing"

	"verif/harness/ctl"
	"verif/harness/raw"
)

type st struct {
	Gate int               `json:"gate"`
	Sig  int               `json:"sig"`
	Mu   int               `json:"mu"`
	Rc   int               `json:"rc"`
	Pc   map[string]string `json:"pc"`
}
type step struct {
	Act   string   `json:"act"`
	Args  []string `json:"args"`
	State st       `json:"state"`
}
type beh struct {
	Init  st     `json:"init"`
	Steps []step `json:"steps"`
}
type cfg struct {
	Writers []string `json:"writers"`
	Readers []string `json:"readers"`
	Tryers  []string `json:"tryers"`
	Rounds  int      `json:"rounds"`
}
type viol struct {
	Kind string `json:"kind"`
	Key  string `json:"key"`
	What string `json:"what"`
	Case int    `json:"case"`
	Step int    `json:"step"`
}

var atOf = map[string]string{
	"recv_gate": "recv gate", "r_recv_gate": "recv gate", "t_tryrecv_gate": "tryrecv gate", "tr_tryrecv_gate": "tryrecv gate",
	"drain_sig": "tryrecv writerSignal", "recv_mu": "recv ch", "r_recv_mu": "recv ch", "u_recv_mu": "recv ch",
	"send_mu": "trysend ch", "r_send_mu": "trysend ch", "u_send_mu": "trysend ch", "recv_sig": "recv writerSignal",
	"t_send_gate_back": "send gate", "r_send_gate": "send gate", "wcs": "wcs", "send_gate": "trysend gate", "rcs": "rcs",
	"u_trysend_sig": "trysend writerSignal", "done": "done",
}

func b2i(b bool) int {
	if b {
		return 1
	}
	return 0
}

func replay(c cfg, b beh) (int, string, string) {
	s := ctl.New()
	var rw RWMutex
	rw.init()
	inW, inR := map[string]bool{}, map[string]bool{}
	for _, w := range c.Writers {
		s.Go(w, func() {
			for k := 0; k < c.Rounds; k++ {
				rw.Lock()
				inW[w] = true
				s.Yield("wcs")
				inW[w] = false
				rw.Unlock()
			}
		})
	}
	for _, r := range c.Readers {
		s.Go(r, func() {
			for k := 0; k < c.Rounds; k++ {
				rw.RLock()
				inR[r] = true
				s.Yield("rcs")
				inR[r] = false
				rw.RUnlock()
			}
		})
	}
	for _, t := range c.Tryers {
		s.Go(t, func() {
			if rw.TryLock() {
				inW[t] = true
				s.Yield("wcs")
				inW[t] = false
				rw.Unlock()
			}
			if rw.TryRLock() {
				inR[t] = true
				s.Yield("rcs")
				inR[t] = false
				rw.RUnlock()
			}
		})
	}
	for _, n := range s.Alive() {
		if err := s.Step(n); err != nil {
			return -1, "infra", err.Error()
		}
	}
	for i, stp := range b.Steps {
		th := stp.Args[0]
		t := s.Threads[th]
		if t == nil || t.Done {
			return i, "not enabled", fmt.Sprintf("step %d Step(%s): thread has finished in the real code", i, th)
		}
		if err := s.Step(th); err != nil {
			return i, "stuck", fmt.Sprintf("step %d Step(%s): %v", i, th, err)
		}
		if len(s.Errors) > 0 {
			return i, "scheduler", fmt.Sprintf("step %d Step(%s): %v", i, th, s.Errors)
		}
		nw, nr := 0, 0
		for _, v := range inW {
			nw += b2i(v)
		}
		for _, v := range inR {
			nr += b2i(v)
		}
		if nw > 1 || (nw == 1 && nr > 0) {
			return i, "exclusion", fmt.Sprintf("step %d Step(%s): %d writer(s) and %d reader(s) are inside their critical sections at once", i, th, nw, nr)
		}
		w := stp.State
		diff := ""
		if b2i(rw.gate.Full()) != w.Gate || b2i(rw.writerSignal.Full()) != w.Sig || b2i(rw.mu.ch.Full()) != w.Mu || rw.readerCount != w.Rc {
			diff = fmt.Sprintf("gate=%v signal=%v inner-mutex-free=%v readers=%d, spec %d %d %d %d", rw.gate.Full(), rw.writerSignal.Full(), rw.mu.ch.Full(), rw.readerCount, w.Gate, w.Sig, w.Mu, w.Rc)
		}
		for n, pc := range w.Pc {
			if at := s.Threads[n].At; diff == "" && at != atOf[pc] {
				diff = fmt.Sprintf("thread %s is at %q, spec pc %q", n, at, pc)
			}
		}
		if diff != "" {
			return i, "state", fmt.Sprintf("after step %d Step(%s) the real mutex differs from the specification: %s", i, th, diff)
		}
	}
	return -1, "", ""
}

func TestReplay(t *testing.T) {
	var c cfg
	bs, err := os.ReadFile(os.Getenv("VERIF_CFG"))
	if err != nil || json.Unmarshal(bs, &c) != nil {
		t.Fatal("cfg", err)
	}
	behs, err := raw.ReadNDJSON[beh](os.Getenv("VERIF_IN"))
	if err != nil || len(behs) == 0 {
		t.Fatalf("no behaviours: %v", err)
	}
	nviol, steps := 0, 0
	for bi, b := range behs {
		steps += len(b.Steps)
		if i, key, msg := replay(c, b); key != "" {
			nviol++
			if nviol <= 25 {
				raw.Emit(viol{"viol", key, msg, bi, i})
			}
		}
	}
	raw.Emit(map[string]any{"kind": "stat", "behaviours": len(behs), "steps": steps, "violations": nviol})
}

// The plain Mutex: every interleaving of 3 threads x (Lock, Unlock) and one TryLock, enumerated by depth-first search over
// the scheduler (the state space is tiny, so it is explored directly; the specification is XMutex's inner mutex).
func TestPlainMutex(t *testing.T) {
	type choice []string
	var explore func(prefix choice) int
	runs, bad := 0, 0
	explore = func(prefix choice) int {
		s := ctl.New()
		var m Mutex
		in := 0
		maxIn := 0
		for _, n := range []string{"a", "b", "c"} {
			s.Go(n, func() {
				if n == "c" {
					if !m.TryLock() {
						return
					}
				} else {
					m.Lock()
				}
				in++
				if in > maxIn {
					maxIn = in
				}
				s.Yield("cs")
				in--
				m.Unlock()
			})
		}
		for _, n := range s.Alive() {
			s.Step(n)
		}
		for _, n := range prefix {
			s.Step(n)
		}
		var enabled []string
		for _, n := range s.Alive() {
			th := s.Threads[n]
			if th.At == "recv ch" && !m.ch.Full() {
				continue // blocked on the mutex
			}
			enabled = append(enabled, n)
		}
		if maxIn > 1 || len(s.Errors) > 0 {
			bad++
			raw.Emit(viol{"viol", "plain mutex exclusion", fmt.Sprintf("schedule %v: %d threads inside the critical section, errors %v", prefix, maxIn, s.Errors), -1, len(prefix)})
			return 1
		}
		if len(enabled) == 0 {
			runs++
			if len(s.Alive()) > 0 {
				bad++
				raw.Emit(viol{"viol", "plain mutex deadlock", fmt.Sprintf("schedule %v: threads %v blocked forever", prefix, s.Alive()), -1, len(prefix)})
			}
			return 1
		}
		n := 0
		for _, e := range enabled {
			n += explore(append(append(choice(nil), prefix...), e))
		}
		return n
	}
	explore(nil)
	raw.Emit(map[string]any{"kind": "stat2", "plain_mutex_schedules": runs, "violations": bad})
}
