// Package c21: a scripted raw broker advertises version ranges; the real client is configured with user bounds and
// issues requests; the version seen in the request header on the wire (or the absence of any write) is compared with
// spec/Negotiate.tla.
package c21

import (
	"context"
	"encoding/binary"
	"fmt"
	"io"
	"net"
	"os"
	"sync"
	"testing"
	"time"

	"github.com/twmb/franz-go/pkg/kgo"
	"github.com/twmb/franz-go/pkg/kmsg"
	"github.com/twmb/franz-go/pkg/kversion"
	"verif/harness/raw"
)

type Case struct {
	Adv   string `json:"adv"`
	BMin  int    `json:"bmin"`
	BMax  int    `json:"bmax"`
	UMin  int    `json:"umin"`
	UMax  int    `json:"umax"`
	Want  int    `json:"want"`
	Want2 int    `json:"want2"`
}

type seen struct {
	key, version int16
}

// broker is a scripted raw broker: answers ApiVersions from adv (which may change between connections), records every
// other request header and closes the connection.
type broker struct {
	ln              net.Listener
	mu              sync.Mutex
	adv             func(conn int) map[int16][2]int16 // nil map value: answer with UNSUPPORTED etc.
	seen            []seen
	conns           int
	apiVersionsSeen int
}

func newBroker(t testing.TB, adv func(conn int) map[int16][2]int16) *broker {
	ln, err := net.Listen("tcp", "127.0.0.1:0")
	if err != nil {
		t.Fatal(err)
	}
	b := &broker{ln: ln, adv: adv}
	go func() {
		for {
			c, err := ln.Accept()
			if err != nil {
				return
			}
			b.mu.Lock()
			b.conns++
			n := b.conns
			b.mu.Unlock()
			go b.serve(c, n)
		}
	}()
	return b
}

func (b *broker) serve(c net.Conn, n int) {
	defer c.Close()
	for {
		var sz [4]byte
		if _, err := io.ReadFull(c, sz[:]); err != nil {
			return
		}
		body := make([]byte, binary.BigEndian.Uint32(sz[:]))
		if _, err := io.ReadFull(c, body); err != nil {
			return
		}
		if len(body) < 8 {
			b.mu.Lock()
			b.seen = append(b.seen, seen{-1, int16(len(body))})
			b.mu.Unlock()
			return
		}
		key := int16(binary.BigEndian.Uint16(body))
		ver := int16(binary.BigEndian.Uint16(body[2:]))
		corr := binary.BigEndian.Uint32(body[4:])
		if key != 18 {
			// the frame must decode as a request of the key and version its header claims
			rest := body[8:]
			okFrame := true
			if !(key == 7 && ver == 0) { // ControlledShutdown v0 has no client id in its header
				if len(rest) < 2 {
					okFrame = false
				} else {
					n := int(int16(binary.BigEndian.Uint16(rest)))
					rest = rest[2:]
					if n > 0 && n <= len(rest) {
						rest = rest[n:]
					} else if n > len(rest) {
						okFrame = false
					}
				}
			}
			if r := kmsg.RequestForKey(key); okFrame && r != nil {
				r.SetVersion(ver)
				if r.IsFlexible() {
					if len(rest) < 1 || rest[0] != 0 {
						okFrame = false
					} else {
						rest = rest[1:]
					}
				}
				if okFrame && r.ReadFrom(rest) != nil {
					okFrame = false
				}
			}
			b.mu.Lock()
			if !okFrame {
				b.seen = append(b.seen, seen{-1, int16(len(body))})
			}
			b.seen = append(b.seen, seen{key, ver})
			b.mu.Unlock()
			return // close: the client gets an error, we only care about what was written
		}
		b.mu.Lock()
		b.apiVersionsSeen++
		b.mu.Unlock()
		resp := kmsg.NewPtrApiVersionsResponse()
		resp.SetVersion(ver)
		if ver > 3 {
			resp.SetVersion(3)
		}
		for k, r := range b.adv(n) {
			ak := kmsg.NewApiVersionsResponseApiKey()
			ak.ApiKey, ak.MinVersion, ak.MaxVersion = k, r[0], r[1]
			resp.ApiKeys = append(resp.ApiKeys, ak)
		}
		out := binary.BigEndian.AppendUint32(nil, corr) // ApiVersions responses always use the v0 response header
		out = resp.AppendTo(out)
		c.Write(append(binary.BigEndian.AppendUint32(nil, uint32(len(out))), out...))
	}
}

func (b *broker) take() []seen {
	b.mu.Lock()
	defer b.mu.Unlock()
	s := b.seen
	b.seen = nil
	return s
}

func level(clientMax int16, cm, k int) int16 { return clientMax - int16(cm) + int16(k) }

// baseAdv: what the broker advertises for every key other than the one under test (wide open).
func baseAdv(except int16) map[int16][2]int16 {
	m := map[int16][2]int16{}
	for k := int16(0); k <= kmsg.MaxKey; k++ {
		if r := kmsg.RequestForKey(k); r != nil && k != except {
			m[k] = [2]int16{0, r.MaxVersion() + 3}
		}
	}
	m[18] = [2]int16{0, 3}
	return m
}

func userVersions(key int16, v int16) *kversion.Versions {
	vs := kversion.Stable()
	vs.SetMaxKeyVersion(key, v)
	return vs
}

func TestOracle(t *testing.T) {
	cases, err := raw.ReadNDJSON[Case](os.Getenv("VERIF_IN"))
	if err != nil {
		t.Fatal(err)
	}
	const cm = 3
	stride := raw.EnvInt("VERIF_STRIDE", 1)
	seed := raw.EnvInt("VERIF_SEED", 1)
	allKeys := os.Getenv("VERIF_ALLKEYS") != ""
	var keys []int16
	for k := int16(0); k <= kmsg.MaxKey; k++ {
		if r := kmsg.RequestForKey(k); r != nil && k != 18 && r.MaxVersion() >= cm {
			keys = append(keys, k)
		}
	}
	repr := []int16{3, 2, 10, 19, 32, 0} // Metadata, ListOffsets, FindCoordinator (direct, unpinned), CreateTopics, DescribeConfigs, Produce (key 0: once the client's test for "ApiVersions loaded")
	evals, nontrivial, reconnects := 0, 0, 0
	for ci, c := range cases {
		ks := repr
		if allKeys {
			ks = []int16{keys[(ci+seed)%len(keys)], repr[ci%len(repr)]}
		} else if (ci+seed)%stride != 0 {
			continue
		} else {
			ks = []int16{repr[(ci/stride)%len(repr)]}
		}
		for _, key := range ks {
			clientMax := kmsg.RequestForKey(key).MaxVersion()
			if clientMax < cm {
				continue
			}
			adv := baseAdv(key)
			if c.Adv == "range" {
				adv[key] = [2]int16{level(clientMax, cm, c.BMin), level(clientMax, cm, c.BMax)}
			}
			// second connection: the broker was restarted with a different range (one level lower at both ends, or the key restored)
			adv2 := baseAdv(key)
			want2nd := -1
			if c.Adv == "range" && c.BMin > 0 {
				adv2[key] = [2]int16{level(clientMax, cm, c.BMin-1), level(clientMax, cm, c.BMax-1)}
				want2nd = negotiate(cm, c.BMin-1, c.BMax-1, c.UMin, c.UMax)
			} else {
				adv2 = nil
			}
			b := newBroker(t, func(conn int) map[int16][2]int16 {
				if conn >= 2 && adv2 != nil {
					return adv2
				}
				return adv
			})
			opts := []kgo.Opt{kgo.SeedBrokers(b.ln.Addr().String()), kgo.RequestRetries(0), kgo.DisableClientMetrics()}
			if c.UMax >= 0 {
				opts = append(opts, kgo.MaxVersions(userVersions(key, level(clientMax, cm, c.UMax))))
			}
			if c.UMin >= 0 {
				vs := kversion.V0_8_0() // all zeros except what we set... start from an empty set
				vs = &kversion.Versions{}
				vs.SetMaxKeyVersion(key, level(clientMax, cm, c.UMin))
				opts = append(opts, kgo.MinVersions(vs))
			}
			cl, err := kgo.NewClient(opts...)
			if err != nil {
				t.Fatalf("case %d: %v", ci, err)
			}
			issue := func() (int, error) {
				req := kmsg.RequestForKey(key)
				ctx, cancel := context.WithTimeout(context.Background(), 5*time.Second)
				_, rerr := cl.SeedBrokers()[0].Request(ctx, req)
				cancel()
				time.Sleep(2 * time.Millisecond)
				got := -1
				for _, s := range b.take() {
					if s.key == -1 {
						raw.Emit(map[string]any{"kind": "viol", "key": "malformed frame", "what": fmt.Sprintf("the client wrote a frame (%d bytes) that does not decode as a request of the key and version in its header, while issuing key %d", s.version, key), "case": ci})
					}
					if s.key == key {
						if got != -1 {
							return -2, rerr
						}
						got = int(s.version) - int(clientMax) + cm
					}
				}
				return got, rerr
			}
			got, rerr := issue()
			evals++
			if c.Want == -1 || c.Want != cm {
				nontrivial++
			}
			ctxs := fmt.Sprintf("key %d (client max %d): broker %s [%d,%d] user min %d max %d (levels; client max = level %d)", key, clientMax, c.Adv, c.BMin, c.BMax, c.UMin, c.UMax, cm)
			switch {
			case got == -2:
				raw.Emit(map[string]any{"kind": "viol", "key": "written twice", "what": "request written more than once: " + ctxs, "case": ci})
			case c.Want == -1 && got != -1:
				raw.Emit(map[string]any{"kind": "viol", "key": "written without a valid version", "what": fmt.Sprintf("no version satisfies the bounds but the request was written with level %d: %s", got, ctxs), "case": ci})
			case c.Want == -1 && rerr == nil:
				raw.Emit(map[string]any{"kind": "viol", "key": "no error", "what": "no version satisfies the bounds but the request returned no error: " + ctxs, "case": ci})
			case c.Want != -1 && got != c.Want:
				raw.Emit(map[string]any{"kind": "viol", "key": "wrong version", "what": fmt.Sprintf("written with level %d, specification %d: %s", got, c.Want, ctxs), "case": ci})
			}
			if adv2 != nil && got >= 0 {
				// the connection was closed by the broker after the request; the next request reconnects and sees the new ranges
				got2, rerr2 := issue()
				reconnects++
				evals++
				switch {
				case want2nd == -1 && got2 != -1:
					raw.Emit(map[string]any{"kind": "viol", "key": "reconnect: written without a valid version", "what": fmt.Sprintf("after a reconnect the broker advertises [%d,%d]; no version satisfies the bounds but level %d was written: %s", c.BMin-1, c.BMax-1, got2, ctxs), "case": ci})
				case want2nd == -1 && rerr2 == nil:
					raw.Emit(map[string]any{"kind": "viol", "key": "reconnect: no error", "what": "after reconnect no version satisfies the bounds but no error: " + ctxs, "case": ci})
				case want2nd != -1 && got2 != want2nd:
					raw.Emit(map[string]any{"kind": "viol", "key": "reconnect: wrong version", "what": fmt.Sprintf("after a reconnect the broker advertises [%d,%d]: written with level %d, specification %d: %s", c.BMin-1, c.BMax-1, got2, want2nd, ctxs), "case": ci})
				}
			}
			cl.Close()
			b.ln.Close()
		}
	}
	raw.Emit(map[string]any{"kind": "stat", "evaluations": evals, "nontrivial": nontrivial, "reconnects": reconnects, "keys": len(keys)})
}

// negotiate mirrors Negotiate.tla for the second connection (the specification's cases only carry the first range);
// TestNegotiateMirrorsSpec checks it against every TLC case.
func negotiate(cm, bmin, bmax, umin, umax int) int {
	best := -1
	for v := 0; v <= 4; v++ {
		if v <= cm && v >= bmin && v <= bmax && (umax < 0 || v <= umax) && (umin < 0 || v >= umin) {
			best = v
		}
	}
	return best
}

func TestNegotiateMirrorsSpec(t *testing.T) {
	cases, err := raw.ReadNDJSON[Case](os.Getenv("VERIF_IN"))
	if err != nil {
		t.Fatal(err)
	}
	n := 0
	for ci, c := range cases {
		if c.Adv != "range" {
			continue
		}
		n++
		if g := negotiate(3, c.BMin, c.BMax, c.UMin, c.UMax); g != c.Want {
			raw.Emit(map[string]any{"kind": "viol", "key": "harness mirror", "what": fmt.Sprintf("harness negotiate()=%d differs from Negotiate.tla %d", g, c.Want), "case": ci})
		}
	}
	raw.Emit(map[string]any{"kind": "stat", "mirror_checked": n})
}

// TestPinned: the batched FindCoordinator flow (pinned to >= 4, then re-issued per key pinned to <= 3).
func TestPinned(t *testing.T) {
	cases, err := raw.ReadNDJSON[Case](os.Getenv("VERIF_IN"))
	if err != nil {
		t.Fatal(err)
	}
	const key = int16(10)
	clientMax := kmsg.RequestForKey(key).MaxVersion()
	cm := int(clientMax) - 3 // level of the client max such that level cm-1... the specification's P = CM-1 is wire version 4 => level(v) = v - 4 + (CM - 1)
	_ = cm
	evals := 0
	for ci, c := range cases {
		// map levels so that level CM-1 (=2) is wire version 4: wire = level + 2; the client max (level 3) would be wire 5: only valid if clientMax >= 5
		wire := func(l int) int16 { return int16(l + 2) }
		if clientMax < 5 {
			t.Skip("FindCoordinator max below 5")
		}
		adv := baseAdv(key)
		if c.Adv == "range" {
			adv[key] = [2]int16{wire(c.BMin), wire(c.BMax)}
		}
		// the client's own max is above level 3 here, so cap it by the user max when the case has none: skip such cases
		umax := c.UMax
		if umax < 0 {
			umax = 3
		}
		want := c.Want2
		if c.UMax < 0 || c.UMax > 3 {
			continue // without a user max (or one above the specification's client max) the real client max (wire 6) differs from the specification's CM
		}
		b := newBroker(t, func(int) map[int16][2]int16 { return adv })
		opts := []kgo.Opt{kgo.SeedBrokers(b.ln.Addr().String()), kgo.RequestRetries(0), kgo.DisableClientMetrics(), kgo.MaxVersions(userVersions(key, wire(umax)))}
		if c.UMin >= 0 {
			vs := &kversion.Versions{}
			vs.SetMaxKeyVersion(key, wire(c.UMin))
			opts = append(opts, kgo.MinVersions(vs))
		}
		cl, err := kgo.NewClient(opts...)
		if err != nil {
			t.Fatal(err)
		}
		req := kmsg.NewPtrFindCoordinatorRequest()
		req.CoordinatorKeys = []string{"g1", "g2"}
		ctx, cancel := context.WithTimeout(context.Background(), 5*time.Second)
		cl.Request(ctx, req)
		cancel()
		time.Sleep(2 * time.Millisecond)
		evals++
		var got []int
		for _, s := range b.take() {
			if s.key == key {
				got = append(got, int(s.version)-2)
			}
		}
		ctxs := fmt.Sprintf("FindCoordinator for two groups: broker %s [%d,%d] user min %d max %d (levels, level 2 = v4)", c.Adv, c.BMin, c.BMax, c.UMin, c.UMax)
		if want == -1 && len(got) > 0 {
			raw.Emit(map[string]any{"kind": "viol", "key": "pinned: written without a valid version", "what": fmt.Sprintf("no version satisfies the bounds but levels %v were written: %s", got, ctxs), "case": ci})
		}
		for _, g := range got {
			if want != -1 && g != want {
				raw.Emit(map[string]any{"kind": "viol", "key": "pinned: wrong version", "what": fmt.Sprintf("written with level %d, specification %d: %s", g, want, ctxs), "case": ci})
			}
		}
		if want != -1 && len(got) == 0 {
			raw.Emit(map[string]any{"kind": "viol", "key": "pinned: not written", "what": fmt.Sprintf("a valid version (level %d) exists but nothing was written: %s", want, ctxs), "case": ci})
		}
		cl.Close()
		b.ln.Close()
	}
	raw.Emit(map[string]any{"kind": "stat", "pinned_evaluations": evals})
}
