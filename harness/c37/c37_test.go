package c37

// Behaviour replay (binding R) for C37: behaviours of spec/Carrier.tla are executed on the real
// kotel.RecordCarrier with the header list compared after every step; plus the end-to-end clause:
// a trace context injected by the producer-side hook is extracted unchanged by the consumer-side hook.

import (
	"context"
	"fmt"
	"os"
	"reflect"
	"testing"
	"time"

	"github.com/twmb/franz-go/pkg/kfake"
	"github.com/twmb/franz-go/pkg/kgo"
	"github.com/twmb/franz-go/plugin/kotel"
	"go.opentelemetry.io/otel/propagation"
	"go.opentelemetry.io/otel/trace"
	"verif/harness/raw"
)

type hdr struct {
	K string `json:"k"`
	V string `json:"v"`
}
type op struct {
	Op   string   `json:"op"`
	K    string   `json:"k"`
	V    string   `json:"v"`
	Keys []string `json:"keys"`
	Vals []string `json:"vals"`
}
type beh struct {
	Init []hdr `json:"init"`
	Ops  []op  `json:"ops"`
}
type viol struct {
	Kind string `json:"kind"`
	Key  string `json:"key"`
	What string `json:"what"`
	Case int    `json:"case"`
}

func TestReplay(t *testing.T) {
	behs, err := raw.ReadNDJSON[beh](os.Getenv("VERIF_IN"))
	if err != nil || len(behs) == 0 {
		t.Fatalf("no behaviours: %v", err)
	}
	nviol, steps, nontrivial := 0, 0, 0
	for bi, b := range behs {
		r := &kgo.Record{}
		dup := false
		seen := map[string]bool{}
		// every second behaviour lays the header values out the way a consumed record has them: slices of one shared
		// buffer with spare capacity behind them; and a twin record shares the value bytes (a cloned header list)
		var shared []byte
		if bi%2 == 1 {
			for _, h := range b.Init {
				shared = append(shared, h.V...)
			}
			shared = append(shared, "tail-of-the-fetch-buffer"...)
		}
		pos := 0
		for _, h := range b.Init {
			val := []byte(h.V)
			if shared != nil {
				val = shared[pos : pos+len(h.V)] // capacity runs to the end of the buffer
				pos += len(h.V)
			}
			r.Headers = append(r.Headers, kgo.RecordHeader{Key: h.K, Value: val})
			if seen[h.K] {
				dup = true
			}
			seen[h.K] = true
		}
		if dup {
			nontrivial++
		}
		twin := &kgo.Record{Headers: append([]kgo.RecordHeader(nil), r.Headers...)}
		c := kotel.NewRecordCarrier(r)
		for si, o := range b.Ops {
			steps++
			bad := ""
			switch o.Op {
			case "set":
				c.Set(o.K, o.V)
				if got := c.Get(o.K); got != o.V {
					bad = fmt.Sprintf("after Set(%s,%s) Get returns %q", o.K, o.V, got)
				}
			case "get":
				if got := c.Get(o.K); got != o.V {
					bad = fmt.Sprintf("Get(%s)=%q, map view says %q", o.K, got, o.V)
				}
			case "keys":
				if got := c.Keys(); !(len(got) == 0 && len(o.Keys) == 0) && !reflect.DeepEqual(got, o.Keys) {
					bad = fmt.Sprintf("Keys()=%v want %v", got, o.Keys)
				}
			}
			// projection of the real state: the header list
			var ks, vs []string
			for _, h := range r.Headers {
				ks = append(ks, h.Key)
				vs = append(vs, string(h.Value))
			}
			if bad == "" && len(ks)+len(o.Keys) > 0 && (!reflect.DeepEqual(ks, o.Keys) || !reflect.DeepEqual(vs, o.Vals)) {
				bad = fmt.Sprintf("after %s(%s,%s) headers are %v=%v, spec state %v=%v", o.Op, o.K, o.V, ks, vs, o.Keys, o.Vals)
			}
			if bad == "" {
				for i, h := range twin.Headers { // the other record never went through the carrier: nothing of it may change
					if string(h.Value) != b.Init[i].V {
						bad = fmt.Sprintf("after %s(%s,%s) a header of ANOTHER record sharing the value bytes changed: %s=%q, was %q", o.Op, o.K, o.V, h.Key, h.Value, b.Init[i].V)
					}
				}
			}
			if bad != "" {
				nviol++
				if nviol <= 40 {
					raw.Emit(viol{"viol", "carrier " + o.Op, fmt.Sprintf("step %d of %+v: %s", si, b, bad), bi})
				}
				break
			}
		}
	}
	raw.Emit(map[string]any{"kind": "stat", "behaviours": len(behs), "steps": steps, "nontrivial": nontrivial, "violations": nviol})
}

// inject -> produce -> wire -> fetch -> extract
func TestEndToEnd(t *testing.T) {
	c, err := kfake.NewCluster(kfake.NumBrokers(1), kfake.SeedTopics(1, "t"))
	if err != nil {
		t.Fatal(err)
	}
	defer c.Close()
	prop := propagation.NewCompositeTextMapPropagator(propagation.TraceContext{}, propagation.Baggage{})
	mk := func(extra ...kgo.Opt) *kgo.Client {
		tr := kotel.NewTracer(kotel.TracerPropagator(prop))
		cl, err := kgo.NewClient(append([]kgo.Opt{kgo.SeedBrokers(c.ListenAddrs()...), kgo.WithHooks(kotel.NewKotel(kotel.WithTracer(tr)).Hooks()...)}, extra...)...)
		if err != nil {
			t.Fatal(err)
		}
		return cl
	}
	p := mk()
	defer p.Close()
	cons := mk(kgo.ConsumeTopics("t"))
	defer cons.Close()
	ctx, cancel := context.WithTimeout(context.Background(), 30*time.Second)
	defer cancel()
	nviol, n := 0, 12
	want := map[string]trace.SpanContext{}
	for i := 0; i < n; i++ {
		var tid trace.TraceID
		var sid trace.SpanID
		for j := range tid {
			tid[j] = byte(i*16 + j + 1)
		}
		for j := range sid {
			sid[j] = byte(i*8 + j + 1)
		}
		sc := trace.NewSpanContext(trace.SpanContextConfig{TraceID: tid, SpanID: sid, TraceFlags: trace.FlagsSampled, Remote: true})
		rec := &kgo.Record{Topic: "t", Value: []byte(fmt.Sprintf("v%d", i)), Context: trace.ContextWithSpanContext(ctx, sc)}
		if i%3 == 1 { // pre-existing headers, one of them with the propagation key
			rec.Headers = []kgo.RecordHeader{{Key: "other", Value: []byte("keep")}, {Key: "traceparent", Value: []byte("stale")}}
		}
		if err := p.ProduceSync(ctx, rec).FirstErr(); err != nil {
			t.Fatal(err)
		}
		want[string(rec.Value)] = sc
	}
	got := 0
	for got < n {
		fs := cons.PollFetches(ctx)
		if err := fs.Err0(); err != nil {
			t.Fatal(err)
		}
		fs.EachRecord(func(r *kgo.Record) {
			got++
			sc := trace.SpanContextFromContext(r.Context)
			w := want[string(r.Value)]
			if sc.TraceID() != w.TraceID() || sc.SpanID() != w.SpanID() || sc.TraceFlags() != w.TraceFlags() {
				nviol++
				raw.Emit(viol{"viol", "e2e trace context", fmt.Sprintf("record %s: extracted trace %s/%s, injected %s/%s; headers %v", r.Value, sc.TraceID(), sc.SpanID(), w.TraceID(), w.SpanID(), r.Headers), -1})
			}
			for _, h := range r.Headers {
				if h.Key == "other" && string(h.Value) != "keep" {
					nviol++
					raw.Emit(viol{"viol", "e2e other header", fmt.Sprintf("record %s: unrelated header changed: %v", r.Value, r.Headers), -1})
				}
			}
		})
	}
	raw.Emit(map[string]any{"kind": "stat", "e2e_records": got, "violations": nviol})
}
