// Package crashfs is a recording in-memory file system for kfake (through kfake.VerifWithFS): every mutating operation
// is journalled with the inode it touches, and from any prefix of the journal a post-crash image can be built in which
// each file keeps all its writes, only what was written before its last Sync, or the synced part plus half of the
// unsynced tail. Directory operations (create, rename, remove) are taken to be durable in order once executed.
package crashfs

import (
	"errors"
	"io"
	iofs "io/fs"
	"os"
	"path"
	"sort"
	"strings"
	"sync"
	"time"

	"github.com/twmb/franz-go/pkg/kfake"
)

type Op struct {
	Kind  string // create | write | truncate | sync | rename | remove | removeall | mkdir
	Ino   int
	Path  string
	Path2 string
	Off   int64
	Size  int64
	Data  []byte
}

type inode struct {
	data   []byte
	synced []byte
}

type FS struct {
	mu      sync.Mutex
	files   map[string]int
	inodes  map[int]*inode
	dirs    map[string]bool
	nextIno int
	Journal []Op
	record  bool
}

func New() *FS {
	return &FS{files: map[string]int{}, inodes: map[int]*inode{}, dirs: map[string]bool{"/": true}, nextIno: 1, record: true}
}

func (f *FS) Len() int { f.mu.Lock(); defer f.mu.Unlock(); return len(f.Journal) }

func (f *FS) log(op Op) {
	if f.record {
		f.Journal = append(f.Journal, op)
	}
}

type handle struct {
	fs   *FS
	ino  int
	pos  int64
	flag int
}

func clean(p string) string { return path.Clean("/" + strings.ReplaceAll(p, "\\", "/")) }

func (f *FS) OpenFile(name string, flag int, _ os.FileMode) (kfake.VerifFile, error) {
	name = clean(name)
	f.mu.Lock()
	defer f.mu.Unlock()
	ino, ok := f.files[name]
	if !ok {
		if flag&os.O_CREATE == 0 {
			return nil, &os.PathError{Op: "open", Path: name, Err: os.ErrNotExist}
		}
		ino = f.nextIno
		f.nextIno++
		f.inodes[ino] = &inode{}
		f.files[name] = ino
		f.log(Op{Kind: "create", Ino: ino, Path: name})
	}
	in := f.inodes[ino]
	if flag&os.O_TRUNC != 0 && len(in.data) > 0 {
		in.data = nil
		f.log(Op{Kind: "truncate", Ino: ino, Path: name, Size: 0})
	}
	h := &handle{fs: f, ino: ino, flag: flag}
	if flag&os.O_APPEND != 0 {
		h.pos = int64(len(in.data))
	}
	return h, nil
}

func (h *handle) Write(p []byte) (int, error) {
	h.fs.mu.Lock()
	defer h.fs.mu.Unlock()
	in := h.fs.inodes[h.ino]
	if h.flag&os.O_APPEND != 0 {
		h.pos = int64(len(in.data))
	}
	end := h.pos + int64(len(p))
	if end > int64(len(in.data)) {
		nd := make([]byte, end)
		copy(nd, in.data)
		in.data = nd
	}
	copy(in.data[h.pos:], p)
	h.fs.log(Op{Kind: "write", Ino: h.ino, Off: h.pos, Data: append([]byte{}, p...)})
	h.pos = end
	return len(p), nil
}

func (h *handle) Read(p []byte) (int, error) {
	h.fs.mu.Lock()
	defer h.fs.mu.Unlock()
	in := h.fs.inodes[h.ino]
	if h.pos >= int64(len(in.data)) {
		return 0, io.EOF
	}
	n := copy(p, in.data[h.pos:])
	h.pos += int64(n)
	return n, nil
}

func (h *handle) Close() error { return nil }

func (h *handle) Seek(off int64, whence int) (int64, error) {
	h.fs.mu.Lock()
	defer h.fs.mu.Unlock()
	in := h.fs.inodes[h.ino]
	switch whence {
	case io.SeekStart:
		h.pos = off
	case io.SeekCurrent:
		h.pos += off
	case io.SeekEnd:
		h.pos = int64(len(in.data)) + off
	}
	if h.pos < 0 {
		return 0, errors.New("negative seek")
	}
	return h.pos, nil
}

func (h *handle) Truncate(size int64) error {
	h.fs.mu.Lock()
	defer h.fs.mu.Unlock()
	in := h.fs.inodes[h.ino]
	if size < int64(len(in.data)) {
		in.data = in.data[:size]
	} else if size > int64(len(in.data)) {
		nd := make([]byte, size)
		copy(nd, in.data)
		in.data = nd
	}
	h.fs.log(Op{Kind: "truncate", Ino: h.ino, Size: size})
	return nil
}

func (h *handle) Sync() error {
	h.fs.mu.Lock()
	defer h.fs.mu.Unlock()
	in := h.fs.inodes[h.ino]
	in.synced = append([]byte{}, in.data...)
	h.fs.log(Op{Kind: "sync", Ino: h.ino})
	return nil
}

func (f *FS) Rename(oldpath, newpath string) error {
	oldpath, newpath = clean(oldpath), clean(newpath)
	f.mu.Lock()
	defer f.mu.Unlock()
	ino, ok := f.files[oldpath]
	if !ok {
		return &os.PathError{Op: "rename", Path: oldpath, Err: os.ErrNotExist}
	}
	f.files[newpath] = ino
	delete(f.files, oldpath)
	f.log(Op{Kind: "rename", Ino: ino, Path: oldpath, Path2: newpath})
	return nil
}

func (f *FS) Remove(name string) error {
	name = clean(name)
	f.mu.Lock()
	defer f.mu.Unlock()
	if _, ok := f.files[name]; ok {
		delete(f.files, name)
		f.log(Op{Kind: "remove", Path: name})
		return nil
	}
	if f.dirs[name] {
		delete(f.dirs, name)
		f.log(Op{Kind: "remove", Path: name})
		return nil
	}
	return &os.PathError{Op: "remove", Path: name, Err: os.ErrNotExist}
}

func (f *FS) RemoveAll(p string) error {
	p = clean(p)
	f.mu.Lock()
	defer f.mu.Unlock()
	for k := range f.files {
		if k == p || strings.HasPrefix(k, p+"/") {
			delete(f.files, k)
		}
	}
	for k := range f.dirs {
		if k == p || strings.HasPrefix(k, p+"/") {
			delete(f.dirs, k)
		}
	}
	f.log(Op{Kind: "removeall", Path: p})
	return nil
}

func (f *FS) MkdirAll(p string, _ os.FileMode) error {
	p = clean(p)
	f.mu.Lock()
	defer f.mu.Unlock()
	for q := p; q != "/" && q != "."; q = path.Dir(q) {
		f.dirs[q] = true
	}
	f.log(Op{Kind: "mkdir", Path: p})
	return nil
}

type dirEntry struct {
	name string
	dir  bool
	size int64
}

func (d dirEntry) Name() string { return d.name }
func (d dirEntry) IsDir() bool  { return d.dir }
func (d dirEntry) Type() iofs.FileMode {
	if d.dir {
		return iofs.ModeDir
	}
	return 0
}
func (d dirEntry) Info() (iofs.FileInfo, error) { return fileInfo(d), nil }

type fileInfo dirEntry

func (i fileInfo) Name() string { return i.name }
func (i fileInfo) Size() int64  { return i.size }
func (i fileInfo) Mode() iofs.FileMode {
	if i.dir {
		return iofs.ModeDir | 0o755
	}
	return 0o644
}
func (i fileInfo) ModTime() time.Time { return time.Time{} }
func (i fileInfo) IsDir() bool        { return i.dir }
func (i fileInfo) Sys() any           { return nil }

func (f *FS) ReadDir(name string) ([]os.DirEntry, error) {
	name = clean(name)
	f.mu.Lock()
	defer f.mu.Unlock()
	if !f.dirs[name] {
		return nil, &os.PathError{Op: "readdir", Path: name, Err: os.ErrNotExist}
	}
	seen := map[string]dirEntry{}
	for k, ino := range f.files {
		if path.Dir(k) == name {
			seen[path.Base(k)] = dirEntry{path.Base(k), false, int64(len(f.inodes[ino].data))}
		}
	}
	for k := range f.dirs {
		if k != name && path.Dir(k) == name {
			seen[path.Base(k)] = dirEntry{path.Base(k), true, 0}
		}
	}
	var names []string
	for k := range seen {
		names = append(names, k)
	}
	sort.Strings(names)
	var out []os.DirEntry
	for _, k := range names {
		out = append(out, seen[k])
	}
	return out, nil
}

func (f *FS) ReadFile(name string) ([]byte, error) {
	name = clean(name)
	f.mu.Lock()
	defer f.mu.Unlock()
	ino, ok := f.files[name]
	if !ok {
		return nil, &os.PathError{Op: "open", Path: name, Err: os.ErrNotExist}
	}
	return append([]byte{}, f.inodes[ino].data...), nil
}

func (f *FS) Stat(name string) (os.FileInfo, error) {
	name = clean(name)
	f.mu.Lock()
	defer f.mu.Unlock()
	if ino, ok := f.files[name]; ok {
		return fileInfo{path.Base(name), false, int64(len(f.inodes[ino].data))}, nil
	}
	if f.dirs[name] {
		return fileInfo{path.Base(name), true, 0}, nil
	}
	return nil, &os.PathError{Op: "stat", Path: name, Err: os.ErrNotExist}
}

// Image replays the first n journal operations on an empty file system and applies the loss mode to every file:
// "keep" (all writes survive), "lose" (only what was written before the file's last Sync survives), "cut" (the synced
// content plus the first half of the unsynced tail, when the file only grew). The image does not record.
func Image(journal []Op, n int, mode string) *FS {
	img := New()
	img.record = false
	for _, op := range journal[:n] {
		switch op.Kind {
		case "create":
			img.inodes[op.Ino] = &inode{}
			img.files[op.Path] = op.Ino
		case "write":
			in := img.inodes[op.Ino]
			end := op.Off + int64(len(op.Data))
			if end > int64(len(in.data)) {
				nd := make([]byte, end)
				copy(nd, in.data)
				in.data = nd
			}
			copy(in.data[op.Off:], op.Data)
		case "truncate":
			in := img.inodes[op.Ino]
			if op.Size < int64(len(in.data)) {
				in.data = in.data[:op.Size]
			} else {
				nd := make([]byte, op.Size)
				copy(nd, in.data)
				in.data = nd
			}
		case "sync":
			in := img.inodes[op.Ino]
			in.synced = append([]byte{}, in.data...)
		case "rename":
			img.files[op.Path2] = op.Ino
			delete(img.files, op.Path)
		case "remove":
			delete(img.files, op.Path)
			delete(img.dirs, op.Path)
		case "removeall":
			for k := range img.files {
				if k == op.Path || strings.HasPrefix(k, op.Path+"/") {
					delete(img.files, k)
				}
			}
			for k := range img.dirs {
				if k == op.Path || strings.HasPrefix(k, op.Path+"/") {
					delete(img.dirs, k)
				}
			}
		case "mkdir":
			for q := op.Path; q != "/" && q != "."; q = path.Dir(q) {
				img.dirs[q] = true
			}
		}
	}
	for _, in := range img.inodes {
		switch mode {
		case "lose":
			in.data = append([]byte{}, in.synced...)
		case "cut":
			if len(in.data) > len(in.synced) && string(in.data[:len(in.synced)]) == string(in.synced) {
				in.data = in.data[:len(in.synced)+(len(in.data)-len(in.synced))/2]
			} else {
				in.data = append([]byte{}, in.synced...)
			}
		}
		in.synced = append([]byte{}, in.data...)
	}
	return img
}
