package c17

// Oracle evaluation (binding O1) for C17: spec/Wire.tla computes encodings of boundary values and
// decoder verdicts on control-byte structures; this runner compares pkg/kbin and checks that the
// private copy pkg/kmsg/internal/kbin is the same source.

import (
	"bytes"
	"fmt"
	"math"
	"os"
	"path/filepath"
	"regexp"
	"strings"
	"testing"

	"github.com/twmb/franz-go/pkg/kbin"
	"verif/harness/raw"
)

type caseT struct {
	Kind    string `json:"kind"`
	W       int    `json:"w"`
	Bits    []int  `json:"bits"`
	Varint  []int  `json:"varint"`
	Uvarint []int  `json:"uvarint"`
	BE      []int  `json:"be"`
	Bytes   []int  `json:"bytes"`
	N       int    `json:"n"`
	UBits   []int  `json:"ubits"`
	SBits   []int  `json:"sbits"`
	Len     int    `json:"len"`
	I16     []int  `json:"i16"`
	I32     []int  `json:"i32"`
	Compact []int  `json:"compact"`
}
type viol struct {
	Kind string `json:"kind"`
	Key  string `json:"key"`
	What string `json:"what"`
	Case int    `json:"case"`
}

func bs(x []int) []byte {
	b := make([]byte, len(x))
	for i, v := range x {
		b[i] = byte(v)
	}
	return b
}
func u64(bits []int) uint64 {
	var u uint64
	for i, b := range bits {
		if b == 1 {
			u |= 1 << uint(i)
		}
	}
	return u
}

func guard(f func()) (p any) {
	defer func() { p = recover() }()
	f()
	return nil
}

func TestOracle(t *testing.T) {
	cases, err := raw.ReadNDJSON[caseT](os.Getenv("VERIF_IN"))
	if err != nil || len(cases) == 0 {
		t.Fatalf("no cases: %v", err)
	}
	nviol, nontrivial := 0, 0
	var cur int
	report := func(key, what string) {
		nviol++
		if nviol <= 60 {
			raw.Emit(viol{"viol", key, what, cur})
		}
	}
	chk := func(key string, got, want []byte, desc string) {
		if !bytes.Equal(got, want) {
			report(key, fmt.Sprintf("%s: got % x want % x", desc, got, want))
		}
	}
	for ci, c := range cases {
		cur = ci
		switch c.Kind {
		case "enc":
			u := u64(c.Bits)
			if len(c.Varint) > 1 {
				nontrivial++
			}
			if c.W == 32 {
				v := int32(uint32(u))
				chk("AppendVarint", kbin.AppendVarint(nil, v), bs(c.Varint), fmt.Sprintf("AppendVarint(%d)", v))
				chk("AppendUvarint", kbin.AppendUvarint(nil, uint32(u)), bs(c.Uvarint), fmt.Sprintf("AppendUvarint(%d)", uint32(u)))
				chk("AppendInt32", kbin.AppendInt32(nil, v), bs(c.BE), fmt.Sprintf("AppendInt32(%d)", v))
				chk("AppendUint32", kbin.AppendUint32(nil, uint32(u)), bs(c.BE), fmt.Sprintf("AppendUint32(%d)", uint32(u)))
				if kbin.VarintLen(v) != len(c.Varint) || kbin.UvarintLen(uint32(u)) != len(c.Uvarint) {
					report("VarintLen", fmt.Sprintf("VarintLen(%d)=%d UvarintLen(%d)=%d, encoded lengths %d %d", v, kbin.VarintLen(v), uint32(u), kbin.UvarintLen(uint32(u)), len(c.Varint), len(c.Uvarint)))
				}
				// decode with trailing garbage and through the Reader; never read past
				in := append(bs(c.Varint), 0xAA)
				if got, n := kbin.Varint(in); got != v || n != len(c.Varint) {
					report("Varint roundtrip", fmt.Sprintf("Varint(% x)=(%d,%d) want (%d,%d)", in, got, n, v, len(c.Varint)))
				}
				if got, n := kbin.Uvarint(append(bs(c.Uvarint), 0xAA)); got != uint32(u) || n != len(c.Uvarint) {
					report("Uvarint roundtrip", fmt.Sprintf("Uvarint(% x)=(%d,%d) want (%d,%d)", c.Uvarint, got, n, uint32(u), len(c.Uvarint)))
				}
				r := kbin.Reader{Src: append(append(bs(c.Varint), bs(c.Uvarint)...), bs(c.BE)...)}
				a, b2, c3 := r.Varint(), r.Uvarint(), r.Int32()
				if a != v || b2 != uint32(u) || c3 != v || r.Complete() != nil || len(r.Src) != 0 {
					report("Reader 32", fmt.Sprintf("Reader Varint/Uvarint/Int32 = %d %d %d err=%v left=%d, want %d %d %d", a, b2, c3, r.Complete(), len(r.Src), v, uint32(u), v))
				}
				r = kbin.Reader{Src: bs(c.BE)}
				if r.Uint32() != uint32(u) || r.Complete() != nil {
					report("Reader Uint32", fmt.Sprintf("Reader.Uint32(% x) wrong", c.BE))
				}
			} else {
				v := int64(u)
				chk("AppendVarlong", kbin.AppendVarlong(nil, v), bs(c.Varint), fmt.Sprintf("AppendVarlong(%d)", v))
				chk("AppendInt64", kbin.AppendInt64(nil, v), bs(c.BE), fmt.Sprintf("AppendInt64(%d)", v))
				chk("AppendFloat64", kbin.AppendFloat64(nil, math.Float64frombits(u)), bs(c.BE), fmt.Sprintf("AppendFloat64(bits %x)", u))
				if kbin.VarlongLen(v) != len(c.Varint) {
					report("VarlongLen", fmt.Sprintf("VarlongLen(%d)=%d, encoded length %d", v, kbin.VarlongLen(v), len(c.Varint)))
				}
				if got, n := kbin.Varlong(append(bs(c.Varint), 0xAA)); got != v || n != len(c.Varint) {
					report("Varlong roundtrip", fmt.Sprintf("Varlong(% x)=(%d,%d) want (%d,%d)", c.Varint, got, n, v, len(c.Varint)))
				}
				r := kbin.Reader{Src: append(append(append(bs(c.Varint), bs(c.BE)...), bs(c.BE)...), append(bs(c.BE), bs(c.BE)...)...)}
				a, b2, f := r.Varlong(), r.Int64(), r.Float64()
				id := r.Uuid()
				var wid [16]byte
				copy(wid[:], append(bs(c.BE), bs(c.BE)...))
				if a != v || b2 != v || math.Float64bits(f) != u || id != wid || r.Complete() != nil || len(r.Src) != 0 {
					report("Reader 64", fmt.Sprintf("Reader Varlong/Int64/Float64/Uuid wrong for %d", v))
				}
				chk("AppendUuid", kbin.AppendUuid(nil, wid), wid[:], "AppendUuid")
			}
		case "be":
			u := u64(c.Bits)
			if c.W == 8 {
				chk("AppendInt8", kbin.AppendInt8(nil, int8(uint8(u))), bs(c.BE), fmt.Sprintf("AppendInt8(%d)", int8(uint8(u))))
				r := kbin.Reader{Src: bs(c.BE)}
				if r.Int8() != int8(uint8(u)) || r.Complete() != nil {
					report("Reader Int8", "Reader.Int8 wrong")
				}
				if u <= 1 {
					chk("AppendBool", kbin.AppendBool(nil, u == 1), bs(c.BE), "AppendBool")
				}
				r = kbin.Reader{Src: bs(c.BE)}
				if r.Bool() != (u != 0) {
					report("Reader Bool", fmt.Sprintf("Reader.Bool(%d)", u))
				}
			} else {
				chk("AppendInt16", kbin.AppendInt16(nil, int16(uint16(u))), bs(c.BE), fmt.Sprintf("AppendInt16(%d)", int16(uint16(u))))
				chk("AppendUint16", kbin.AppendUint16(nil, uint16(u)), bs(c.BE), fmt.Sprintf("AppendUint16(%d)", uint16(u)))
				r := kbin.Reader{Src: append(bs(c.BE), bs(c.BE)...)}
				if r.Int16() != int16(uint16(u)) || r.Uint16() != uint16(u) || r.Complete() != nil {
					report("Reader Int16", "Reader.Int16/Uint16 wrong")
				}
			}
		case "dec":
			in := bs(c.Bytes)
			if c.N <= 0 {
				nontrivial++
			}
			if c.W == 32 {
				wantU, wantS := uint32(u64(c.UBits)), int32(uint32(u64(c.SBits)))
				var gu uint32
				var gs int32
				var n1, n2 int
				if p := guard(func() { gu, n1 = kbin.Uvarint(in); gs, n2 = kbin.Varint(in) }); p != nil {
					report("Uvarint panic", fmt.Sprintf("Uvarint(% x) panicked: %v", in, p))
					continue
				}
				if n1 != c.N || n2 != c.N || (c.N > 0 && (gu != wantU || gs != wantS)) || (c.N <= 0 && (gu != 0 || gs != 0)) {
					report(fmt.Sprintf("Uvarint n=%d", c.N), fmt.Sprintf("Uvarint(% x)=(%d,%d) Varint=(%d,%d); spec (%d / %d, n=%d)", in, gu, n1, gs, n2, wantU, wantS, c.N))
				}
				r := kbin.Reader{Src: in}
				got := r.Uvarint()
				if c.N > 0 && (got != wantU || r.Complete() != nil || len(r.Src) != len(in)-c.N) {
					report("Reader.Uvarint ok", fmt.Sprintf("Reader.Uvarint(% x)=%d err=%v left=%d", in, got, r.Complete(), len(r.Src)))
				}
				if c.N <= 0 && r.Complete() == nil {
					report("Reader.Uvarint accepts", fmt.Sprintf("Reader.Uvarint(% x) accepted a short/overflowing varint (value %d)", in, got))
				}
				r = kbin.Reader{Src: in}
				r.Varint()
				if (c.N <= 0) != (r.Complete() != nil) {
					report("Reader.Varint verdict", fmt.Sprintf("Reader.Varint(% x) err=%v, spec n=%d", in, r.Complete(), c.N))
				}
			} else {
				wantS := int64(u64(c.SBits))
				var gs int64
				var n int
				if p := guard(func() { gs, n = kbin.Varlong(in) }); p != nil {
					report("Varlong panic", fmt.Sprintf("Varlong(% x) panicked: %v", in, p))
					continue
				}
				if n != c.N || (c.N > 0 && gs != wantS) || (c.N <= 0 && gs != 0) {
					report(fmt.Sprintf("Varlong n=%d", c.N), fmt.Sprintf("Varlong(% x)=(%d,%d); spec (%d, n=%d)", in, gs, n, wantS, c.N))
				}
				r := kbin.Reader{Src: in}
				got := r.Varlong()
				if c.N > 0 && (got != wantS || r.Complete() != nil || len(r.Src) != len(in)-c.N) {
					report("Reader.Varlong ok", fmt.Sprintf("Reader.Varlong(% x)=%d err=%v left=%d", in, got, r.Complete(), len(r.Src)))
				}
				if c.N <= 0 && r.Complete() == nil {
					report("Reader.Varlong accepts", fmt.Sprintf("Reader.Varlong(% x) accepted a short/overflowing varint", in))
				}
			}
		case "prefix":
			if c.Len < 0 {
				chk("AppendNullableString nil", kbin.AppendNullableString(nil, nil), bs(c.I16), "AppendNullableString(nil)")
				chk("AppendCompactNullableString nil", kbin.AppendCompactNullableString(nil, nil), bs(c.Compact), "AppendCompactNullableString(nil)")
				chk("AppendNullableBytes nil", kbin.AppendNullableBytes(nil, nil), bs(c.I32), "AppendNullableBytes(nil)")
				chk("AppendCompactNullableBytes nil", kbin.AppendCompactNullableBytes(nil, nil), bs(c.Compact), "AppendCompactNullableBytes(nil)")
				chk("AppendVarintBytes nil", kbin.AppendVarintBytes(nil, nil), bs(c.Varint), "AppendVarintBytes(nil)")
				chk("AppendNullableArrayLen nil", kbin.AppendNullableArrayLen(nil, 0, true), bs(c.I32), "AppendNullableArrayLen(nil)")
				chk("AppendCompactNullableArrayLen nil", kbin.AppendCompactNullableArrayLen(nil, 0, true), bs(c.Compact), "AppendCompactNullableArrayLen(nil)")
				for name, f := range map[string]func(r *kbin.Reader) bool{
					"NullableString":        func(r *kbin.Reader) bool { return r.NullableString() == nil },
					"NullableBytes":         func(r *kbin.Reader) bool { return r.NullableBytes() == nil },
					"CompactNullableString": func(r *kbin.Reader) bool { return r.CompactNullableString() == nil },
					"CompactNullableBytes":  func(r *kbin.Reader) bool { return r.CompactNullableBytes() == nil },
				} {
					src := bs(c.I16)
					if name == "NullableBytes" {
						src = bs(c.I32)
					} else if strings.HasPrefix(name, "Compact") {
						src = bs(c.Compact)
					}
					r := kbin.Reader{Src: src}
					if !f(&r) || r.Complete() != nil {
						report("Reader "+name+" null", "null not read back as nil")
					}
				}
				continue
			}
			pay := bytes.Repeat([]byte{'a'}, c.Len)
			s := string(pay)
			cat := func(p []int) []byte { return append(bs(p), pay...) }
			chk("AppendString", kbin.AppendString(nil, s), cat(c.I16), "AppendString")
			chk("AppendNullableString", kbin.AppendNullableString(nil, &s), cat(c.I16), "AppendNullableString")
			chk("AppendCompactString", kbin.AppendCompactString(nil, s), cat(c.Compact), "AppendCompactString")
			chk("AppendCompactNullableString", kbin.AppendCompactNullableString(nil, &s), cat(c.Compact), "AppendCompactNullableString")
			chk("AppendBytes", kbin.AppendBytes(nil, pay), cat(c.I32), "AppendBytes")
			chk("AppendNullableBytes", kbin.AppendNullableBytes(nil, pay), cat(c.I32), "AppendNullableBytes")
			chk("AppendCompactBytes", kbin.AppendCompactBytes(nil, pay), cat(c.Compact), "AppendCompactBytes")
			chk("AppendCompactNullableBytes", kbin.AppendCompactNullableBytes(nil, pay), cat(c.Compact), "AppendCompactNullableBytes")
			chk("AppendVarintString", kbin.AppendVarintString(nil, s), cat(c.Varint), "AppendVarintString")
			chk("AppendVarintBytes", kbin.AppendVarintBytes(nil, pay), cat(c.Varint), "AppendVarintBytes")
			chk("AppendArrayLen", kbin.AppendArrayLen(nil, c.Len), bs(c.I32), "AppendArrayLen")
			chk("AppendNullableArrayLen", kbin.AppendNullableArrayLen(nil, c.Len, false), bs(c.I32), "AppendNullableArrayLen")
			chk("AppendCompactArrayLen", kbin.AppendCompactArrayLen(nil, c.Len), bs(c.Compact), "AppendCompactArrayLen")
			chk("AppendCompactNullableArrayLen", kbin.AppendCompactNullableArrayLen(nil, c.Len, false), bs(c.Compact), "AppendCompactNullableArrayLen")
			// read back, and every strict prefix must error without panicking or over-reading
			type rd struct {
				name string
				src  []byte
				f    func(r *kbin.Reader) []byte
			}
			rds := []rd{
				{"String", cat(c.I16), func(r *kbin.Reader) []byte { return []byte(r.String()) }},
				{"NullableString", cat(c.I16), func(r *kbin.Reader) []byte { p := r.NullableString(); if p == nil { return nil }; return []byte(*p) }},
				{"CompactString", cat(c.Compact), func(r *kbin.Reader) []byte { return []byte(r.CompactString()) }},
				{"CompactNullableString", cat(c.Compact), func(r *kbin.Reader) []byte { p := r.CompactNullableString(); if p == nil { return nil }; return []byte(*p) }},
				{"Bytes", cat(c.I32), func(r *kbin.Reader) []byte { return r.Bytes() }},
				{"NullableBytes", cat(c.I32), func(r *kbin.Reader) []byte { return r.NullableBytes() }},
				{"CompactBytes", cat(c.Compact), func(r *kbin.Reader) []byte { return r.CompactBytes() }},
				{"CompactNullableBytes", cat(c.Compact), func(r *kbin.Reader) []byte { return r.CompactNullableBytes() }},
				{"VarintBytes", cat(c.Varint), func(r *kbin.Reader) []byte { return r.VarintBytes() }},
				{"VarintString", cat(c.Varint), func(r *kbin.Reader) []byte { return []byte(r.VarintString()) }},
			}
			for _, x := range rds {
				r := kbin.Reader{Src: append(append([]byte(nil), x.src...), 0xAA)}
				got := x.f(&r)
				if !bytes.Equal(got, pay) || r.Complete() == nil && len(r.Src) != 1 || len(r.Src) != 1 {
					report("Reader "+x.name, fmt.Sprintf("Reader.%s of len %d: got %d bytes, left %d", x.name, c.Len, len(got), len(r.Src)))
				}
				cuts := []int{0, 1, len(x.src) - 1}
				for _, cut := range cuts {
					if cut < 0 || cut >= len(x.src) {
						continue
					}
					r := kbin.Reader{Src: x.src[:cut:cut]}
					if p := guard(func() { x.f(&r) }); p != nil {
						report("Reader "+x.name+" panic", fmt.Sprintf("Reader.%s panicked on %d of %d bytes: %v", x.name, cut, len(x.src), p))
					} else if r.Complete() == nil {
						report("Reader "+x.name+" short", fmt.Sprintf("Reader.%s accepted %d of %d bytes", x.name, cut, len(x.src)))
					}
				}
			}
			for name, x := range map[string]struct {
				src []byte
				f   func(r *kbin.Reader) int32
			}{
				"ArrayLen":        {bs(c.I32), func(r *kbin.Reader) int32 { return r.ArrayLen() }},
				"CompactArrayLen": {bs(c.Compact), func(r *kbin.Reader) int32 { return r.CompactArrayLen() }},
				"VarintArrayLen":  {bs(c.Varint), func(r *kbin.Reader) int32 { return r.VarintArrayLen() }},
			} {
				// array lengths are validated against the remaining input: supply len bytes
				r := kbin.Reader{Src: append(append([]byte(nil), x.src...), pay...)}
				if got := x.f(&r); got != int32(c.Len) || r.Complete() != nil {
					report("Reader "+name, fmt.Sprintf("Reader.%s=%d err=%v want %d", name, got, r.Complete(), c.Len))
				}
			}
		}
	}
	// every fixed-width Reader method on every input shorter than it needs
	short := 0
	for name, x := range map[string]struct {
		need int
		f    func(r *kbin.Reader)
	}{
		"Bool": {1, func(r *kbin.Reader) { r.Bool() }}, "Int8": {1, func(r *kbin.Reader) { r.Int8() }}, "Int16": {2, func(r *kbin.Reader) { r.Int16() }},
		"Uint16": {2, func(r *kbin.Reader) { r.Uint16() }}, "Int32": {4, func(r *kbin.Reader) { r.Int32() }}, "Uint32": {4, func(r *kbin.Reader) { r.Uint32() }},
		"Int64": {8, func(r *kbin.Reader) { r.Int64() }}, "Float64": {8, func(r *kbin.Reader) { r.Float64() }}, "Uuid": {16, func(r *kbin.Reader) { r.Uuid() }},
		"Span": {5, func(r *kbin.Reader) { r.Span(5) }},
	} {
		for n := 0; n < x.need; n++ {
			short++
			r := kbin.Reader{Src: make([]byte, n, n)}
			if p := guard(func() { x.f(&r) }); p != nil || r.Complete() == nil {
				report("Reader "+name+" short", fmt.Sprintf("Reader.%s on %d of %d bytes: panic=%v err=%v", name, n, x.need, p, r.Complete()))
			}
		}
	}
	raw.Emit(map[string]any{"kind": "stat", "cases": len(cases), "short_inputs": short, "nontrivial": nontrivial, "violations": nviol})
}

// The protocol package keeps a private copy of the primitives; it must be the same source.
func TestPrivateCopyIdentical(t *testing.T) {
	repo := os.Getenv("VERIF_REPO")
	norm := func(p string) string {
		b, err := os.ReadFile(filepath.Join(repo, p))
		if err != nil {
			t.Fatal(err)
		}
		s := regexp.MustCompile(`(?m)^//.*\n`).ReplaceAllString(string(b), "")
		s = regexp.MustCompile(`(?m)^package .*\n`).ReplaceAllString(s, "")
		return strings.TrimSpace(s)
	}
	a, b := norm("pkg/kbin/primitives.go"), norm("pkg/kmsg/internal/kbin/primitives.go")
	same := a == b
	if !same {
		al, bl := strings.Split(a, "\n"), strings.Split(b, "\n")
		d := ""
		for i := 0; i < len(al) && i < len(bl); i++ {
			if al[i] != bl[i] {
				d = fmt.Sprintf("first difference at code line %d: %q vs %q", i, al[i], bl[i])
				break
			}
		}
		raw.Emit(viol{"viol", "private copy differs", "pkg/kmsg/internal/kbin/primitives.go differs from pkg/kbin/primitives.go: " + d, -1})
	}
	raw.Emit(map[string]any{"kind": "stat", "identical": same})
}
