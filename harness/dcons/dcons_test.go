package dcons

// D-CONS: scenario driver for the direct-consumer properties (C04, C05, C14 fetch half, C39).
// A consumer with directly assigned topics runs against kfake (2 brokers) in a synctest bubble while plain and
// transactional producers write, transactions commit/abort, partitions are paused/resumed, fetch connections are
// killed, fetch sessions are invalidated and leaders move. Ground truth (what was produced where, which transaction
// ended how) and everything the consumer returns are recorded and validated by TLC against spec/FetchTrace.tla.

import (
	"context"
	"encoding/json"
	"errors"
	"fmt"
	"math/rand"
	"os"
	"sort"
	"sync/atomic"
	"testing"
	"testing/synctest"
	"time"

	"github.com/twmb/franz-go/pkg/kerr"
	"github.com/twmb/franz-go/pkg/kfake"
	"github.com/twmb/franz-go/pkg/kgo"
	"github.com/twmb/franz-go/pkg/kmsg"
	"verif/harness/raw"
	"verif/harness/sim"
)

type Step struct {
	Op     string `json:"op"`          // produce | endtxn | poll | pause | resume | fault | sleep | addtopic | rmpart | purge
	P      int    `json:"p,omitempty"` // producer: 0 plain, 1..2 transactional
	Topic  string `json:"topic,omitempty"`
	Part   int32  `json:"part"`
	N      int    `json:"n,omitempty"`
	Commit bool   `json:"commit,omitempty"`
	Whole  bool   `json:"whole,omitempty"` // pause/resume the whole topic
	Fault  string `json:"fault,omitempty"`
	Ms     int    `json:"ms,omitempty"`
	Big    bool   `json:"big,omitempty"`
}

type Scenario struct {
	Seed      int64  `json:"seed"`
	RC        bool   `json:"rc"`     // read_committed
	Select    string `json:"select"` // topics | regex | parts
	MaxPBytes int    `json:"maxPartBytes"`
	Steps     []Step `json:"steps"`
}

var topics = []string{"a", "b"}

func gen(seed int64, tier string) Scenario {
	r := rand.New(rand.NewSource(seed))
	sc := Scenario{Seed: seed, RC: r.Intn(3) != 0, Select: []string{"topics", "topics", "regex", "parts"}[r.Intn(4)]}
	if r.Intn(3) == 0 {
		sc.MaxPBytes = 200 + r.Intn(400)
	}
	n := 8 + r.Intn(14)
	if tier == "thorough" {
		n += r.Intn(16)
	}
	ladderAt := -1
	if r.Intn(3) == 0 {
		ladderAt = r.Intn(n)
	}
	abortsAt := -1
	if r.Intn(3) == 0 {
		abortsAt = r.Intn(n)
		if sc.MaxPBytes == 0 && r.Intn(2) == 0 {
			sc.MaxPBytes = 200 + r.Intn(200) // the interleaved transactions are then read in pieces (truncated responses)
		}
	}
	holdAt := -1
	if r.Intn(3) == 0 {
		holdAt = r.Intn(n)
	}
	for i := 0; i < n; i++ {
		tp := func() (string, int32) { return topics[r.Intn(2)], int32(r.Intn(2)) }
		if i == abortsAt {
			// aborted transactions of two producers interleaved in one partition (P1, P2, P1 in marker order), read in one go:
			// the aborted-transaction index of the fetch response lists them alternating
			t, p := tp()
			sc.Steps = append(sc.Steps,
				Step{Op: "endtxn", P: 1, Commit: false}, Step{Op: "endtxn", P: 2, Commit: false},
				Step{Op: "produce", P: 1, Topic: t, Part: p, N: 2, Big: r.Intn(2) == 0}, Step{Op: "produce", P: 2, Topic: t, Part: p, N: 2, Big: r.Intn(2) == 0},
				Step{Op: "endtxn", P: 1, Commit: false}, Step{Op: "produce", P: 1, Topic: t, Part: p, N: 1},
				Step{Op: "endtxn", P: 2, Commit: false}, Step{Op: "endtxn", P: 1, Commit: false},
				Step{Op: "produce", P: 2, Topic: t, Part: p, N: 2}, Step{Op: "endtxn", P: 2, Commit: true},
				Step{Op: "produce", P: 1, Topic: t, Part: p, N: 1}, Step{Op: "endtxn", P: 1, Commit: true},
				Step{Op: "produce", P: 0, Topic: t, Part: p, N: 1}, Step{Op: "sleep", Ms: 100}, Step{Op: "poll", N: 0}, Step{Op: "sleep", Ms: 60}, Step{Op: "poll", N: 0})
		}
		if i == holdAt {
			// a fetch response with records is held while it is being decoded; meanwhile the partition's leader moves and the
			// client learns about it (its consumer session stops under the half-processed fetch)
			t, p := tp()
			sc.Steps = append(sc.Steps,
				Step{Op: "produce", P: 0, Topic: t, Part: p, N: 3}, Step{Op: "sleep", Ms: 80}, Step{Op: "poll", N: 0},
				Step{Op: "fault", Fault: "holdfetch", Ms: 200}, Step{Op: "produce", P: 0, Topic: t, Part: p, N: 4}, Step{Op: "sleep", Ms: []int{30, 60, 100}[r.Intn(3)]},
				Step{Op: "fault", Fault: "moveleader", Topic: t, Part: p}, Step{Op: "refresh"}, Step{Op: "sleep", Ms: 300},
				Step{Op: "poll", N: 0}, Step{Op: "sleep", Ms: 100}, Step{Op: "poll", N: 0})
		}
		if i == ladderAt {
			// epoch ladder: everything consumed in one leader epoch, the leader moves, records of the next epoch are buffered and
			// only partly taken, then the leader moves again while the rest is still buffered
			t, p := tp()
			sc.Steps = append(sc.Steps,
				Step{Op: "produce", P: 0, Topic: t, Part: p, N: 3}, Step{Op: "sleep", Ms: 60}, Step{Op: "poll", N: 0},
				Step{Op: "fault", Fault: "moveleader", Topic: t, Part: p}, Step{Op: "sleep", Ms: 80},
				Step{Op: "produce", P: 0, Topic: t, Part: p, N: 4}, Step{Op: "sleep", Ms: 80}, Step{Op: "poll", N: 1 + r.Intn(2)},
				Step{Op: "fault", Fault: "moveleader", Topic: t, Part: p}, Step{Op: "refresh"}, Step{Op: "sleep", Ms: 120},
				Step{Op: "poll", N: 0}, Step{Op: "sleep", Ms: 60}, Step{Op: "poll", N: 0})
		}
		switch x := r.Intn(24); {
		case x < 9:
			t, p := tp()
			sc.Steps = append(sc.Steps, Step{Op: "produce", P: r.Intn(3), Topic: t, Part: p, N: 1 + r.Intn(4), Big: r.Intn(4) == 0})
		case x < 12:
			sc.Steps = append(sc.Steps, Step{Op: "endtxn", P: 1 + r.Intn(2), Commit: r.Intn(2) == 0})
		case x < 17:
			sc.Steps = append(sc.Steps, Step{Op: "poll", N: []int{0, 0, 1, 2, 3}[r.Intn(5)]})
		case x < 19:
			t, p := tp()
			sc.Steps = append(sc.Steps, Step{Op: "pause", Topic: t, Part: p, Whole: r.Intn(2) == 0})
		case x < 21:
			t, p := tp()
			sc.Steps = append(sc.Steps, Step{Op: "resume", Topic: t, Part: p, Whole: r.Intn(2) == 0})
		case x < 22:
			if r.Intn(3) == 0 {
				sc.Steps = append(sc.Steps, Step{Op: "refresh"})
			} else {
				sc.Steps = append(sc.Steps, Step{Op: "sleep", Ms: 1 + r.Intn(80)})
			}
		default:
			t, p := tp()
			sc.Steps = append(sc.Steps, Step{Op: "fault", Fault: []string{"killfetch", "sesserr", "moveleader", "stall", "retriable"}[r.Intn(5)], Topic: t, Part: p, Ms: 20 + r.Intn(100)})
		}
	}
	return sc
}

func idOf(r *kgo.Record) int {
	var id int
	fmt.Sscanf(string(r.Value), "r%d-", &id)
	return id
}

type hooks struct {
	rec  *sim.Recorder
	hold atomic.Int64 // armed by the "holdfetch" fault: the next batch read out of a fetch response is held this long (ns)
}

// OnFetchBatchRead runs while a fetch response is being decoded, before it is buffered: holding it here opens the window in
// which a leader move and a metadata refresh stop the consumer session under a fetch that is half way through.
func (h *hooks) OnFetchBatchRead(_ kgo.BrokerMetadata, _ string, _ int32, _ kgo.FetchBatchMetrics) {
	if d := h.hold.Swap(0); d > 0 {
		time.Sleep(time.Duration(d))
	}
}

func (h *hooks) OnFetchRecordBuffered(r *kgo.Record) {
	h.rec.Ev("fetch_buffered", "id", idOf(r), "topic", r.Topic, "part", r.Partition, "offset", r.Offset)
}
func (h *hooks) OnFetchRecordUnbuffered(r *kgo.Record, polled bool) {
	h.rec.Ev("fetch_unbuffered", "id", idOf(r), "polled", polled)
}

type tpo struct {
	T string `json:"t"`
	P int32  `json:"p"`
	O int64  `json:"o"`
	I int    `json:"id"`
}

func runScenario(t *testing.T, rec *sim.Recorder, sc Scenario) {
	synctest.Test(t, func(t *testing.T) {
		rec.ResetSeq()
		js, _ := json.Marshal(sc)
		rec.Ev("reset", "rc", sc.RC, "select", sc.Select, "scenario", string(js))
		var vnet kfake.VirtualNetwork
		chaos := sim.NewChaos()
		chaos.Latency = 200 * time.Microsecond
		c, err := kfake.NewCluster(kfake.NumBrokers(2), kfake.SeedTopics(2, topics...), kfake.ListenFn(chaos.Listen(vnet.Listen)), kfake.Ports(9092, 9093))
		if err != nil {
			t.Fatal(err)
		}
		defer c.Close()
		if os.Getenv("VERIF_DEBUG_TXN") != "" {
			for _, k := range []kmsg.Key{kmsg.EndTxn, kmsg.AddPartitionsToTxn, kmsg.InitProducerID, kmsg.Produce} {
				k := k
				c.ControlKey(int16(k), func(kreq kmsg.Request) (kmsg.Response, error, bool) {
					c.KeepControl()
					switch r := kreq.(type) {
					case *kmsg.EndTxnRequest:
						rec.Ev("dbg_endtxn", "txid", r.TransactionalID, "pid", r.ProducerID, "epoch", r.ProducerEpoch, "commit", r.Commit, "v", r.Version)
					case *kmsg.AddPartitionsToTxnRequest:
						rec.Ev("dbg_addparts", "v", r.Version, "n", len(r.Topics)+len(r.Transactions))
					case *kmsg.InitProducerIDRequest:
						rec.Ev("dbg_initpid", "pid", r.ProducerID, "epoch", r.ProducerEpoch)
					case *kmsg.ProduceRequest:
						if r.TransactionID != nil {
							var ps []string
							for _, rt := range r.Topics {
								for _, rp := range rt.Partitions {
									var b kmsg.RecordBatch
									b.ReadFrom(rp.Records)
									ps = append(ps, fmt.Sprintf("%x/%d pid=%d e=%d seq=%d n=%d", rt.TopicID[:2], rp.Partition, b.ProducerID, b.ProducerEpoch, b.FirstSequence, b.NumRecords))
								}
							}
							rec.Ev("dbg_txnproduce", "txid", *r.TransactionID, "parts", ps, "v", r.Version)
						}
					}
					return nil, nil, false
				})
			}
		}
		if os.Getenv("VERIF_DEBUG_FETCH") != "" {
			c.ControlKey(int16(kmsg.Fetch), func(kreq kmsg.Request) (kmsg.Response, error, bool) {
				c.KeepControl()
				req := kreq.(*kmsg.FetchRequest)
				var ps []string
				for _, rt := range req.Topics {
					for _, rp := range rt.Partitions {
						ps = append(ps, fmt.Sprintf("%s%x/%d@%d", rt.Topic, rt.TopicID[:2], rp.Partition, rp.FetchOffset))
					}
				}
				rec.Ev("dbg_fetch_req", "node", c.CurrentNode(), "sess", req.SessionID, "epoch", req.SessionEpoch, "parts", ps, "forgot", len(req.ForgottenTopics))
				return nil, nil, false
			})
		}
		base := []kgo.Opt{kgo.SeedBrokers(c.ListenAddrs()...), kgo.Dialer(vnet.DialContext), kgo.MetadataMinAge(10 * time.Millisecond),
			kgo.RetryBackoffFn(func(int) time.Duration { return 10 * time.Millisecond }), kgo.RequestTimeoutOverhead(500 * time.Millisecond)}
		prod := make([]*kgo.Client, 3)
		inTxn := make([]bool, 3)
		txnN := make([]int, 3)
		for i := range prod {
			o := append([]kgo.Opt{kgo.RecordPartitioner(kgo.ManualPartitioner())}, base...)
			if i > 0 {
				o = append(o, kgo.TransactionalID(fmt.Sprintf("txn-%d", i)), kgo.TransactionTimeout(time.Minute))
			}
			if prod[i], err = kgo.NewClient(o...); err != nil {
				t.Fatal(err)
			}
			defer prod[i].Close()
		}
		hk := &hooks{rec: rec}
		copts := append([]kgo.Opt{kgo.WithHooks(hk), kgo.FetchMaxWait(50 * time.Millisecond), kgo.KeepControlRecords(), kgo.DisableFetchSessions()}[:2], base...)
		if sc.RC {
			copts = append(copts, kgo.FetchIsolationLevel(kgo.ReadCommitted()))
		} else {
			copts = append(copts, kgo.FetchIsolationLevel(kgo.ReadUncommitted()))
		}
		if sc.MaxPBytes > 0 {
			copts = append(copts, kgo.FetchMaxPartitionBytes(int32(sc.MaxPBytes)), kgo.FetchMaxBytes(int32(sc.MaxPBytes*3)))
		}
		switch sc.Select {
		case "regex":
			copts = append(copts, kgo.ConsumeTopics("^[ab]$"), kgo.ConsumeRegex())
		case "parts":
			copts = append(copts, kgo.ConsumePartitions(map[string]map[int32]kgo.Offset{
				"a": {0: kgo.NewOffset().AtStart(), 1: kgo.NewOffset().AtStart()}, "b": {0: kgo.NewOffset().AtStart(), 1: kgo.NewOffset().AtStart()}}))
		default:
			copts = append(copts, kgo.ConsumeTopics(topics...))
		}
		cons, err := kgo.NewClient(copts...)
		if err != nil {
			t.Fatal(err)
		}
		ctx := context.Background()
		nextID := 0
		poll := func(n int, d time.Duration) int {
			pctx, cancel := context.WithTimeout(ctx, d)
			defer cancel()
			var fs kgo.Fetches
			if n == 0 {
				fs = cons.PollFetches(pctx)
			} else {
				fs = cons.PollRecords(pctx, n)
			}
			got := []tpo{}
			fs.EachRecord(func(r *kgo.Record) {
				got = append(got, tpo{r.Topic, r.Partition, r.Offset, idOf(r)})
			})
			var errs []string
			fs.EachError(func(tp string, p int32, err error) {
				if !errors.Is(err, context.DeadlineExceeded) && !errors.Is(err, context.Canceled) {
					errs = append(errs, fmt.Sprintf("%s/%d: %v", tp, p, err))
				}
			})
			sort.Strings(errs)
			rec.Ev("poll_ret", "n", n, "recs", got, "errs", len(errs))
			return len(got)
		}
		endTxn := func(p int, commit bool) {
			if !inTxn[p] {
				return
			}
			if err := prod[p].Flush(ctx); err != nil {
				commit = false
			}
			how := kgo.TryAbort
			if commit {
				how = kgo.TryCommit
			}
			err := prod[p].EndTransaction(ctx, how)
			if err != nil && commit { // could not commit: abort
				commit = false
				err = prod[p].EndTransaction(ctx, kgo.TryAbort)
			}
			inTxn[p] = false
			rec.Ev("txn_end", "p", p, "txn", txnN[p], "committed", commit && err == nil, "err", fmt.Sprint(err))
		}
		for _, st := range sc.Steps {
			switch st.Op {
			case "produce":
				p := st.P
				if p > 0 && !inTxn[p] {
					if err := prod[p].BeginTransaction(); err != nil {
						rec.Ev("note", "what", "begin failed: "+err.Error())
						continue
					}
					inTxn[p] = true
					txnN[p]++
					rec.Ev("txn_begin", "p", p, "txn", txnN[p])
				}
				var recs []*kgo.Record
				for i := 0; i < st.N; i++ {
					nextID++
					pad := ""
					if st.Big {
						pad = string(make([]byte, 150))
					}
					recs = append(recs, &kgo.Record{Topic: st.Topic, Partition: st.Part, Value: []byte(fmt.Sprintf("r%d-%s", nextID, pad))})
				}
				pctx, cancel := context.WithTimeout(ctx, 10*time.Second)
				res := prod[p].ProduceSync(pctx, recs...)
				cancel()
				for _, rr := range res {
					if rr.Err == nil {
						rec.Ev("produced", "id", idOf(rr.Record), "topic", st.Topic, "part", st.Part, "offset", rr.Record.Offset, "p", p, "txn", txnN[p]*b2i(p > 0))
					} else {
						rec.Ev("produce_failed", "id", idOf(rr.Record), "err", rr.Err.Error())
					}
				}
			case "endtxn":
				endTxn(st.P, st.Commit)
			case "poll":
				poll(st.N, 100*time.Millisecond)
			case "pause":
				if st.Whole {
					cons.PauseFetchTopics(st.Topic)
					rec.Ev("pause", "topic", st.Topic, "part", -1)
				} else {
					cons.PauseFetchPartitions(map[string][]int32{st.Topic: {st.Part}})
					rec.Ev("pause", "topic", st.Topic, "part", st.Part)
				}
			case "resume":
				if st.Whole {
					cons.ResumeFetchTopics(st.Topic)
					rec.Ev("resume", "topic", st.Topic, "part", -1)
				} else {
					cons.ResumeFetchPartitions(map[string][]int32{st.Topic: {st.Part}})
					rec.Ev("resume", "topic", st.Topic, "part", st.Part)
				}
			case "sleep":
				time.Sleep(time.Duration(st.Ms) * time.Millisecond)
			case "refresh":
				cons.ForceMetadataRefresh()
			case "fault":
				rec.Ev("fault", "fault", st.Fault)
				switch st.Fault {
				case "killfetch":
					c.ControlKey(int16(kmsg.Fetch), func(kmsg.Request) (kmsg.Response, error, bool) {
						return nil, errors.New("injected connection kill"), true
					})
				case "sesserr", "retriable":
					code := kerr.FetchSessionIDNotFound.Code
					c.ControlKey(int16(kmsg.Fetch), func(kreq kmsg.Request) (kmsg.Response, error, bool) {
						req := kreq.(*kmsg.FetchRequest)
						resp := req.ResponseKind().(*kmsg.FetchResponse)
						if st.Fault == "sesserr" {
							if req.SessionEpoch <= 0 { // only meaningful inside a session
								return nil, nil, false
							}
							resp.ErrorCode = code
							return resp, nil, true
						}
						for _, rt := range req.Topics {
							rst := kmsg.NewFetchResponseTopic()
							rst.Topic, rst.TopicID = rt.Topic, rt.TopicID
							for _, rp := range rt.Partitions {
								sp := kmsg.NewFetchResponseTopicPartition()
								sp.Partition, sp.ErrorCode = rp.Partition, kerr.NotLeaderForPartition.Code
								rst.Partitions = append(rst.Partitions, sp)
							}
							resp.Topics = append(resp.Topics, rst)
						}
						return resp, nil, true
					})
				case "moveleader":
					to := int32(0)
					if c.LeaderFor(st.Topic, st.Part) == 0 {
						to = 1
					}
					c.MoveTopicPartition(st.Topic, st.Part, to)
				case "holdfetch":
					hk.hold.Store(int64(time.Duration(st.Ms) * time.Millisecond))
				case "stall":
					chaos.StallNext(int16(kmsg.Fetch), 1, time.Duration(st.Ms)*time.Millisecond)
				}
			}
			synctest.Wait()
		}
		// settle: end open transactions (abort), resume everything, drain
		for p := 1; p <= 2; p++ {
			endTxn(p, false)
		}
		cons.ResumeFetchTopics(topics...)
		cons.ResumeFetchPartitions(map[string][]int32{"a": {0, 1}, "b": {0, 1}})
		rec.Ev("resume_all")
		for idle := 0; idle < 4; {
			if poll(0, 400*time.Millisecond) == 0 {
				idle++
			} else {
				idle = 0
			}
		}
		rec.Ev("drained", "bufferedRecords", cons.BufferedFetchRecords(), "bufferedBytes", cons.BufferedFetchBytes())
		cons.Close()
		synctest.Wait()
		rec.Ev("closed", "bufferedRecords", cons.BufferedFetchRecords(), "bufferedBytes", cons.BufferedFetchBytes())
		for _, p := range prod {
			p.Close()
		}
		c.Close()
		time.Sleep(2 * time.Second) // let injected stalls (sleeping control functions) run out before the bubble ends
		synctest.Wait()
	})
}

func b2i(b bool) int {
	if b {
		return 1
	}
	return 0
}

func TestScenarios(t *testing.T) {
	rec, err := sim.NewRecorder(os.Getenv("VERIF_OUT"))
	if err != nil {
		t.Fatal(err)
	}
	defer rec.Close()
	var scs []Scenario
	if p := os.Getenv("VERIF_SCENARIOS"); p != "" {
		if scs, err = raw.ReadNDJSON[Scenario](p); err != nil {
			t.Fatal(err)
		}
	} else {
		n := raw.EnvInt("VERIF_N", 40)
		seed := int64(raw.EnvInt("VERIF_SEED", 1))
		for i := 0; i < n; i++ {
			scs = append(scs, gen(seed*100000+int64(i), os.Getenv("VERIF_TIER")))
		}
	}
	for i, sc := range scs {
		if ok := t.Run(fmt.Sprintf("s%d", i), func(t *testing.T) { runScenario(t, rec, sc) }); !ok {
			rec.Ev("driver_failed", "scenario", i)
		}
	}
	raw.Emit(map[string]any{"kind": "stat", "scenarios": len(scs), "events": rec.N})
}
