package dclose

// D-CLOSE: C13 — Close returns within a bounded (virtual) time from any client state, every produce promise is
// called, polls return ErrClientClosed afterwards and none of the client's goroutines remain. A client that both
// produces and consumes in a group is driven through a random prefix of work against responsive, stalled or vanished
// brokers and then closed; validated by TLC against spec/CloseTrace.tla.

import (
	"context"
	"encoding/json"
	"errors"
	"fmt"
	"math/rand"
	"os"
	"runtime"
	"strings"
	"sync"
	"sync/atomic"
	"testing"
	"testing/synctest"
	"time"

	"github.com/twmb/franz-go/pkg/kfake"
	"github.com/twmb/franz-go/pkg/kgo"
	"github.com/twmb/franz-go/pkg/kmsg"
	"verif/harness/raw"
	"verif/harness/sim"
)

type Scenario struct {
	Seed         int64    `json:"seed"`
	Group        bool     `json:"group"`
	Txn          bool     `json:"txn"`
	BlockReb     bool     `json:"blockRebalanceOnPoll"`
	Brokers      string   `json:"brokers"`      // ok | stalled | gone | refuse
	Steps        []string `json:"steps"`        // produce | poll | flush | begin | sleep | join2
	SlowPartMs   int64    `json:"slowPartMs"`   // the partitioner sleeps this long (virtual): a Produce can be mid-partitioning when Close runs
	LateProduces int      `json:"lateProduces"` // Produce calls started concurrently with Close
	ParentCancel bool     `json:"parentCancel"` // built with WithContext(parent); parent is cancelled right before Close
	HoldPoll     bool     `json:"holdPoll"`     // with BlockRebalanceOnPoll: a poll returned records and AllowRebalance was not called
}

func gen(seed int64) Scenario {
	r := rand.New(rand.NewSource(seed))
	sc := Scenario{Seed: seed, Group: r.Intn(3) != 0, Txn: r.Intn(4) == 0, Brokers: []string{"ok", "ok", "stalled", "gone", "refuse"}[r.Intn(5)]}
	if sc.Group && r.Intn(3) == 0 {
		sc.BlockReb = true
		sc.HoldPoll = r.Intn(2) == 0
	}
	sc.ParentCancel = r.Intn(5) == 0
	if r.Intn(3) == 0 {
		sc.SlowPartMs = []int64{1, 100, 1500, 20000, 60000}[r.Intn(5)]
		sc.LateProduces = 1 + r.Intn(3)
	}
	n := r.Intn(8)
	for i := 0; i < n; i++ {
		sc.Steps = append(sc.Steps, []string{"produce", "produce", "produce", "poll", "poll", "flush", "sleep", "join2"}[r.Intn(8)])
	}
	return sc
}

func kgoGoroutines() (int, string) {
	buf := make([]byte, 1<<22)
	n := runtime.Stack(buf, true)
	cnt := 0
	first := ""
	for _, g := range strings.Split(string(buf[:n]), "\n\n") {
		if strings.Contains(g, "synctest bubble") && strings.Contains(g, "franz-go/pkg/kgo.") && !strings.Contains(g, "dclose.") {
			cnt++
			if first == "" {
				lines := strings.Split(g, "\n")
				for _, l := range lines {
					if strings.Contains(l, "franz-go/pkg/kgo.") {
						first = strings.TrimSpace(l)
						break
					}
				}
			}
		}
	}
	return cnt, first
}

func runScenario(t *testing.T, rec *sim.Recorder, sc Scenario) {
	synctest.Test(t, func(t *testing.T) {
		rec.ResetSeq()
		js, _ := json.Marshal(sc)
		rec.Ev("reset", "scenario", string(js))
		var vnet kfake.VirtualNetwork
		chaos := sim.NewChaos()
		c, err := kfake.NewCluster(kfake.NumBrokers(2), kfake.SeedTopics(2, "t"), kfake.ListenFn(chaos.Listen(vnet.Listen)), kfake.Ports(9092, 9093))
		if err != nil {
			t.Fatal(err)
		}
		var refuse atomic.Bool
		opts := []kgo.Opt{kgo.SeedBrokers(c.ListenAddrs()...), kgo.DefaultProduceTopic("t"), kgo.MetadataMinAge(10 * time.Millisecond),
			kgo.RetryBackoffFn(func(int) time.Duration { return 50 * time.Millisecond }), kgo.FetchMaxWait(200 * time.Millisecond),
			kgo.Dialer(dialer(&vnet, &refuse))}
		if sc.Group {
			opts = append(opts, kgo.ConsumerGroup("g"), kgo.ConsumeTopics("t"), kgo.HeartbeatInterval(300*time.Millisecond), kgo.SessionTimeout(10*time.Second))
			if sc.BlockReb {
				opts = append(opts, kgo.BlockRebalanceOnPoll())
			}
		} else {
			opts = append(opts, kgo.ConsumeTopics("t"))
		}
		if sc.Txn {
			opts = append(opts, kgo.TransactionalID("tx-close"))
		}
		parent, parentCancel := context.WithCancel(context.Background())
		defer parentCancel()
		if sc.ParentCancel {
			opts = append(opts, kgo.WithContext(parent))
		}
		var slow atomic.Int64
		if sc.SlowPartMs > 0 {
			opts = append(opts, kgo.RecordPartitioner(slowPartitioner{kgo.StickyKeyPartitioner(nil), &slow}))
		}
		cl, err := kgo.NewClient(opts...)
		if err != nil {
			t.Fatal(err)
		}
		var other *kgo.Client
		var produced, promised atomic.Int64
		var wg sync.WaitGroup
		inTxn := false
		holding := false
		for _, st := range sc.Steps {
			switch st {
			case "produce":
				if sc.Txn && !inTxn {
					if cl.BeginTransaction() == nil {
						inTxn = true
					}
				}
				produced.Add(1)
				wg.Add(1)
				go func() {
					defer wg.Done()
					cl.Produce(context.Background(), &kgo.Record{Value: []byte("v")}, func(*kgo.Record, error) { promised.Add(1) })
				}()
			case "poll":
				ctx, cancel := context.WithTimeout(context.Background(), 300*time.Millisecond)
				fs := cl.PollRecords(ctx, 2)
				cancel()
				if sc.BlockReb {
					if fs.NumRecords() > 0 && sc.HoldPoll {
						holding = true
					} else {
						cl.AllowRebalance()
					}
				}
			case "flush":
				ctx, cancel := context.WithTimeout(context.Background(), 200*time.Millisecond)
				cl.Flush(ctx)
				cancel()
			case "sleep":
				time.Sleep(time.Duration(50+sc.Seed%400) * time.Millisecond)
			case "join2":
				if sc.Group && other == nil {
					other, _ = kgo.NewClient(kgo.SeedBrokers(c.ListenAddrs()...), kgo.Dialer(vnet.DialContext), kgo.ConsumerGroup("g"), kgo.ConsumeTopics("t"))
					go func() {
						for {
							fs := other.PollFetches(context.Background())
							if fs.IsClientClosed() {
								return
							}
						}
					}()
				}
			}
			synctest.Wait()
		}
		// the brokers' condition at the time of Close
		switch sc.Brokers {
		case "stalled":
			for _, k := range []kmsg.Key{kmsg.Produce, kmsg.Fetch, kmsg.Metadata, kmsg.LeaveGroup, kmsg.Heartbeat, kmsg.OffsetCommit, kmsg.EndTxn, kmsg.JoinGroup, kmsg.SyncGroup, kmsg.FindCoordinator, kmsg.ConsumerGroupHeartbeat} {
				chaos.StallNext(int16(k), 50, 5*time.Minute)
			}
		case "gone":
			refuse.Store(true)
			c.Close()
		case "refuse":
			refuse.Store(true)
		}
		synctest.Wait()
		slow.Store(sc.SlowPartMs)
		for i := 0; i < sc.LateProduces; i++ {
			if sc.Txn && !inTxn {
				break
			}
			produced.Add(1)
			wg.Add(1)
			go func() {
				defer wg.Done()
				cl.Produce(context.Background(), &kgo.Record{Value: []byte("late-concurrent")}, func(*kgo.Record, error) { promised.Add(1) })
			}()
		}
		if sc.LateProduces > 0 {
			time.Sleep(time.Duration(sc.Seed%3) * time.Millisecond)
		}
		if sc.ParentCancel {
			parentCancel()
		}
		rec.Ev("close_call", "holding", holding)
		start := time.Now()
		slept0 := slowSleptMs.Load()
		done := make(chan struct{})
		go func() {
			if sc.BlockReb && holding {
				cl.CloseAllowingRebalance()
			} else {
				cl.Close()
			}
			close(done)
		}()
		select {
		case <-done:
			rec.Ev("close_ret", "ms", time.Since(start).Milliseconds(), "user_ms", slowSleptMs.Load()-slept0)
		case <-time.After(10 * time.Minute):
			rec.Ev("close_stuck", "ms", time.Since(start).Milliseconds())
		}
		// afterwards: promises, polls, goroutines
		time.Sleep(3*time.Second + time.Duration(sc.SlowPartMs)*time.Millisecond)
		synctest.Wait()
		pctx, pc := context.WithTimeout(context.Background(), time.Second)
		fs := cl.PollFetches(pctx)
		pc()
		perr := "none"
		if fs.IsClientClosed() {
			perr = "ErrClientClosed"
		} else if e := fs.Err0(); e != nil {
			perr = e.Error()
		}
		perr2 := ""
		var once sync.Once
		cl.Produce(context.Background(), &kgo.Record{Value: []byte("late")}, func(_ *kgo.Record, err error) {
			once.Do(func() {
				if errors.Is(err, kgo.ErrClientClosed) {
					perr2 = "ErrClientClosed"
				} else {
					perr2 = fmt.Sprint(err)
				}
			})
		})
		time.Sleep(time.Second)
		synctest.Wait()
		if other != nil {
			// the second group member is closed the same way: Close must return for it too
			odone := make(chan struct{})
			ostart := time.Now()
			go func() { other.Close(); close(odone) }()
			select {
			case <-odone:
			case <-time.After(10 * time.Minute):
				rec.Ev("close_stuck", "ms", time.Since(ostart).Milliseconds(), "which", "second member")
			}
		}
		if sc.Brokers != "gone" {
			c.Close()
		}
		time.Sleep(6 * time.Minute) // stalled responses run out
		synctest.Wait()
		n, where := kgoGoroutines()
		rec.Ev("after", "produced", produced.Load(), "promised", promised.Load(), "poll", perr, "late_produce", perr2, "kgo_goroutines", n, "where", where)
		wg.Wait()
	})
}

func TestScenarios(t *testing.T) {
	rec, err := sim.NewRecorder(os.Getenv("VERIF_OUT"))
	if err != nil {
		t.Fatal(err)
	}
	defer rec.Close()
	var scs []Scenario
	if p := os.Getenv("VERIF_SCENARIOS"); p != "" {
		if scs, err = raw.ReadNDJSON[Scenario](p); err != nil {
			t.Fatal(err)
		}
	} else {
		n := raw.EnvInt("VERIF_N", 20)
		seed := int64(raw.EnvInt("VERIF_SEED", 1))
		for i := 0; i < n; i++ {
			scs = append(scs, gen(seed*100000+int64(i)))
		}
	}
	for i, sc := range scs {
		if ok := t.Run(fmt.Sprintf("s%d", i), func(t *testing.T) { runScenario(t, rec, sc) }); !ok {
			rec.Ev("driver_failed", "scenario", i)
		}
	}
	raw.Emit(map[string]any{"kind": "stat", "scenarios": len(scs), "events": rec.N})
}
