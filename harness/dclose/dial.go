package dclose

import (
	"context"
	"errors"
	"net"
	"sync/atomic"
	"time"

	"github.com/twmb/franz-go/pkg/kfake"
	"github.com/twmb/franz-go/pkg/kgo"
)

func dialer(vnet *kfake.VirtualNetwork, refuse *atomic.Bool) func(ctx context.Context, network, addr string) (net.Conn, error) {
	return func(ctx context.Context, network, addr string) (net.Conn, error) {
		if refuse.Load() {
			return nil, &net.OpError{Op: "dial", Net: network, Err: errors.New("connection refused (injected)")}
		}
		return vnet.DialContext(ctx, network, addr)
	}
}

// slowPartitioner sleeps (virtual time) inside the user partitioner so that a Produce can be between its
// closed-client check and buffering while Close runs.
// slowSleptMs totals the (virtual) time partitioner calls have spent sleeping; the driver reports how much of it fell
// into a Close, because Close cannot return before user code it is waiting for has returned.
var slowSleptMs atomic.Int64

type slowPartitioner struct {
	inner kgo.Partitioner
	ms    *atomic.Int64
}

func (s slowPartitioner) ForTopic(t string) kgo.TopicPartitioner {
	return slowTopicPartitioner{s.inner.ForTopic(t), s.ms}
}

type slowTopicPartitioner struct {
	inner kgo.TopicPartitioner
	ms    *atomic.Int64
}

func (s slowTopicPartitioner) RequiresConsistency(r *kgo.Record) bool {
	return s.inner.RequiresConsistency(r)
}
func (s slowTopicPartitioner) Partition(r *kgo.Record, n int) int {
	if d := s.ms.Load(); d > 0 {
		time.Sleep(time.Duration(d) * time.Millisecond)
		slowSleptMs.Add(d) // user-code time: Close legitimately waits for a partitioner call in progress
	}
	return s.inner.Partition(r, n)
}
