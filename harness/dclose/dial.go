package dclose

import (
	"context"
	"errors"
	"net"
	"sync/atomic"

	"github.com/twmb/franz-go/pkg/kfake"
)

type netConn = net.Conn

func dialer(vnet *kfake.VirtualNetwork, refuse *atomic.Bool) func(ctx context.Context, network, addr string) (net.Conn, error) {
	return func(ctx context.Context, network, addr string) (net.Conn, error) {
		if refuse.Load() {
			return nil, &net.OpError{Op: "dial", Net: network, Err: errors.New("connection refused (injected)")}
		}
		return vnet.DialContext(ctx, network, addr)
	}
}
