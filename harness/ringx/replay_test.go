package ringx

// Behaviour replay (binding R) for C30/ring: every behaviour exported from the TLC state graph of spec/Ring.tla
// is executed, action by action, on the CURRENT pkg/kgo/ring.go (copied with its sync primitives rewritten to the
// deterministic scheduler in harness/ctl). After each action the real ring's state is compared with the spec's.

import (
	"fmt"
	"math/rand"
	"os"
	"reflect"
	"sort"
	"testing"

	"verif/harness/ctl"
	"verif/harness/raw"
)

type st struct {
	L         int            `json:"l"`
	Dead      bool           `json:"dead"`
	Contents  []int          `json:"contents"`
	Parked    []string       `json:"parked"`
	Signalled []string       `json:"signalled"`
	Worker    string         `json:"worker"`
	Processed []int          `json:"processed"`
	Accepted  []int          `json:"accepted"`
	Rejected  []int          `json:"rejected"`
	NextID    int            `json:"nextId"`
	PCount    map[string]int `json:"pcount"`
}
type step struct {
	Act   string   `json:"act"`
	Args  []string `json:"args"`
	State st       `json:"state"`
}
type beh struct {
	Init  st     `json:"init"`
	Steps []step `json:"steps"`
}
type cfg struct {
	Pushers   []string `json:"pushers"`
	PerPusher int      `json:"perPusher"`
	MaxLen    int      `json:"maxLen"`
	MinCap    int      `json:"minCap"`
	Forcers   []string `json:"forcers"`
}
type el struct {
	p string
	k int
}
type viol struct {
	Kind string `json:"kind"`
	Key  string `json:"key"`
	What string `json:"what"`
	Case int    `json:"case"`
	Step int    `json:"step"`
}

func sorted(s []string) []string { sort.Strings(s); return s }
func sameSet(a, b []string) bool {
	return len(a) == len(b) && (len(a) == 0 || reflect.DeepEqual(sorted(append([]string(nil), a...)), sorted(append([]string(nil), b...))))
}
func sameInts(a, b []int) bool { return len(a) == len(b) && (len(a) == 0 || reflect.DeepEqual(a, b)) }

func replay(c cfg, b beh) (stepIdx int, key, msg string) {
	s := ctl.New()
	minRingCap = c.MinCap
	r := &ring[*el]{}
	if c.MaxLen > 0 {
		r.initMaxLen(c.MaxLen)
	}
	id := map[el]int{} // real element -> spec id
	started := map[string]int{}
	var processed, accepted, rejected []int
	workers, nworkers := 0, 0
	curWorker := ""
	forcer := map[string]bool{}
	for _, f := range c.Forcers {
		forcer[f] = true
	}
	var spawn func(e *el)
	spawn = func(e *el) {
		nworkers++
		workers++
		name := fmt.Sprintf("w%d", nworkers)
		curWorker = name
		s.Go(name, func() {
			elem, more := e, true
			for more {
				s.Yield("work") // the user callback is one step
				processed = append(processed, id[*elem])
				elem, more, _ = r.dropPeek()
			}
			workers--
		})
	}
	for _, p := range c.Pushers {
		p := p
		s.Go(p, func() {
			for k := 0; k < c.PerPusher; k++ {
				e := &el{p, k}
				var first, dead bool
				if forcer[p] {
					first, dead = r.pushForce(e)
				} else {
					first, dead = r.push(e)
				}
				if dead {
					rejected = append(rejected, id[*e])
				} else {
					accepted = append(accepted, id[*e])
				}
				if first {
					spawn(e)
				}
			}
		})
	}
	s.Go("killer", func() { r.die() })
	primed := map[string]bool{}
	prime := func() string {
		for _, n := range s.Alive() {
			if !primed[n] {
				primed[n] = true
				if err := s.Step(n); err != nil {
					return err.Error()
				}
			}
		}
		return ""
	}
	if e := prime(); e != "" {
		return -1, "infra", e
	}
	prev := b.Init
	for i, stp := range b.Steps {
		th := ""
		s.SignalChoice = ""
		switch stp.Act {
		case "PushStart":
			th = stp.Args[0]
			id[el{th, started[th]}] = prev.NextID
			started[th]++
		case "PushResume":
			th = stp.Args[0]
		case "Work":
			th = curWorker
		case "DropPeek":
			th = curWorker
			for _, w := range stp.State.Signalled { // whom the spec's Signal woke
				found := false
				for _, o := range prev.Signalled {
					found = found || o == w
				}
				if !found {
					s.SignalChoice = w
				}
			}
		case "Die":
			th = "killer"
		default:
			return i, "infra", "unknown action " + stp.Act
		}
		if t := s.Threads[th]; t == nil || t.Done || t.Parked {
			return i, "shape not enabled " + stp.Act, fmt.Sprintf("step %d %s%v: the specification takes this step but thread %q cannot run in the real code (missing, finished or still parked)", i, stp.Act, stp.Args, th)
		}
		if err := s.Step(th); err != nil {
			return i, "shape stuck " + stp.Act, fmt.Sprintf("step %d %s%v: %v", i, stp.Act, stp.Args, err)
		}
		if e := prime(); e != "" {
			return i, "infra", e
		}
		if len(s.Errors) > 0 {
			return i, "scheduler " + stp.Act, fmt.Sprintf("step %d %s%v: %v", i, stp.Act, stp.Args, s.Errors)
		}
		// projection of the real state
		var contents []int
		for j := 0; j < r.l; j++ {
			e := r.elems[(r.head+j)%cap(r.elems)]
			if e == nil {
				contents = append(contents, -1)
			} else {
				contents = append(contents, id[*e])
			}
		}
		var parked, signalled []string
		if r.cond != nil {
			parked = r.cond.WaiterNames()
		}
		for n, t := range s.Threads {
			if t.Woken {
				signalled = append(signalled, n)
			}
		}
		worker := "none"
		if workers > 1 {
			return i, "two workers", fmt.Sprintf("step %d %s%v: %d worker goroutines are alive at once", i, stp.Act, stp.Args, workers)
		}
		if workers == 1 {
			if s.Threads[curWorker].At == "work" {
				worker = "work"
			} else {
				worker = "drop"
			}
		}
		w := stp.State
		// what a user observes first: which elements were accepted, refused and processed, in which order
		diff, key := "", "state "
		switch {
		case !sameInts(processed, w.Processed):
			diff = fmt.Sprintf("processed %v, spec %v", processed, w.Processed)
		case !sameInts(accepted, w.Accepted):
			diff = fmt.Sprintf("accepted %v, spec %v", accepted, w.Accepted)
		}
		if diff == "" {
			rj := append([]int(nil), rejected...)
			sort.Ints(rj)
			wr := append([]int(nil), w.Rejected...)
			sort.Ints(wr)
			if !sameInts(rj, wr) {
				diff = fmt.Sprintf("rejected %v, spec %v", rj, wr)
			}
		}
		if diff == "" {
			// the rest is the ring's internal shape (TestExplore decides whether a difference there matters)
			key = "shape state "
			switch {
			case r.l != w.L:
				diff = fmt.Sprintf("length %d, spec %d", r.l, w.L)
			case r.dead != w.Dead:
				diff = fmt.Sprintf("dead %v, spec %v", r.dead, w.Dead)
			case !sameInts(contents, w.Contents):
				diff = fmt.Sprintf("queue contents %v, spec %v", contents, w.Contents)
			case !sameSet(parked, w.Parked):
				diff = fmt.Sprintf("parked pushers %v, spec %v", parked, w.Parked)
			case !sameSet(signalled, w.Signalled):
				diff = fmt.Sprintf("woken pushers %v, spec %v", signalled, w.Signalled)
			case worker != w.Worker:
				diff = fmt.Sprintf("worker %s, spec %s", worker, w.Worker)
			}
		}
		if diff != "" {
			return i, key + stp.Act, fmt.Sprintf("after step %d %s%v the real ring differs from the specification: %s", i, stp.Act, stp.Args, diff)
		}
		prev = w
	}
	// let everything finish (a replay left half-way must not leak goroutines): wake the parked by killing the ring
	s.SignalChoice = ""
	if k := s.Threads["killer"]; k != nil && !k.Done {
		s.Step("killer")
	}
	s.Drain(200)
	return -1, "", ""
}

func TestReplay(t *testing.T) {
	var c cfg
	if err := jsonFile(os.Getenv("VERIF_CFG"), &c); err != nil {
		t.Fatal(err)
	}
	behs, err := raw.ReadNDJSON[beh](os.Getenv("VERIF_IN"))
	if err != nil || len(behs) == 0 {
		t.Fatalf("no behaviours: %v", err)
	}
	nviol, steps := 0, 0
	for bi, b := range behs {
		steps += len(b.Steps)
		if i, key, msg := replay(c, b); key != "" {
			nviol++
			if nviol <= 25 {
				raw.Emit(viol{"viol", key, msg, bi, i})
			}
		}
	}
	raw.Emit(map[string]any{"kind": "stat", "behaviours": len(behs), "steps": steps, "violations": nviol})
}

// TestExplore runs pushers, the worker they start and (in half of the runs) die() under pseudo-random schedules that are
// NOT steered by the specification, and checks Ring.tla's properties on what is observable, whatever the ring's
// internal shape: never two workers, elements are processed in the order they were accepted (Fifo), an element refused
// as dead is never processed, nobody stays parked forever, and at the end everything accepted has been processed.
func TestExplore(t *testing.T) {
	var c cfg
	if err := jsonFile(os.Getenv("VERIF_CFG"), &c); err != nil {
		t.Fatal(err)
	}
	n := raw.EnvInt("VERIF_N", 5000)
	rng := rand.New(rand.NewSource(int64(raw.EnvInt("VERIF_SEED", 1))))
	nviol, steps := 0, 0
	forcer := map[string]bool{}
	for _, f := range c.Forcers {
		forcer[f] = true
	}
	for run := 0; run < n; run++ {
		s := ctl.New()
		minRingCap = c.MinCap
		r := &ring[*el]{}
		if c.MaxLen > 0 {
			r.initMaxLen(c.MaxLen)
		}
		ids := map[*el]int{}
		var processed, accepted, rejected []int
		workers, nworkers := 0, 0
		var spawn func(e *el)
		spawn = func(e *el) {
			nworkers++
			workers++
			s.Go(fmt.Sprintf("w%d", nworkers), func() {
				elem, more := e, true
				for more {
					s.Yield("work")
					processed = append(processed, ids[elem])
					elem, more, _ = r.dropPeek()
				}
				workers--
			})
		}
		for _, p := range c.Pushers {
			s.Go(p, func() {
				for k := 0; k < c.PerPusher; k++ {
					e := &el{p, k}
					ids[e] = len(ids) + 1
					var first, dead bool
					if forcer[p] {
						first, dead = r.pushForce(e)
					} else {
						first, dead = r.push(e)
					}
					if dead {
						rejected = append(rejected, ids[e])
					} else {
						accepted = append(accepted, ids[e])
					}
					if first {
						spawn(e)
					}
				}
			})
		}
		kill := rng.Intn(2) == 0
		if kill {
			s.Go("killer", func() { r.die() })
		}
		var sched []string
		bad, what := "", ""
		for len(sched) < 2000 && bad == "" {
			var run []string
			alive := s.Alive()
			for _, a := range alive {
				if !s.Threads[a].Parked {
					run = append(run, a)
				}
			}
			if len(alive) == 0 {
				break
			}
			if len(run) == 0 {
				bad, what = "waits forever", fmt.Sprintf("pushers %v are parked on the ring and nothing is left to wake them (accepted %v, processed %v)", alive, accepted, processed)
				break
			}
			th := run[rng.Intn(len(run))]
			if th == "killer" && rng.Intn(4) != 0 { // die() late more often than early
				continue
			}
			sched = append(sched, th)
			if err := s.Step(th); err != nil {
				bad, what = "infra", err.Error()
				break
			}
			if len(s.Errors) > 0 {
				bad, what = "infra", fmt.Sprint(s.Errors)
				break
			}
			switch {
			case workers > 1:
				bad, what = "two workers", fmt.Sprintf("%d worker goroutines are alive at once", workers)
			case len(processed) > len(accepted) || !sameInts(processed, accepted[:len(processed)]):
				bad, what = "order", fmt.Sprintf("elements were processed in the order %v, they were accepted in the order %v", processed, accepted)
			}
		}
		steps += len(sched)
		if bad == "" && len(s.Alive()) != 0 {
			bad, what = "waits forever", fmt.Sprintf("threads %v have not finished after %d steps", s.Alive(), len(sched))
		}
		if bad == "" && !sameInts(processed, accepted) {
			bad, what = "lost element", fmt.Sprintf("every thread has finished; accepted %v but processed %v", accepted, processed)
		}
		if bad != "" {
			if k := s.Threads["killer"]; k != nil && !k.Done {
				s.Step("killer")
			} else if !kill {
				s.Go("killer", func() { r.die() })
				s.Step("killer")
			}
			s.Drain(200)
			nviol++
			if nviol <= 5 {
				raw.Emit(map[string]any{"kind": "viol", "key": bad, "what": fmt.Sprintf("%s; die() part of the run: %v; schedule (thread taking each step) %v", what, kill, sched), "schedule": sched, "case": -1, "step": len(sched)})
			}
		}
	}
	raw.Emit(map[string]any{"kind": "stat", "schedules": n, "steps": steps, "violations": nviol})
}
