package ringx

import (
	"encoding/json"
	"os"
)

func jsonFile(path string, v any) error {
	b, err := os.ReadFile(path)
	if err != nil {
		return err
	}
	return json.Unmarshal(b, v)
}
