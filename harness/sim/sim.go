// Package sim holds what the trace-validated drivers (binding V) share: an event recorder whose order is the
// order of a single lock (never wall-clock), and a frame-aware fault-injecting listener for kfake.
package sim

import (
	"encoding/binary"
	"encoding/json"
	"io"
	"net"
	"os"
	"sync"
	"time"
)

// ---------------------------------------------------------------- recorder

type Recorder struct {
	mu  sync.Mutex
	f   *os.File
	enc *json.Encoder
	seq int64
	N   int64
}

func NewRecorder(path string) (*Recorder, error) {
	f, err := os.OpenFile(path, os.O_CREATE|os.O_WRONLY|os.O_APPEND, 0o644)
	if err != nil {
		return nil, err
	}
	return &Recorder{f: f, enc: json.NewEncoder(f)}, nil
}

// Ev appends one event. kv are alternating keys and values.
func (r *Recorder) Ev(ev string, kv ...any) {
	m := map[string]any{"ev": ev}
	for i := 0; i+1 < len(kv); i += 2 {
		m[kv[i].(string)] = kv[i+1]
	}
	r.mu.Lock()
	r.seq++
	r.N++
	m["seq"] = r.seq
	r.enc.Encode(m) // written through to the file: a crashed driver leaves the prefix behind
	r.mu.Unlock()
}

func (r *Recorder) ResetSeq() { r.mu.Lock(); r.seq = 0; r.mu.Unlock() }
func (r *Recorder) Close()    { r.f.Close() }

// ---------------------------------------------------------------- chaos listener

// Chaos decides, per request key and cluster-wide ordinal, what happens to a request's response:
// "drop" lets kfake handle the request and then closes the connection instead of delivering the response
// ("persisted but unacknowledged").
type Chaos struct {
	mu      sync.Mutex
	count   map[int16]int
	dropAt  map[int16]map[int]bool // key -> ordinals (1-based) whose response is dropped
	dropNxt map[int16]int          // key -> number of upcoming requests whose response is dropped
	OnReq   func(key int16, ordinal int)
	Dropped int
	stall   map[int16][]time.Duration // key -> delays applied to the responses of the next requests
	// Latency is added to every response. A zero-latency network lets a client loop that re-issues a request as soon as
	// it is answered run forever at one instant of virtual time (nothing ever blocks durably, so timers never fire).
	Latency time.Duration
	// OnFrame, if set, sees every request frame (without the 4-byte size prefix) as the client wrote it.
	OnFrame func(key, version int16, frame []byte)
	// OnFrame2 / OnResp, if set, see every request frame and every delivered response frame (both without the size prefix) together
	// with the connection and correlation id that tie them to each other. OnResp runs before the response reaches the client.
	OnFrame2 func(conn int, corr int32, key, version int16, frame []byte)
	OnResp   func(conn int, corr int32, frame []byte)
	conns    int
}

func NewChaos() *Chaos {
	return &Chaos{count: map[int16]int{}, dropAt: map[int16]map[int]bool{}, dropNxt: map[int16]int{}}
}

func (c *Chaos) DropResponse(key int16, ordinal int) {
	c.mu.Lock()
	defer c.mu.Unlock()
	if c.dropAt[key] == nil {
		c.dropAt[key] = map[int]bool{}
	}
	c.dropAt[key][ordinal] = true
}

// DropNext arms the response of the next n requests with this key.
func (c *Chaos) DropNext(key int16, n int) {
	c.mu.Lock()
	c.dropNxt[key] += n
	c.mu.Unlock()
}

// Disarm forgets response drops and stalls that were armed but not yet used.
func (c *Chaos) Disarm() {
	c.mu.Lock()
	c.dropNxt = map[int16]int{}
	c.stall = nil
	c.mu.Unlock()
}

func (c *Chaos) Count(key int16) int {
	c.mu.Lock()
	defer c.mu.Unlock()
	return c.count[key]
}

// StallNext delays the response of the next n requests with this key by d (the broker has handled the request;
// its answer sits on the wire). kfake's SleepControl is avoided on purpose: its hand-over of a sync.Mutex between
// goroutines is not durably blocking inside a synctest bubble.
func (c *Chaos) StallNext(key int16, n int, d time.Duration) {
	c.mu.Lock()
	if c.stall == nil {
		c.stall = map[int16][]time.Duration{}
	}
	for i := 0; i < n; i++ {
		c.stall[key] = append(c.stall[key], d)
	}
	c.mu.Unlock()
}

func (c *Chaos) takeStall(key int16) time.Duration {
	c.mu.Lock()
	defer c.mu.Unlock()
	if q := c.stall[key]; len(q) > 0 {
		c.stall[key] = q[1:]
		return q[0]
	}
	return 0
}

func (c *Chaos) request(key int16) (drop bool) {
	c.mu.Lock()
	c.count[key]++
	n := c.count[key]
	if c.dropAt[key][n] {
		drop = true
	} else if c.dropNxt[key] > 0 {
		c.dropNxt[key]--
		drop = true
	}
	if drop {
		c.Dropped++
	}
	f := c.OnReq
	c.mu.Unlock()
	if f != nil {
		f(key, n)
	}
	return drop
}

// Listen wraps a listen function (e.g. VirtualNetwork.Listen) for kfake.ListenFn.
func (c *Chaos) Listen(inner func(network, address string) (net.Listener, error)) func(network, address string) (net.Listener, error) {
	return func(network, address string) (net.Listener, error) {
		l, err := inner(network, address)
		if err != nil {
			return nil, err
		}
		return &chaosListener{l, c}, nil
	}
}

type chaosListener struct {
	net.Listener
	c *Chaos
}

func (l *chaosListener) Accept() (net.Conn, error) {
	conn, err := l.Listener.Accept()
	if err != nil {
		return nil, err
	}
	l.c.mu.Lock()
	l.c.conns++
	id := l.c.conns
	l.c.mu.Unlock()
	return &chaosConn{Conn: conn, c: l.c, id: id, drop: map[int32]bool{}, delay: map[int32]time.Duration{}}, nil
}

// chaosConn is the broker side of a connection: Read delivers client requests to kfake, Write carries kfake's responses.
type chaosConn struct {
	net.Conn
	c     *Chaos
	id    int
	mu    sync.Mutex
	rbuf  []byte         // request bytes seen so far, not yet parsed
	drop  map[int32]bool // correlation ids whose response must not be delivered
	delay map[int32]time.Duration
	wbuf  []byte
	dead  bool
}

func (cc *chaosConn) Read(p []byte) (int, error) {
	n, err := cc.Conn.Read(p)
	if n > 0 {
		cc.mu.Lock()
		cc.rbuf = append(cc.rbuf, p[:n]...)
		for len(cc.rbuf) >= 4 {
			size := int(binary.BigEndian.Uint32(cc.rbuf))
			if len(cc.rbuf) < 4+size || size < 8 {
				break
			}
			frame := cc.rbuf[4 : 4+size]
			key := int16(binary.BigEndian.Uint16(frame[0:2]))
			corr := int32(binary.BigEndian.Uint32(frame[4:8]))
			if f := cc.c.OnFrame; f != nil {
				f(key, int16(binary.BigEndian.Uint16(frame[2:4])), append([]byte{}, frame...))
			}
			if f := cc.c.OnFrame2; f != nil {
				f(cc.id, corr, key, int16(binary.BigEndian.Uint16(frame[2:4])), append([]byte{}, frame...))
			}
			cc.mu.Unlock()
			d := cc.c.request(key)
			cc.mu.Lock()
			if d {
				cc.drop[corr] = true
			}
			if st := cc.c.takeStall(key); st > 0 { // with a drop armed too: the answer is held back, then lost
				cc.delay[corr] = st
			}
			cc.rbuf = cc.rbuf[4+size:]
		}
		cc.mu.Unlock()
	}
	return n, err
}

func (cc *chaosConn) Write(p []byte) (int, error) {
	cc.mu.Lock()
	if cc.dead {
		cc.mu.Unlock()
		return 0, io.ErrClosedPipe
	}
	cc.wbuf = append(cc.wbuf, p...)
	var out []byte
	for len(cc.wbuf) >= 8 {
		size := int(binary.BigEndian.Uint32(cc.wbuf))
		if len(cc.wbuf) < 4+size {
			break
		}
		corr := int32(binary.BigEndian.Uint32(cc.wbuf[4:8]))
		if d := cc.delay[corr]; d > 0 && cc.drop[corr] {
			delete(cc.delay, corr)
			cc.mu.Unlock()
			time.Sleep(d)
			cc.mu.Lock()
		}
		if cc.drop[corr] {
			// the request was handled; its acknowledgement is lost and the connection dies
			cc.dead = true
			cc.mu.Unlock()
			if len(out) > 0 {
				cc.Conn.Write(out)
			}
			cc.Conn.Close()
			return len(p), nil
		}
		if d := cc.delay[corr]; d > 0 {
			delete(cc.delay, corr)
			cc.mu.Unlock()
			time.Sleep(d)
			cc.mu.Lock()
		}
		if f := cc.c.OnResp; f != nil {
			f(cc.id, corr, append([]byte{}, cc.wbuf[4:4+size]...))
		}
		out = append(out, cc.wbuf[:4+size]...)
		cc.wbuf = cc.wbuf[4+size:]
	}
	cc.mu.Unlock()
	if len(out) > 0 {
		if cc.c.Latency > 0 {
			time.Sleep(cc.c.Latency)
		}
		if _, err := cc.Conn.Write(out); err != nil {
			return 0, err
		}
	}
	return len(p), nil
}
