// Package c20: every layout enumerated by TLC from spec/Formatter.tla is compiled into a kgo.RecordFormatter and a
// kgo.RecordReader; streams of records with adversarial field values are written and read back.
package c20

import (
	"bytes"
	"fmt"
	"io"
	"os"
	"testing"
	"time"

	"github.com/twmb/franz-go/pkg/kgo"
	"verif/harness/raw"
)

type Field struct {
	Verb string `json:"verb"`
	Fmt  string `json:"fmt"`
	Enc  string `json:"enc"`
}
type Case struct {
	Layout string  `json:"layout"`
	Fields []Field `json:"fields"`
}

var texts = [][]byte{{}, []byte("a"), []byte("plain text"), []byte("50%{}\\n"), []byte("12345"), {0, 1, 2, 255, 254}, []byte("line\nbreak\ttab"), {0xc3, 0x28, 0xff}, bytes.Repeat([]byte("z"), 300)}

// width in bits of a number format; 0 = ascii (unbounded, non-negative)
func width(f string) int {
	switch f {
	case "ascii":
		return 0
	case "byte", "hex8":
		return 8
	case "hex4":
		return 4
	case "hex16", "big16", "little16":
		return 16
	case "hex32", "big32", "little32":
		return 32
	default:
		return 64
	}
}

// numeric values of a field that fit its format; k picks one
func numFor(verb, f string, k int) int64 {
	w := width(f)
	limit := int64(1) << 62
	typeBits := map[string]int{"p": 31, "e": 31, "y": 15, "o": 62, "d": 43, "x": 62}[verb] // the Go field's positive range; timestamps up to ~year 2248
	if typeBits < 62 {
		limit = int64(1)<<typeBits - 1
	}
	if w != 0 && w < 63 && int64(1)<<w-1 < limit {
		limit = int64(1)<<w - 1
	}
	vals := []int64{0, 1, 7, limit / 3, limit}
	if w == 64 {
		vals = append(vals, -1) // two's complement formats carry negative numbers; -1 is Kafka's "none" for most of these fields
		if verb == "d" {
			vals = append(vals, -86400001) // a timestamp before 1970
		}
	}
	return vals[k%len(vals)]
}

func fitsSize(f string, n int) bool {
	w := width(f)
	return w == 0 || w >= 31 || n < 1<<w
}

func encLen(enc string, n int) int {
	switch enc {
	case "hex":
		return 2 * n
	case "base64":
		return (n + 2) / 3 * 4
	}
	return n
}

func TestOracle(t *testing.T) {
	cases, err := raw.ReadNDJSON[Case](os.Getenv("VERIF_IN"))
	if err != nil {
		t.Fatal(err)
	}
	stride := raw.EnvInt("VERIF_STRIDE", 1)
	seed := raw.EnvInt("VERIF_SEED", 1)
	evals, streams, nontrivial := 0, 0, 0
	for ci, c := range cases {
		if (ci+seed)%stride != 0 {
			continue
		}
		// a sized text field in hex / base64: the formatter writes the raw length as its size, the reader takes the size as
		// the number of encoded bytes, so everything from that field on is off. Failures of such layouts carry their own key.
		encoded := ""
		for _, fd := range c.Fields {
			if fd.Enc == "hex" || fd.Enc == "base64" {
				encoded = fd.Enc
				break
			}
		}
		viol := func(key, what string) {
			if encoded != "" {
				key = "encoded sized text " + encoded
			}
			raw.Emit(map[string]any{"kind": "viol", "key": key, "what": fmt.Sprintf("layout %q: %s", c.Layout, what), "case": ci})
		}
		f, err := kgo.NewRecordFormatter(c.Layout)
		if err != nil {
			viol("formatter rejects layout", err.Error())
			continue
		}
		for nrec := 0; nrec <= 3; nrec++ {
			for variant := 0; variant < 3; variant++ {
				var recs []*kgo.Record
				var buf []byte
				ok := true
				for i := 0; i < nrec; i++ {
					k := ci + 3*i + 7*variant
					r := &kgo.Record{Topic: "", Partition: 0, LeaderEpoch: 0, ProducerID: 0, ProducerEpoch: 0, Timestamp: time.UnixMilli(0)}
					for fi, fd := range c.Fields {
						kk := k + fi*5
						switch fd.Verb {
						case "t":
							v := texts[kk%len(texts)]
							if !fitsSize(fd.Fmt, encLen(fd.Enc, len(v))) {
								v = texts[kk%2]
							}
							r.Topic = string(v)
						case "k":
							v := texts[(kk+1)%len(texts)]
							if !fitsSize(fd.Fmt, encLen(fd.Enc, len(v))) {
								v = texts[kk%2]
							}
							r.Key = v
						case "v":
							v := texts[(kk+2)%len(texts)]
							if !fitsSize(fd.Fmt, encLen(fd.Enc, len(v))) {
								v = texts[kk%2]
							}
							r.Value = v
						case "p":
							r.Partition = int32(numFor("p", fd.Fmt, kk))
						case "o":
							r.Offset = numFor("o", fd.Fmt, kk)
						case "e":
							r.LeaderEpoch = int32(numFor("e", fd.Fmt, kk))
						case "d":
							r.Timestamp = time.UnixMilli(numFor("d", fd.Fmt, kk))
						case "x":
							r.ProducerID = numFor("x", fd.Fmt, kk)
						case "y":
							r.ProducerEpoch = int16(numFor("y", fd.Fmt, kk))
						case "h":
							nh := kk % 4
							for h := 0; h < nh; h++ {
								hk, hv := texts[(kk+h)%5], texts[(kk+h+2)%len(texts)]
								if !fitsSize(fd.Fmt, len(hv)) {
									hv = texts[1]
								}
								r.Headers = append(r.Headers, kgo.RecordHeader{Key: string(hk), Value: hv})
							}
						}
					}
					recs = append(recs, r)
					buf = f.AppendRecord(buf, r)
				}
				if !ok {
					continue
				}
				streams++
				rd, err := kgo.NewRecordReader(bytes.NewReader(buf), c.Layout)
				if err != nil {
					viol("reader rejects layout", err.Error())
					break
				}
				bad := false
				for i, want := range recs {
					evals++
					got, err := rd.ReadRecord()
					if err != nil {
						viol("read error "+c.Fields[0].Verb, fmt.Sprintf("record %d of %d: %v (stream %q)", i+1, nrec, err, clip(buf)))
						bad = true
						break
					}
					for _, fd := range c.Fields {
						diff := ""
						switch fd.Verb {
						case "t":
							if got.Topic != want.Topic {
								diff = fmt.Sprintf("topic %q, wrote %q", got.Topic, want.Topic)
							}
						case "k":
							if !bytes.Equal(got.Key, want.Key) {
								diff = fmt.Sprintf("key %q, wrote %q", got.Key, want.Key)
							}
						case "v":
							if !bytes.Equal(got.Value, want.Value) {
								diff = fmt.Sprintf("value %q, wrote %q", clip(got.Value), clip(want.Value))
							}
						case "p":
							if got.Partition != want.Partition {
								diff = fmt.Sprintf("partition %d, wrote %d", got.Partition, want.Partition)
							}
						case "o":
							if got.Offset != want.Offset {
								diff = fmt.Sprintf("offset %d, wrote %d", got.Offset, want.Offset)
							}
						case "e":
							if got.LeaderEpoch != want.LeaderEpoch {
								diff = fmt.Sprintf("leader epoch %d, wrote %d", got.LeaderEpoch, want.LeaderEpoch)
							}
						case "d":
							if !got.Timestamp.Equal(want.Timestamp) {
								diff = fmt.Sprintf("timestamp %v (%d ms), wrote %v (%d ms)", got.Timestamp.UTC(), got.Timestamp.UnixMilli(), want.Timestamp.UTC(), want.Timestamp.UnixMilli())
							}
						case "x":
							if got.ProducerID != want.ProducerID {
								diff = fmt.Sprintf("producer id %d, wrote %d", got.ProducerID, want.ProducerID)
							}
						case "y":
							if got.ProducerEpoch != want.ProducerEpoch {
								diff = fmt.Sprintf("producer epoch %d, wrote %d", got.ProducerEpoch, want.ProducerEpoch)
							}
						case "h":
							if len(got.Headers) != len(want.Headers) {
								diff = fmt.Sprintf("%d headers, wrote %d", len(got.Headers), len(want.Headers))
							} else {
								for h := range want.Headers {
									if got.Headers[h].Key != want.Headers[h].Key || !bytes.Equal(got.Headers[h].Value, want.Headers[h].Value) {
										diff = fmt.Sprintf("header %d is %q=%q, wrote %q=%q", h, got.Headers[h].Key, clip(got.Headers[h].Value), want.Headers[h].Key, clip(want.Headers[h].Value))
									}
								}
							}
						}
						if diff != "" {
							viol("field "+fd.Verb+" "+fd.Fmt, fmt.Sprintf("record %d of %d reads back with %s", i+1, nrec, diff))
							bad = true
							break
						}
					}
					if bad {
						break
					}
				}
				if bad {
					break
				}
				if _, err := rd.ReadRecord(); err != io.EOF {
					viol("eof", fmt.Sprintf("after the %d records of the stream ReadRecord returned %v, not io.EOF", nrec, err))
					break
				}
				if len(c.Fields) > 1 || c.Fields[0].Enc != "plain" {
					nontrivial++
				}
				// a stream cut inside its last record must not end in a clean EOF
				lastF := c.Fields[len(c.Fields)-1]
				asciiTail := lastF.Fmt == "ascii" && lastF.Verb != "t" && lastF.Verb != "k" && lastF.Verb != "v" // digits run to the end of the stream: a cut is a shorter number
				if nrec > 0 && variant == 0 && !asciiTail {
					last := f.AppendRecord(nil, recs[nrec-1])
					for _, cut := range []int{1, len(last) / 2, len(last) - 1} {
						if cut <= 0 || cut >= len(last) {
							continue
						}
						tr, _ := kgo.NewRecordReader(bytes.NewReader(buf[:len(buf)-len(last)+cut]), c.Layout)
						var err error
						for i := 0; i < nrec && err == nil; i++ {
							_, err = tr.ReadRecord()
						}
						evals++
						if err == nil || err == io.EOF {
							viol("truncated", fmt.Sprintf("stream cut %d bytes into its last record (%d bytes): reading it returned %v", cut, len(last), err))
							break
						}
					}
				}
			}
		}
	}
	raw.Emit(map[string]any{"kind": "stat", "evaluations": evals, "streams": streams, "nontrivial": nontrivial})
}

func clip(b []byte) []byte {
	if len(b) > 60 {
		return append(append([]byte{}, b[:60]...), "..."...)
	}
	return b
}
