package c34

// Oracle evaluation (binding O1) for C34: spec/ACL.tla enumerates ACL sets and Kafka's decisions;
// this runner loads each set into kfake's ACL store and compares every decision, and replays a
// sample end-to-end (SASL users, CreateACLs, Metadata authorized-operations, InitProducerID).

import (
	"context"
	"fmt"
	"os"
	"sort"
	"strings"
	"testing"
	"time"

	"github.com/twmb/franz-go/pkg/kerr"
	"github.com/twmb/franz-go/pkg/kfake"
	"github.com/twmb/franz-go/pkg/kgo"
	"github.com/twmb/franz-go/pkg/kmsg"
	"github.com/twmb/franz-go/pkg/sasl/plain"
	"verif/harness/raw"
)

type aclT struct {
	Principal string `json:"principal"`
	Host      string `json:"host"`
	Pat       struct {
		Pt   string `json:"pt"`
		Name string `json:"name"`
	} `json:"pat"`
	Op   string `json:"op"`
	Perm string `json:"perm"`
}

type caseT struct {
	ACLs    []aclT     `json:"acls"`
	Allowed [][]string `json:"allowed"`
	Any     [][]string `json:"any"`
}

var opMap = map[string]kmsg.ACLOperation{
	"READ": kmsg.ACLOperationRead, "WRITE": kmsg.ACLOperationWrite, "DELETE": kmsg.ACLOperationDelete,
	"DESCRIBE": kmsg.ACLOperationDescribe, "ALTER_CONFIGS": kmsg.ACLOperationAlterConfigs,
	"DESCRIBE_CONFIGS": kmsg.ACLOperationDescribeConfigs, "ALL": kmsg.ACLOperationAll, "ALTER": kmsg.ACLOperationAlter,
}

var (
	principals = []string{"User:alice", "User:bob"}
	hosts      = []string{"h1", "h2"}
	names      = []string{"a", "ab", "b", "abc", "c"}
	ops        = []string{"READ", "WRITE", "DELETE", "DESCRIBE", "ALTER_CONFIGS", "DESCRIBE_CONFIGS"}
	anyOps     = []string{"READ", "WRITE", "ALTER_CONFIGS"}
)

func pat(s string) kmsg.ACLResourcePatternType {
	if s == "PREFIXED" {
		return kmsg.ACLResourcePatternTypePrefixed
	}
	return kmsg.ACLResourcePatternTypeLiteral
}

func perm(s string) kmsg.ACLPermissionType {
	if s == "DENY" {
		return kmsg.ACLPermissionTypeDeny
	}
	return kmsg.ACLPermissionTypeAllow
}

func aclKey(c caseT) string {
	var parts []string
	for _, a := range c.ACLs {
		parts = append(parts, fmt.Sprintf("%s %s/%s %s:%s %s", a.Perm, a.Principal, a.Host, a.Pat.Pt, a.Pat.Name, a.Op))
	}
	sort.Strings(parts)
	return strings.Join(parts, " ; ")
}

type viol struct {
	Kind  string `json:"kind"`
	Key   string `json:"key"`
	What  string `json:"what"`
	Case  int    `json:"case"`
	Query string `json:"query"`
}

func TestOracle(t *testing.T) {
	cases, err := raw.ReadNDJSON[caseT](os.Getenv("VERIF_IN"))
	if err != nil || len(cases) == 0 {
		t.Fatalf("no cases: %v", err)
	}
	nviol, decisions, nontrivial := 0, 0, 0
	for ci, c := range cases {
		var v kfake.VerifACLs
		for _, a := range c.ACLs {
			v.Add(a.Principal, a.Host, kmsg.ACLResourceTypeTopic, a.Pat.Name, pat(a.Pat.Pt), opMap[a.Op], perm(a.Perm))
		}
		want := map[string]bool{}
		for _, q := range c.Allowed {
			want[strings.Join(q, "|")] = true
		}
		wantAny := map[string]bool{}
		for _, q := range c.Any {
			wantAny[strings.Join(q, "|")] = true
		}
		if len(c.Allowed) > 0 && len(c.Allowed) < len(principals)*len(hosts)*len(names)*len(ops) {
			nontrivial++
		}
		for _, pr := range principals {
			for _, h := range hosts {
				for _, n := range names {
					for _, op := range ops {
						decisions++
						got := v.Allowed(pr, h, n, kmsg.ACLResourceTypeTopic, opMap[op])
						k := pr + "|" + h + "|" + n + "|" + op
						if got != want[k] {
							nviol++
							if nviol <= 60 {
								raw.Emit(viol{"viol", "allowed", fmt.Sprintf("ACLs {%s}: allowed(%s)=%v, Kafka's authorizer says %v", aclKey(c), k, got, want[k]), ci, k})
							}
						}
						// a different resource type never matches topic ACLs
						if v.Allowed(pr, h, n, kmsg.ACLResourceTypeGroup, opMap[op]) {
							nviol++
							raw.Emit(viol{"viol", "restype", fmt.Sprintf("ACLs {%s}: group resource %s allowed by topic ACLs", aclKey(c), k), ci, k})
						}
					}
				}
				for _, op := range anyOps {
					decisions++
					got := v.AnyAllowed(pr, h, kmsg.ACLResourceTypeTopic, opMap[op])
					k := pr + "|" + h + "|" + op
					if got != wantAny[k] {
						nviol++
						if nviol <= 60 {
							raw.Emit(viol{"viol", "anyAllowed", fmt.Sprintf("ACLs {%s}: anyAllowed(%s)=%v, Kafka's authorizeByResourceType says %v", aclKey(c), k, got, wantAny[k]), ci, k})
						}
					}
				}
			}
		}
	}
	raw.Emit(map[string]any{"kind": "stat", "cases": len(cases), "decisions": decisions, "nontrivial": nontrivial, "violations": nviol})
}

// End-to-end: the same cases through SASL users and real requests. The client host is 127.0.0.1,
// which stands for "h1"; "h2" queries cannot be made. Superuser admin must always be allowed.
func TestEndToEnd(t *testing.T) {
	cases, err := raw.ReadNDJSON[caseT](os.Getenv("VERIF_IN"))
	if err != nil || len(cases) == 0 {
		t.Fatalf("no cases: %v", err)
	}
	max := raw.EnvInt("VERIF_E2E", 150)
	step := len(cases)/max + 1
	c, err := kfake.NewCluster(kfake.NumBrokers(1), kfake.EnableSASL(), kfake.EnableACLs(),
		kfake.Superuser("PLAIN", "admin", "admin"), kfake.User("PLAIN", "alice", "pw"), kfake.User("PLAIN", "bob", "pw"),
		kfake.SeedTopics(1, names...))
	if err != nil {
		t.Fatal(err)
	}
	defer c.Close()
	mk := func(u, p string) *kgo.Client {
		cl, err := kgo.NewClient(kgo.SeedBrokers(c.ListenAddrs()...), kgo.SASL(plain.Auth{User: u, Pass: p}.AsMechanism()), kgo.RequestRetries(0))
		if err != nil {
			t.Fatal(err)
		}
		t.Cleanup(cl.Close)
		return cl
	}
	admin := mk("admin", "admin")
	users := map[string]*kgo.Client{"User:alice": mk("alice", "pw"), "User:bob": mk("bob", "pw")}
	ctx, cancel := context.WithTimeout(context.Background(), 120*time.Second)
	defer cancel()
	nviol, n, decisions := 0, 0, 0
	for ci := 0; ci < len(cases); ci += step {
		cs := cases[ci]
		n++
		// wipe and load
		del := kmsg.NewPtrDeleteACLsRequest()
		f := kmsg.NewDeleteACLsRequestFilter()
		f.ResourceType = kmsg.ACLResourceTypeAny
		f.ResourcePatternType = kmsg.ACLResourcePatternTypeAny
		f.Operation = kmsg.ACLOperationAny
		f.PermissionType = kmsg.ACLPermissionTypeAny
		del.Filters = append(del.Filters, f)
		if _, err := del.RequestWith(ctx, admin); err != nil {
			t.Fatalf("delete acls: %v", err)
		}
		cr := kmsg.NewPtrCreateACLsRequest()
		for _, a := range cs.ACLs {
			e := kmsg.NewCreateACLsRequestCreation()
			e.ResourceType = kmsg.ACLResourceTypeTopic
			e.ResourceName = a.Pat.Name
			e.ResourcePatternType = pat(a.Pat.Pt)
			e.Principal = a.Principal
			e.Host = a.Host
			if a.Host == "h1" {
				e.Host = "127.0.0.1"
			}
			e.Operation = opMap[a.Op]
			e.PermissionType = perm(a.Perm)
			cr.Creations = append(cr.Creations, e)
		}
		cresp, err := cr.RequestWith(ctx, admin)
		if err != nil {
			t.Fatalf("create acls: %v", err)
		}
		for _, r := range cresp.Results {
			if r.ErrorCode != 0 {
				t.Fatalf("create acl: %v", kerr.ErrorForCode(r.ErrorCode))
			}
		}
		want := map[string]bool{}
		for _, q := range cs.Allowed {
			want[strings.Join(q, "|")] = true
		}
		wantAny := map[string]bool{}
		for _, q := range cs.Any {
			wantAny[strings.Join(q, "|")] = true
		}
		for pr, cl := range users {
			md := kmsg.NewPtrMetadataRequest()
			md.IncludeTopicAuthorizedOperations = true
			for _, nm := range names {
				rt := kmsg.NewMetadataRequestTopic()
				rt.Topic = kmsg.StringPtr(nm)
				md.Topics = append(md.Topics, rt)
			}
			resp, err := md.RequestWith(ctx, cl)
			if err != nil {
				t.Fatalf("metadata: %v", err)
			}
			for _, tp := range resp.Topics {
				nm := *tp.Topic
				canDescribe := want[pr+"|h1|"+nm+"|DESCRIBE"]
				decisions++
				if (tp.ErrorCode == 0) != canDescribe {
					nviol++
					raw.Emit(viol{"viol", "e2e-describe", fmt.Sprintf("ACLs {%s}: %s Metadata(%s) err=%d but Describe allowed=%v", aclKey(cs), pr, nm, tp.ErrorCode, canDescribe), ci, nm})
					continue
				}
				if tp.ErrorCode != 0 {
					continue
				}
				for _, op := range ops {
					decisions++
					got := tp.AuthorizedOperations&(1<<uint(opMap[op])) != 0
					if got != want[pr+"|h1|"+nm+"|"+op] {
						nviol++
						raw.Emit(viol{"viol", "e2e-authorized-ops", fmt.Sprintf("ACLs {%s}: %s topic %s op %s authorized=%v want %v", aclKey(cs), pr, nm, op, got, !got), ci, nm})
					}
				}
			}
			// InitProducerID without a transactional id needs IdempotentWrite on the cluster (never granted here) or Write on ANY topic
			ip := kmsg.NewPtrInitProducerIDRequest()
			ip.ProducerID, ip.ProducerEpoch = -1, -1
			iresp, err := ip.RequestWith(ctx, cl)
			if err != nil {
				t.Fatalf("init pid: %v", err)
			}
			decisions++
			if got, w := iresp.ErrorCode == 0, wantAny[pr+"|h1|WRITE"]; got != w {
				nviol++
				raw.Emit(viol{"viol", "e2e-anyAllowed", fmt.Sprintf("ACLs {%s}: %s InitProducerID allowed=%v, authorizeByResourceType(Write, Topic) says %v", aclKey(cs), pr, got, w), ci, "initpid"})
			}
		}
		// superuser is always allowed
		md := kmsg.NewPtrMetadataRequest()
		md.IncludeTopicAuthorizedOperations = true
		resp, err := md.RequestWith(ctx, admin)
		if err != nil {
			t.Fatalf("metadata admin: %v", err)
		}
		for _, tp := range resp.Topics {
			for _, op := range ops {
				decisions++
				if tp.ErrorCode != 0 || tp.AuthorizedOperations&(1<<uint(opMap[op])) == 0 {
					nviol++
					raw.Emit(viol{"viol", "e2e-superuser", fmt.Sprintf("ACLs {%s}: superuser denied %s on %s", aclKey(cs), op, *tp.Topic), ci, *tp.Topic})
				}
			}
		}
	}
	raw.Emit(map[string]any{"kind": "stat", "e2e_cases": n, "decisions": decisions, "violations": nviol})
}
