package dshard

// D-SHARD: C23 — every item of a request the client splits across brokers is accounted for exactly once, in the
// shards of RequestSharded and in the merged response of Request, for any cluster layout and with retriable failures
// (lost responses, leaders/coordinators that moved since the client last looked) during the request. Validated by TLC
// against spec/ShardTrace.tla.

import (
	"context"
	"encoding/json"
	"fmt"
	"github.com/twmb/franz-go/pkg/kerr"
	"math/rand"
	"net"
	"os"
	"sort"
	"strconv"
	"testing"
	"testing/synctest"
	"time"

	"github.com/twmb/franz-go/pkg/kfake"
	"github.com/twmb/franz-go/pkg/kgo"
	"github.com/twmb/franz-go/pkg/kmsg"
	"verif/harness/raw"
	"verif/harness/sim"
)

type Scenario struct {
	Seed    int64    `json:"seed"`
	Brokers int      `json:"brokers"`
	Kind    string   `json:"kind"`
	Items   []string `json:"items"`
	Fault   string   `json:"fault"` // none | drop1 | drop2 | shuffle | shuffle+drop
	// Leaderless: metadata reports tb/3 without a leader (LEADER_NOT_AVAILABLE); with an unknown topic in the same request there are
	// unattempted items of two different error classes
	Leaderless bool `json:"leaderless,omitempty"`
}

var kinds = []string{"ListOffsets", "OffsetForLeaderEpoch", "DeleteRecords", "DescribeProducers", "DescribeGroups", "DeleteGroups", "OffsetFetch", "FindCoordinator", "DescribeTransactions", "ListGroups", "ListTransactions"}

func partitionKind(k string) bool {
	return k == "ListOffsets" || k == "OffsetForLeaderEpoch" || k == "DeleteRecords" || k == "DescribeProducers"
}

func gen(seed int64) Scenario {
	r := rand.New(rand.NewSource(seed))
	sc := Scenario{Seed: seed, Brokers: 1 + r.Intn(5), Kind: kinds[r.Intn(len(kinds))], Fault: []string{"none", "drop1", "drop1", "drop2", "shuffle", "shuffle", "shuffle+drop"}[r.Intn(7)]}
	switch {
	case partitionKind(sc.Kind):
		for _, t := range []string{"ta", "tb"} {
			for p := 0; p < 4; p++ {
				if r.Intn(3) != 0 {
					sc.Items = append(sc.Items, fmt.Sprintf("%s/%d", t, p))
				}
			}
		}
		if r.Intn(4) == 0 {
			sc.Items = append(sc.Items, "nope/0")
		}
		if r.Intn(6) == 0 {
			sc.Items = append(sc.Items, "ta/9") // a partition that does not exist
		}
		if r.Intn(4) == 0 {
			sc.Leaderless = true
			have := map[string]bool{}
			for _, it := range sc.Items {
				have[it] = true
			}
			for _, it := range []string{"tb/3", "nope/0"} {
				if !have[it] {
					sc.Items = append(sc.Items, it)
				}
			}
		}
	case sc.Kind == "ListGroups" || sc.Kind == "ListTransactions":
	default:
		for i := 0; i < 6; i++ {
			if r.Intn(3) != 0 {
				sc.Items = append(sc.Items, fmt.Sprintf("id%d", i))
			}
		}
	}
	if len(sc.Items) == 0 && !(sc.Kind == "ListGroups" || sc.Kind == "ListTransactions") {
		sc.Items = []string{"ta/0", "id0"}[func() int {
			if partitionKind(sc.Kind) {
				return 0
			}
			return 1
		}():func() int {
			if partitionKind(sc.Kind) {
				return 1
			}
			return 2
		}()]
	}
	return sc
}

func splitTP(it string) (string, int32) {
	var t string
	var p int32
	for i := len(it) - 1; i >= 0; i-- {
		if it[i] == '/' {
			t = it[:i]
			fmt.Sscan(it[i+1:], &p)
			break
		}
	}
	return t, p
}

func byTopic(items []string) map[string][]int32 {
	m := map[string][]int32{}
	for _, it := range items {
		t, p := splitTP(it)
		m[t] = append(m[t], p)
	}
	return m
}

func sortedTopics(m map[string][]int32) []string {
	var ts []string
	for t := range m {
		ts = append(ts, t)
	}
	sort.Strings(ts)
	return ts
}

func build(kind string, items []string) kmsg.Request {
	switch kind {
	case "ListOffsets":
		req := kmsg.NewPtrListOffsetsRequest()
		req.ReplicaID = -1
		m := byTopic(items)
		for _, t := range sortedTopics(m) {
			rt := kmsg.NewListOffsetsRequestTopic()
			rt.Topic = t
			for _, p := range m[t] {
				rp := kmsg.NewListOffsetsRequestTopicPartition()
				rp.Partition, rp.Timestamp, rp.CurrentLeaderEpoch = p, -1, -1
				rt.Partitions = append(rt.Partitions, rp)
			}
			req.Topics = append(req.Topics, rt)
		}
		return req
	case "OffsetForLeaderEpoch":
		req := kmsg.NewPtrOffsetForLeaderEpochRequest()
		req.ReplicaID = -1
		m := byTopic(items)
		for _, t := range sortedTopics(m) {
			rt := kmsg.NewOffsetForLeaderEpochRequestTopic()
			rt.Topic = t
			for _, p := range m[t] {
				rp := kmsg.NewOffsetForLeaderEpochRequestTopicPartition()
				rp.Partition, rp.CurrentLeaderEpoch, rp.LeaderEpoch = p, -1, 0
				rt.Partitions = append(rt.Partitions, rp)
			}
			req.Topics = append(req.Topics, rt)
		}
		return req
	case "DeleteRecords":
		req := kmsg.NewPtrDeleteRecordsRequest()
		req.TimeoutMillis = 5000
		m := byTopic(items)
		for _, t := range sortedTopics(m) {
			rt := kmsg.NewDeleteRecordsRequestTopic()
			rt.Topic = t
			for _, p := range m[t] {
				rp := kmsg.NewDeleteRecordsRequestTopicPartition()
				rp.Partition, rp.Offset = p, 0
				rt.Partitions = append(rt.Partitions, rp)
			}
			req.Topics = append(req.Topics, rt)
		}
		return req
	case "DescribeProducers":
		req := kmsg.NewPtrDescribeProducersRequest()
		m := byTopic(items)
		for _, t := range sortedTopics(m) {
			rt := kmsg.NewDescribeProducersRequestTopic()
			rt.Topic = t
			rt.Partitions = m[t]
			req.Topics = append(req.Topics, rt)
		}
		return req
	case "DescribeGroups":
		req := kmsg.NewPtrDescribeGroupsRequest()
		req.Groups = items
		return req
	case "DeleteGroups":
		req := kmsg.NewPtrDeleteGroupsRequest()
		req.Groups = items
		return req
	case "OffsetFetch":
		req := kmsg.NewPtrOffsetFetchRequest()
		for _, g := range items {
			rg := kmsg.NewOffsetFetchRequestGroup()
			rg.Group = g
			req.Groups = append(req.Groups, rg)
		}
		return req
	case "FindCoordinator":
		req := kmsg.NewPtrFindCoordinatorRequest()
		req.CoordinatorKeys = items
		return req
	case "DescribeTransactions":
		req := kmsg.NewPtrDescribeTransactionsRequest()
		req.TransactionalIDs = items
		return req
	case "ListGroups":
		return kmsg.NewPtrListGroupsRequest()
	case "ListTransactions":
		return kmsg.NewPtrListTransactionsRequest()
	}
	panic(kind)
}

// itemsOf lists the items a request or response carries, in order, with repetitions.
func itemsOf(v any) []string {
	out := []string{}
	tp := func(t string, p int32) { out = append(out, fmt.Sprintf("%s/%d", t, p)) }
	switch x := v.(type) {
	case *kmsg.ListOffsetsRequest:
		for _, t := range x.Topics {
			for _, p := range t.Partitions {
				tp(t.Topic, p.Partition)
			}
		}
	case *kmsg.ListOffsetsResponse:
		for _, t := range x.Topics {
			for _, p := range t.Partitions {
				tp(t.Topic, p.Partition)
			}
		}
	case *kmsg.OffsetForLeaderEpochRequest:
		for _, t := range x.Topics {
			for _, p := range t.Partitions {
				tp(t.Topic, p.Partition)
			}
		}
	case *kmsg.OffsetForLeaderEpochResponse:
		for _, t := range x.Topics {
			for _, p := range t.Partitions {
				tp(t.Topic, p.Partition)
			}
		}
	case *kmsg.DeleteRecordsRequest:
		for _, t := range x.Topics {
			for _, p := range t.Partitions {
				tp(t.Topic, p.Partition)
			}
		}
	case *kmsg.DeleteRecordsResponse:
		for _, t := range x.Topics {
			for _, p := range t.Partitions {
				tp(t.Topic, p.Partition)
			}
		}
	case *kmsg.DescribeProducersRequest:
		for _, t := range x.Topics {
			for _, p := range t.Partitions {
				tp(t.Topic, p)
			}
		}
	case *kmsg.DescribeProducersResponse:
		for _, t := range x.Topics {
			for _, p := range t.Partitions {
				tp(t.Topic, p.Partition)
			}
		}
	case *kmsg.DescribeGroupsRequest:
		out = append(out, x.Groups...)
	case *kmsg.DescribeGroupsResponse:
		for _, g := range x.Groups {
			out = append(out, g.Group)
		}
	case *kmsg.DeleteGroupsRequest:
		out = append(out, x.Groups...)
	case *kmsg.DeleteGroupsResponse:
		for _, g := range x.Groups {
			out = append(out, g.Group)
		}
	case *kmsg.OffsetFetchRequest:
		for _, g := range x.Groups {
			out = append(out, g.Group)
		}
		if len(x.Groups) == 0 && x.Group != "" {
			out = append(out, x.Group)
		}
	case *kmsg.OffsetFetchResponse:
		for _, g := range x.Groups {
			out = append(out, g.Group)
		}
	case *kmsg.FindCoordinatorRequest:
		out = append(out, x.CoordinatorKeys...)
		if len(x.CoordinatorKeys) == 0 {
			out = append(out, x.CoordinatorKey)
		}
	case *kmsg.FindCoordinatorResponse:
		for _, c := range x.Coordinators {
			out = append(out, c.Key)
		}
	case *kmsg.DescribeTransactionsRequest:
		out = append(out, x.TransactionalIDs...)
	case *kmsg.DescribeTransactionsResponse:
		for _, s := range x.TransactionStates {
			out = append(out, s.TransactionalID)
		}
	}
	return out
}

func runScenario(t *testing.T, rec *sim.Recorder, sc Scenario) {
	synctest.Test(t, func(t *testing.T) {
		rec.ResetSeq()
		js, _ := json.Marshal(sc)
		var vnet kfake.VirtualNetwork
		chaos := sim.NewChaos()
		ports := []int{9092, 9093, 9094, 9095, 9096}[:sc.Brokers]
		c, err := kfake.NewCluster(kfake.NumBrokers(sc.Brokers), kfake.SeedTopics(4, "ta", "tb"), kfake.ListenFn(chaos.Listen(vnet.Listen)), kfake.Ports(ports...))
		if err != nil {
			t.Fatal(err)
		}
		cl, err := kgo.NewClient(kgo.SeedBrokers(c.ListenAddrs()...), kgo.Dialer(vnet.DialContext), kgo.MetadataMinAge(50*time.Millisecond),
			kgo.RetryBackoffFn(func(int) time.Duration { return 20 * time.Millisecond }), kgo.DisableClientMetrics())
		if err != nil {
			t.Fatal(err)
		}
		if sc.Leaderless {
			ids := map[string][16]byte{"ta": c.TopicInfo("ta").TopicID, "tb": c.TopicInfo("tb").TopicID}
			c.ControlKey(int16(kmsg.Metadata), func(kreq kmsg.Request) (kmsg.Response, error, bool) {
				c.KeepControl()
				req := kreq.(*kmsg.MetadataRequest)
				if len(req.Topics) == 0 {
					return nil, nil, false
				}
				resp := req.ResponseKind().(*kmsg.MetadataResponse)
				for i, a := range c.ListenAddrs() {
					host, ps, _ := net.SplitHostPort(a)
					port, _ := strconv.Atoi(ps)
					sb := kmsg.NewMetadataResponseBroker()
					sb.NodeID, sb.Host, sb.Port = int32(i), host, int32(port)
					resp.Brokers = append(resp.Brokers, sb)
				}
				for _, rt := range req.Topics {
					name := ""
					if rt.Topic != nil {
						name = *rt.Topic
					}
					for n, id := range ids {
						if id == rt.TopicID && name == "" {
							name = n
						}
					}
					st := kmsg.NewMetadataResponseTopic()
					st.Topic, st.TopicID = kmsg.StringPtr(name), rt.TopicID
					if id, ok := ids[name]; ok {
						st.TopicID = id
						for p := int32(0); p < 4; p++ {
							sp := kmsg.NewMetadataResponseTopicPartition()
							sp.Partition, sp.Leader, sp.LeaderEpoch = p, c.LeaderFor(name, p), 0
							sp.Replicas, sp.ISR = []int32{sp.Leader}, []int32{sp.Leader}
							if name == "tb" && p == 3 {
								sp.ErrorCode, sp.Leader = kerr.LeaderNotAvailable.Code, -1
							}
							st.Partitions = append(st.Partitions, sp)
						}
					} else {
						st.ErrorCode = kerr.UnknownTopicOrPartition.Code
					}
					resp.Topics = append(resp.Topics, st)
				}
				return resp, nil, true
			})
		}
		broadcast := sc.Kind == "ListGroups" || sc.Kind == "ListTransactions"
		requested := sc.Items
		if broadcast {
			requested = nil
			for i := 0; i < sc.Brokers; i++ {
				requested = append(requested, fmt.Sprintf("broker%d", i))
			}
		}
		rec.Ev("reset", "scenario", string(js), "kind", sc.Kind, "requested", requested, "broadcast", broadcast)
		ctx, cancel := context.WithTimeout(context.Background(), 60*time.Second)
		defer cancel()
		// warm the client's view of leaders and coordinators
		cl.RequestSharded(ctx, build(sc.Kind, sc.Items))
		key := build(sc.Kind, sc.Items).Key()
		arm := func() {
			chaos.Disarm()
			switch sc.Fault {
			case "drop1":
				chaos.DropNext(key, 1)
			case "drop2":
				chaos.DropNext(key, 2)
			case "shuffle", "shuffle+drop":
				c.ShufflePartitionLeaders()
				c.RehashCoordinators()
				if sc.Fault == "shuffle+drop" {
					chaos.DropNext(key, 1)
				}
			}
		}
		arm()
		shards := cl.RequestSharded(ctx, build(sc.Kind, sc.Items))
		for _, s := range shards {
			errs := ""
			if s.Err != nil {
				errs = s.Err.Error()
			}
			reqItems, respItems := itemsOf(s.Req), []string{}
			if s.Resp != nil {
				respItems = itemsOf(s.Resp)
			}
			if broadcast {
				reqItems = []string{fmt.Sprintf("broker%d", s.Meta.NodeID)}
				respItems = reqItems
			}
			rec.Ev("shard", "broker", s.Meta.NodeID, "err", errs, "req", reqItems, "resp", respItems, "hasresp", s.Resp != nil)
		}
		rec.Ev("sharded_done", "shards", len(shards))
		synctest.Wait()
		arm()
		resp, err := cl.Request(ctx, build(sc.Kind, sc.Items))
		errs := ""
		if err != nil {
			errs = err.Error()
		}
		merged := []string{}
		if resp != nil && !broadcast {
			merged = itemsOf(resp)
		}
		rec.Ev("merged", "err", errs, "items", merged, "hasresp", resp != nil, "broadcast", broadcast)
		chaos.Disarm()
		cl.Close()
		c.Close()
		time.Sleep(2 * time.Second)
		synctest.Wait()
	})
}

func TestScenarios(t *testing.T) {
	rec, err := sim.NewRecorder(os.Getenv("VERIF_OUT"))
	if err != nil {
		t.Fatal(err)
	}
	defer rec.Close()
	var scs []Scenario
	if p := os.Getenv("VERIF_SCENARIOS"); p != "" {
		if scs, err = raw.ReadNDJSON[Scenario](p); err != nil {
			t.Fatal(err)
		}
	} else {
		n := raw.EnvInt("VERIF_N", 20)
		seed := int64(raw.EnvInt("VERIF_SEED", 1))
		for i := 0; i < n; i++ {
			scs = append(scs, gen(seed*100000+int64(i)))
		}
	}
	for i, sc := range scs {
		if ok := t.Run(fmt.Sprintf("s%d", i), func(t *testing.T) { runScenario(t, rec, sc) }); !ok {
			rec.Ev("driver_failed", "scenario", i)
		}
	}
	raw.Emit(map[string]any{"kind": "stat", "scenarios": len(scs), "events": rec.N})
}
