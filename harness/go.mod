module verif/harness

go 1.25.0

require (
	github.com/klauspost/compress v1.18.7
	github.com/pierrec/lz4/v4 v4.1.26
	github.com/twmb/franz-go v1.21.1
	github.com/twmb/franz-go/pkg/kadm v1.18.0
	github.com/twmb/franz-go/pkg/kfake v0.0.0
	github.com/twmb/franz-go/pkg/kmsg v1.13.1
	github.com/twmb/franz-go/pkg/sr v1.6.0
	github.com/twmb/franz-go/plugin/kotel v1.6.0
	go.opentelemetry.io/otel v1.43.0
	go.opentelemetry.io/otel/trace v1.43.0
)

require (
	github.com/cespare/xxhash/v2 v2.3.0 // indirect
	github.com/go-logr/logr v1.4.3 // indirect
	github.com/go-logr/stdr v1.2.2 // indirect
	go.opentelemetry.io/auto/sdk v1.2.1 // indirect
	go.opentelemetry.io/otel/metric v1.43.0 // indirect
)

replace (
	github.com/twmb/franz-go => /repo
	github.com/twmb/franz-go/pkg/kadm => /repo/pkg/kadm
	github.com/twmb/franz-go/pkg/kfake => /repo/pkg/kfake
	github.com/twmb/franz-go/pkg/kmsg => /repo/pkg/kmsg
	github.com/twmb/franz-go/pkg/sr => /repo/pkg/sr
	github.com/twmb/franz-go/plugin/kotel => /repo/plugin/kotel
)
