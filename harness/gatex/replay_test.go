package gatex

// Behaviour replay (binding R) for C31/poll gate: behaviours of spec/PollGate.tla executed on the CURRENT poll-gate
// methods of pkg/kgo/consumer.go (copied, pollWaitMu/pollWaitC rewritten to harness/ctl).

import (
	"context"
	"encoding/json"
	"fmt"
	"os"
	"reflect"
	"sort"
	"testing"

	"verif/harness/ctl"
	"verif/harness/raw"
)

type st struct {
	Lo      int               `json:"lo"`
	Hi      int               `json:"hi"`
	Ppc     map[string]string `json:"ppc"`
	Rpc     map[string]string `json:"rpc"`
	Woken   []string          `json:"woken"`
	Misused bool              `json:"misused"`
}
type step struct {
	Act   string   `json:"act"`
	Args  []string `json:"args"`
	State st       `json:"state"`
}
type beh struct {
	Init  st     `json:"init"`
	Steps []step `json:"steps"`
}
type cfg struct {
	Pollers     []string `json:"pollers"`
	Rebalancers []string `json:"rebalancers"`
	Rounds      int      `json:"rounds"`
}
type viol struct {
	Kind string `json:"kind"`
	Key  string `json:"key"`
	What string `json:"what"`
	Case int    `json:"case"`
	Step int    `json:"step"`
}

func sameSet(a, b []string) bool {
	a, b = append([]string(nil), a...), append([]string(nil), b...)
	sort.Strings(a)
	sort.Strings(b)
	return len(a) == len(b) && (len(a) == 0 || reflect.DeepEqual(a, b))
}

func replay(c cfg, b beh) (int, string, string) {
	s := ctl.New()
	cons := &consumer{cl: &clientStub{cfg: cfgStub{blockRebalanceOnPoll: true}, ctx: context.Background()}}
	cons.pollWaitC = ctl.NewCond(&cons.pollWaitMu)
	records := map[string]bool{} // what the next poll of p returns, set by the replayer
	for _, p := range c.Pollers {
		s.Go(p, func() {
			for k := 0; k < c.Rounds; k++ {
				cons.waitAndAddPoller()
				s.Yield("added")
				if records[p] {
					s.Yield("holding") // returned records: stays counted until the application allows rebalances
				} else {
					cons.unaddPoller()
				}
			}
		})
	}
	for _, r := range c.Rebalancers {
		s.Go(r, func() {
			for k := 0; k < c.Rounds; k++ {
				cons.waitAndAddRebalance()
				s.Yield("in") // inside the revoke section
				cons.unaddRebalance()
			}
		})
	}
	s.Go("app", func() {
		for {
			cons.allowRebalance()
		}
	})
	for _, n := range s.Alive() {
		if err := s.Step(n); err != nil {
			return -1, "infra", err.Error()
		}
	}
	outstanding := map[string]bool{} // polls that were admitted and not yet released / allowed
	toLock := func(th string) error {
		for i := 0; i < 4; i++ {
			t := s.Threads[th]
			if t.Done {
				return fmt.Errorf("thread %s has finished", th)
			}
			if t.At == "lock" || t.Woken {
				return nil
			}
			if t.Parked {
				return fmt.Errorf("thread %s is parked and was not woken", th)
			}
			if err := s.Step(th); err != nil {
				return err
			}
		}
		return fmt.Errorf("thread %s does not reach its critical section (at %q)", th, s.Threads[th].At)
	}
	for i, stp := range b.Steps {
		th := "app"
		if len(stp.Args) > 0 {
			th = stp.Args[0]
		}
		var err error
		switch stp.Act {
		case "PollEnter", "PollRecheck", "RebEnter", "RebRecheck", "Allow", "AllowMis":
			if err = toLock(th); err == nil {
				err = s.Step(th)
			}
			if stp.Act == "Allow" || stp.Act == "AllowMis" {
				for p := range outstanding {
					if s.Threads[p].At == "holding" || stp.Act == "AllowMis" {
						delete(outstanding, p)
					}
				}
			}
			if (stp.Act == "PollEnter" || stp.Act == "PollRecheck") && err == nil && s.Threads[th].At == "added" {
				outstanding[th] = true
			}
		case "PollReturnRecords":
			records[th] = true
			if s.Threads[th].At != "added" {
				err = fmt.Errorf("poller %s is at %q, not past waitAndAddPoller", th, s.Threads[th].At)
			} else {
				err = s.Step(th)
			}
		case "PollReturnEmpty":
			records[th] = false
			if s.Threads[th].At != "added" {
				err = fmt.Errorf("poller %s is at %q, not past waitAndAddPoller", th, s.Threads[th].At)
			} else if err = s.Step(th); err == nil { // to unaddPoller's lock
				err = s.Step(th)
			}
			delete(outstanding, th)
		case "RebExit":
			if s.Threads[th].At != "in" {
				err = fmt.Errorf("rebalancer %s is at %q, not inside its revoke section", th, s.Threads[th].At)
			} else if err = s.Step(th); err == nil {
				err = s.Step(th)
			}
		default:
			return i, "infra", "unknown action " + stp.Act
		}
		if err != nil {
			return i, "not enabled " + stp.Act, fmt.Sprintf("step %d %s%v: the specification takes this step, the real code cannot: %v", i, stp.Act, stp.Args, err)
		}
		if len(s.Errors) > 0 {
			return i, "scheduler " + stp.Act, fmt.Sprintf("step %d %s%v: %v", i, stp.Act, stp.Args, s.Errors)
		}
		w := stp.State
		// the property on the real run: a revoke section never overlaps an outstanding poll (unless the application broke the contract)
		var in []string
		for _, r := range c.Rebalancers {
			if s.Threads[r].At == "in" {
				in = append(in, r)
			}
		}
		if len(in) > 0 && len(outstanding) > 0 && !w.Misused {
			return i, "revoke overlaps poll", fmt.Sprintf("step %d %s%v: rebalancer(s) %v are inside revoke while polls %v are outstanding", i, stp.Act, stp.Args, in, outstanding)
		}
		lo, hi := int(cons.pollWaitState&0xffffffff), int(cons.pollWaitState>>32)
		var woken, parked, wparked, win []string
		for n, t := range s.Threads {
			if t.Woken {
				woken = append(woken, n)
			}
		}
		parked = cons.pollWaitC.WaiterNames()
		for n, pc := range w.Ppc {
			if pc == "parked" {
				wparked = append(wparked, n)
			}
		}
		for n, pc := range w.Rpc {
			if pc == "parked" {
				wparked = append(wparked, n)
			}
			if pc == "in" {
				win = append(win, n)
			}
		}
		diff := ""
		switch {
		case lo != w.Lo || hi != w.Hi:
			diff = fmt.Sprintf("counters pollers=%d rebalances=%d, spec %d/%d", lo, hi, w.Lo, w.Hi)
		case !sameSet(woken, w.Woken):
			diff = fmt.Sprintf("woken %v, spec %v", woken, w.Woken)
		case !sameSet(append(parked, woken...), wparked):
			diff = fmt.Sprintf("waiting threads %v (+woken %v), spec parked %v", parked, woken, wparked)
		case !sameSet(in, win):
			diff = fmt.Sprintf("inside revoke %v, spec %v", in, win)
		}
		if diff != "" {
			return i, "state " + stp.Act, fmt.Sprintf("after step %d %s%v the real gate differs from the specification: %s", i, stp.Act, stp.Args, diff)
		}
	}
	return -1, "", ""
}

func TestReplay(t *testing.T) {
	var c cfg
	bs, err := os.ReadFile(os.Getenv("VERIF_CFG"))
	if err != nil || json.Unmarshal(bs, &c) != nil {
		t.Fatal("cfg", err)
	}
	behs, err := raw.ReadNDJSON[beh](os.Getenv("VERIF_IN"))
	if err != nil || len(behs) == 0 {
		t.Fatalf("no behaviours: %v", err)
	}
	nviol, steps := 0, 0
	for bi, b := range behs {
		steps += len(b.Steps)
		if i, key, msg := replay(c, b); key != "" {
			nviol++
			if nviol <= 25 {
				raw.Emit(viol{"viol", key, msg, bi, i})
			}
		}
	}
	raw.Emit(map[string]any{"kind": "stat", "behaviours": len(behs), "steps": steps, "violations": nviol})
}
