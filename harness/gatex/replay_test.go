package gatex

// Behaviour replay (binding R) for C31/poll gate: behaviours of spec/PollGate.tla executed on the CURRENT poll-gate
// methods of pkg/kgo/consumer.go (copied, pollWaitMu/pollWaitC rewritten to harness/ctl).

import (
	"context"
	"encoding/json"
	"fmt"
	"math/rand"
	"os"
	"reflect"
	"sort"
	"testing"

	"verif/harness/ctl"
	"verif/harness/raw"
)

type st struct {
	Lo      int               `json:"lo"`
	Hi      int               `json:"hi"`
	Ppc     map[string]string `json:"ppc"`
	Rpc     map[string]string `json:"rpc"`
	Woken   []string          `json:"woken"`
	Misused bool              `json:"misused"`
}
type step struct {
	Act   string   `json:"act"`
	Args  []string `json:"args"`
	State st       `json:"state"`
}
type beh struct {
	Init  st     `json:"init"`
	Steps []step `json:"steps"`
}
type cfg struct {
	Pollers     []string `json:"pollers"`
	Rebalancers []string `json:"rebalancers"`
	Rounds      int      `json:"rounds"`
}
type viol struct {
	Kind string `json:"kind"`
	Key  string `json:"key"`
	What string `json:"what"`
	Case int    `json:"case"`
	Step int    `json:"step"`
}

func sameSet(a, b []string) bool {
	a, b = append([]string(nil), a...), append([]string(nil), b...)
	sort.Strings(a)
	sort.Strings(b)
	return len(a) == len(b) && (len(a) == 0 || reflect.DeepEqual(a, b))
}

func replay(c cfg, b beh) (int, string, string) {
	s := ctl.New()
	cons := &consumer{cl: &clientStub{cfg: cfgStub{blockRebalanceOnPoll: true}, ctx: context.Background()}}
	cons.pollWaitC = ctl.NewCond(&cons.pollWaitMu)
	records := map[string]bool{} // what the next poll of p returns, set by the replayer
	for _, p := range c.Pollers {
		s.Go(p, func() {
			for k := 0; k < c.Rounds; k++ {
				cons.waitAndAddPoller()
				s.Yield("added")
				if records[p] {
					s.Yield("holding") // returned records: stays counted until the application allows rebalances
				} else {
					cons.unaddPoller()
				}
			}
		})
	}
	for _, r := range c.Rebalancers {
		s.Go(r, func() {
			for k := 0; k < c.Rounds; k++ {
				cons.waitAndAddRebalance()
				s.Yield("in") // inside the revoke section
				cons.unaddRebalance()
			}
		})
	}
	s.Go("app", func() {
		for {
			cons.allowRebalance()
		}
	})
	for _, n := range s.Alive() {
		if err := s.Step(n); err != nil {
			return -1, "infra", err.Error()
		}
	}
	outstanding := map[string]bool{} // polls that were admitted and not yet released / allowed
	toLock := func(th string) error {
		for i := 0; i < 4; i++ {
			t := s.Threads[th]
			if t.Done {
				return fmt.Errorf("thread %s has finished", th)
			}
			if t.At == "lock" || t.Woken {
				return nil
			}
			if t.Parked {
				return fmt.Errorf("thread %s is parked and was not woken", th)
			}
			if err := s.Step(th); err != nil {
				return err
			}
		}
		return fmt.Errorf("thread %s does not reach its critical section (at %q)", th, s.Threads[th].At)
	}
	for i, stp := range b.Steps {
		th := "app"
		if len(stp.Args) > 0 {
			th = stp.Args[0]
		}
		var err error
		switch stp.Act {
		case "PollEnter", "PollRecheck", "RebEnter", "RebRecheck", "Allow", "AllowMis":
			if err = toLock(th); err == nil {
				err = s.Step(th)
			}
			if stp.Act == "Allow" || stp.Act == "AllowMis" {
				for p := range outstanding {
					if s.Threads[p].At == "holding" || stp.Act == "AllowMis" {
						delete(outstanding, p)
					}
				}
			}
			if (stp.Act == "PollEnter" || stp.Act == "PollRecheck") && err == nil && s.Threads[th].At == "added" {
				outstanding[th] = true
			}
		case "PollReturnRecords":
			records[th] = true
			if s.Threads[th].At != "added" {
				err = fmt.Errorf("poller %s is at %q, not past waitAndAddPoller", th, s.Threads[th].At)
			} else {
				err = s.Step(th)
			}
		case "PollReturnEmpty":
			records[th] = false
			if s.Threads[th].At != "added" {
				err = fmt.Errorf("poller %s is at %q, not past waitAndAddPoller", th, s.Threads[th].At)
			} else if err = s.Step(th); err == nil { // to unaddPoller's lock
				err = s.Step(th)
			}
			delete(outstanding, th)
		case "RebExit":
			if s.Threads[th].At != "in" {
				err = fmt.Errorf("rebalancer %s is at %q, not inside its revoke section", th, s.Threads[th].At)
			} else if err = s.Step(th); err == nil {
				err = s.Step(th)
			}
		default:
			return i, "infra", "unknown action " + stp.Act
		}
		if err != nil {
			return i, "shape not enabled " + stp.Act, fmt.Sprintf("step %d %s%v: the specification takes this step, the real code cannot: %v", i, stp.Act, stp.Args, err)
		}
		if len(s.Errors) > 0 {
			return i, "scheduler " + stp.Act, fmt.Sprintf("step %d %s%v: %v", i, stp.Act, stp.Args, s.Errors)
		}
		w := stp.State
		// the property on the real run: a revoke section never overlaps an outstanding poll (unless the application broke the contract)
		var in []string
		for _, r := range c.Rebalancers {
			if s.Threads[r].At == "in" {
				in = append(in, r)
			}
		}
		if len(in) > 0 && len(outstanding) > 0 && !w.Misused {
			return i, "revoke overlaps poll", fmt.Sprintf("step %d %s%v: rebalancer(s) %v are inside revoke while polls %v are outstanding", i, stp.Act, stp.Args, in, outstanding)
		}
		lo, hi := int(cons.pollWaitState&0xffffffff), int(cons.pollWaitState>>32)
		var woken, parked, wparked, win []string
		for n, t := range s.Threads {
			if t.Woken {
				woken = append(woken, n)
			}
		}
		parked = cons.pollWaitC.WaiterNames()
		for n, pc := range w.Ppc {
			if pc == "parked" {
				wparked = append(wparked, n)
			}
		}
		for n, pc := range w.Rpc {
			if pc == "parked" {
				wparked = append(wparked, n)
			}
			if pc == "in" {
				win = append(win, n)
			}
		}
		diff := ""
		switch {
		case lo != w.Lo || hi != w.Hi:
			diff = fmt.Sprintf("counters pollers=%d rebalances=%d, spec %d/%d", lo, hi, w.Lo, w.Hi)
		case !sameSet(woken, w.Woken):
			diff = fmt.Sprintf("woken %v, spec %v", woken, w.Woken)
		case !sameSet(append(parked, woken...), wparked):
			diff = fmt.Sprintf("waiting threads %v (+woken %v), spec parked %v", parked, woken, wparked)
		case !sameSet(in, win):
			diff = fmt.Sprintf("inside revoke %v, spec %v", in, win)
		}
		if diff != "" {
			return i, "shape state " + stp.Act, fmt.Sprintf("after step %d %s%v the real gate differs from the specification: %s", i, stp.Act, stp.Args, diff)
		}
	}
	return -1, "", ""
}

func TestReplay(t *testing.T) {
	var c cfg
	bs, err := os.ReadFile(os.Getenv("VERIF_CFG"))
	if err != nil || json.Unmarshal(bs, &c) != nil {
		t.Fatal("cfg", err)
	}
	behs, err := raw.ReadNDJSON[beh](os.Getenv("VERIF_IN"))
	if err != nil || len(behs) == 0 {
		t.Fatalf("no behaviours: %v", err)
	}
	nviol, steps := 0, 0
	for bi, b := range behs {
		steps += len(b.Steps)
		if i, key, msg := replay(c, b); key != "" {
			nviol++
			if nviol <= 25 {
				raw.Emit(viol{"viol", key, msg, bi, i})
			}
		}
	}
	raw.Emit(map[string]any{"kind": "stat", "behaviours": len(behs), "steps": steps, "violations": nviol})
}

// TestExplore runs pollers, rebalancers and the application under pseudo-random schedules that are NOT steered by the
// specification and checks PollGate.tla's properties on what is observable, whatever the shape of the code inside the
// gate's methods: a revoke section never overlaps a poll that was admitted and not yet released (or, having returned
// records, not yet allowed), and nobody waits forever (every poller and rebalancer finishes its rounds while the
// application keeps allowing rebalances once no poll is in progress).
func TestExplore(t *testing.T) {
	var c cfg
	bs, err := os.ReadFile(os.Getenv("VERIF_CFG"))
	if err != nil || json.Unmarshal(bs, &c) != nil {
		t.Fatal("cfg", err)
	}
	n := raw.EnvInt("VERIF_N", 5000)
	rng := rand.New(rand.NewSource(int64(raw.EnvInt("VERIF_SEED", 1))))
	nviol, steps := 0, 0
	for run := 0; run < n; run++ {
		s := ctl.New()
		cons := &consumer{cl: &clientStub{cfg: cfgStub{blockRebalanceOnPoll: true}, ctx: context.Background()}}
		cons.pollWaitC = ctl.NewCond(&cons.pollWaitMu)
		outstanding := map[string]bool{} // admitted, not yet released / allowed
		inPoll := map[string]bool{}      // between admission and the poll's return
		holding := map[string]bool{}
		active := map[string]bool{} // rebalancers between the start of waitAndAddRebalance and the end of unaddRebalance
		stop := false
		var sched []string
		// a third of the runs: one application thread that polls several times and then calls AllowRebalance itself
		// ("you can poll many times before calling this function"); nobody else allows, the other pollers stay out
		selfAllow := run%3 == 2
		for pi, p := range c.Pollers {
			s.Go(p, func() {
				if selfAllow && pi > 0 {
					return
				}
				for k := 0; k < c.Rounds; k++ {
					if selfAllow && k > 0 && holding[p] && rng.Intn(2) == 0 {
						cons.allowRebalance()
						delete(holding, p)
						delete(outstanding, p)
						s.Yield("allowed")
					}
					cons.waitAndAddPoller()
					outstanding[p], inPoll[p] = true, true
					s.Yield("added")
					if rng.Intn(2) == 0 {
						inPoll[p] = false
						holding[p] = true
						s.Yield("holding")
					} else {
						cons.unaddPoller()
						inPoll[p] = false
						if !holding[p] { // an earlier poll of this poller that returned records is still unallowed
							delete(outstanding, p)
						}
					}
				}
				if selfAllow && holding[p] {
					cons.allowRebalance()
					delete(holding, p)
					delete(outstanding, p)
				}
			})
		}
		for _, r := range c.Rebalancers {
			s.Go(r, func() {
				for k := 0; k < c.Rounds; k++ {
					active[r] = true
					cons.waitAndAddRebalance()
					s.Yield("in")
					cons.unaddRebalance()
					delete(active, r)
				}
			})
		}
		s.Go("app", func() {
			for !stop {
				s.Yield("app")
				if selfAllow {
					continue
				}
				cons.allowRebalance()
				for p := range holding {
					delete(holding, p)
					if !inPoll[p] {
						delete(outstanding, p)
					}
				}
			}
		})
		bad, what := "", ""
		workers := append(append([]string{}, c.Pollers...), c.Rebalancers...)
		appIdle := 0
		for len(sched) < 3000 && bad == "" {
			var run []string
			alive := 0
			for _, w := range workers {
				t := s.Threads[w]
				if !t.Done {
					alive++
					if !t.Parked {
						run = append(run, w)
					}
				}
			}
			if alive == 0 {
				break
			}
			// the application calls AllowRebalance only while none of its polls is in progress (anything else is the
			// documented misuse, which the property excludes)
			appOK := true
			for _, v := range inPoll {
				if v {
					appOK = false
				}
			}
			th := ""
			switch {
			case len(run) > 0 && (!appOK || rng.Intn(4) != 0):
				th = run[rng.Intn(len(run))]
				appIdle = 0
			case appOK:
				th = "app"
				if len(run) == 0 {
					appIdle++
				}
			}
			if th == "" || appIdle > 12 {
				var parked []string
				for _, w := range workers {
					if s.Threads[w].Parked {
						parked = append(parked, w)
					}
				}
				bad, what = "waits forever", fmt.Sprintf("threads %v wait on the gate and nothing will wake them (pollers counted %d, rebalances %d, polls outstanding %v)", parked, int(cons.pollWaitState&0xffffffff), int(cons.pollWaitState>>32), outstanding)
				break
			}
			sched = append(sched, th)
			err := s.Step(th)
			for th == "app" && err == nil && s.Threads["app"].At != "app" && !s.Threads["app"].Done {
				err = s.Step(th) // AllowRebalance is one call of the application: no poll of its own starts inside it
			}
			if err != nil {
				bad, what = "infra", err.Error()
				break
			}
			if len(s.Errors) > 0 {
				bad, what = "infra", fmt.Sprint(s.Errors)
				break
			}
			var in []string
			for _, r := range c.Rebalancers {
				if s.Threads[r].At == "in" {
					in = append(in, r)
				}
			}
			if len(in) > 0 && len(outstanding) > 0 {
				bad, what = "revoke overlaps poll", fmt.Sprintf("rebalancer(s) %v are inside revoke while polls %v are outstanding", in, outstanding)
			}
			// no lost wake-up: whoever still waits on the gate although what it waits for is over has been woken
			for _, r := range c.Rebalancers {
				if s.Threads[r].Parked && len(outstanding) == 0 && bad == "" {
					bad, what = "lost wakeup", fmt.Sprintf("rebalancer %s waits on the gate, no poll is outstanding and no wake-up is pending for it", r)
				}
			}
			for _, p := range c.Pollers {
				if s.Threads[p].Parked && len(active) == 0 && bad == "" {
					bad, what = "lost wakeup", fmt.Sprintf("poller %s waits on the gate, no rebalance is in progress and no wake-up is pending for it", p)
				}
			}
		}
		steps += len(sched)
		if bad == "" && len(sched) >= 3000 {
			bad, what = "waits forever", "pollers and rebalancers have not finished their rounds after 3000 steps"
		}
		stop = true
		s.Drain(50)
		if bad != "" {
			nviol++
			if nviol <= 5 {
				raw.Emit(map[string]any{"kind": "viol", "key": bad, "what": fmt.Sprintf("%s; schedule (thread taking each step) %v", what, sched), "schedule": sched, "case": -1, "step": len(sched)})
			}
		}
	}
	raw.Emit(map[string]any{"kind": "stat", "schedules": n, "steps": steps, "violations": nviol})
}
