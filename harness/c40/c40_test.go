// Package c40: every case of spec/StartOffset.tla is run on the real client against kfake (virtual time): the log is
// prepared (records with timestamps, DeleteRecords, an open transaction), the consumer is started with the offset
// under test, and once it has settled the transaction is committed and a marker record appended; the first record
// returned tells where the consumer started.
package c40

import (
	"context"
	"fmt"
	"os"
	"testing"
	"testing/synctest"
	"time"

	"github.com/twmb/franz-go/pkg/kadm"
	"github.com/twmb/franz-go/pkg/kfake"
	"github.com/twmb/franz-go/pkg/kgo"
	"verif/harness/raw"
)

type Spec struct {
	Kind string `json:"kind"`
	X    int64  `json:"x"`
	R    int64  `json:"r"`
}

type Case struct {
	Spec  Spec   `json:"spec"`
	LS    int64  `json:"ls"`
	Open  bool   `json:"open"`
	Iso   int    `json:"iso"`
	Mode  string `json:"mode"`
	Start int64  `json:"start"`
}

const (
	n  = 8
	tx = 2
	t0 = 1000
)

func offsetOf(s Spec) kgo.Offset {
	o := kgo.NewOffset()
	switch s.Kind {
	case "at":
		o = o.At(s.X)
		if s.R != 0 {
			o = o.Relative(s.R)
		}
	case "atepoch":
		o = o.At(s.X)
		if s.R != 0 {
			o = o.Relative(s.R)
		}
		o = o.WithEpoch(0) // every record of the test log was written in leader epoch 0
	case "start":
		o = o.AtStart()
		if s.R != 0 {
			o = o.Relative(s.R)
		}
	case "end":
		o = o.AtEnd()
		if s.R != 0 {
			o = o.Relative(s.R)
		}
	case "milli":
		o = o.AfterMilli(s.X)
	case "committed":
		o = o.AtCommitted()
	}
	return o
}

type outcome struct {
	first int64 // -1: nothing returned
	err   string
}

func run(t *testing.T, c Case, batched bool) (res outcome) {
	res.first = -1
	synctest.Test(t, func(t *testing.T) {
		var vnet kfake.VirtualNetwork
		cl, err := kfake.NewCluster(kfake.NumBrokers(1), kfake.SeedTopics(1, "t"), kfake.ListenFn(vnet.Listen), kfake.Ports(9092))
		if err != nil {
			t.Fatal(err)
		}
		common := []kgo.Opt{kgo.SeedBrokers(cl.ListenAddrs()...), kgo.Dialer(vnet.DialContext), kgo.DisableClientMetrics(), kgo.MetadataMinAge(10 * time.Millisecond)}
		ctx, cancel := context.WithTimeout(context.Background(), 5*time.Minute)
		defer cancel()
		p, _ := kgo.NewClient(append(common, kgo.DefaultProduceTopic("t"), kgo.RecordPartitioner(kgo.ManualPartitioner()), kgo.ProducerLinger(50*time.Millisecond))...)
		for i := 0; i < n; i++ {
			r := &kgo.Record{Value: []byte(fmt.Sprint(i)), Timestamp: time.UnixMilli(int64(t0 + 100*i))}
			if !batched {
				if err := p.ProduceSync(ctx, r).FirstErr(); err != nil {
					t.Fatal(err)
				}
				continue
			}
			// two batches of four records: timestamp lookups have to look inside a batch
			p.Produce(ctx, r, func(_ *kgo.Record, err error) {
				if err != nil {
					t.Error(err)
				}
			})
			if i%4 == 3 {
				if err := p.Flush(ctx); err != nil {
					t.Fatal(err)
				}
			}
		}
		adm := kadm.NewClient(p)
		if c.LS > 0 {
			var os kadm.Offsets
			os.Add(kadm.Offset{Topic: "t", Partition: 0, At: c.LS, LeaderEpoch: -1})
			if _, err := adm.DeleteRecords(ctx, os); err != nil {
				t.Fatal(err)
			}
		}
		var txp *kgo.Client
		if c.Open {
			txp, _ = kgo.NewClient(append(common, kgo.DefaultProduceTopic("t"), kgo.TransactionalID("tx"), kgo.RecordPartitioner(kgo.ManualPartitioner()))...)
			if err := txp.BeginTransaction(); err != nil {
				t.Fatal(err)
			}
			for i := n; i < n+tx; i++ {
				if err := txp.ProduceSync(ctx, &kgo.Record{Value: []byte(fmt.Sprint(i)), Timestamp: time.UnixMilli(int64(t0 + 100*i))}).FirstErr(); err != nil {
					t.Fatal(err)
				}
			}
		}
		if c.Spec.Kind == "committed" {
			var os kadm.Offsets
			os.Add(kadm.Offset{Topic: "t", Partition: 0, At: c.Spec.X, LeaderEpoch: -1})
			if _, err := adm.CommitOffsets(ctx, "g", os); err != nil {
				t.Fatal(err)
			}
		}
		copts := append([]kgo.Opt{}, common...)
		if c.Iso == 1 {
			copts = append(copts, kgo.FetchIsolationLevel(kgo.ReadCommitted()))
		}
		copts = append(copts, kgo.FetchMaxWait(200*time.Millisecond))
		if c.Mode == "direct" {
			copts = append(copts, kgo.ConsumePartitions(map[string]map[int32]kgo.Offset{"t": {0: offsetOf(c.Spec)}}))
		} else {
			copts = append(copts, kgo.ConsumerGroup("g"), kgo.ConsumeTopics("t"), kgo.ConsumeResetOffset(offsetOf(c.Spec)), kgo.DisableAutoCommit())
		}
		cons, err := kgo.NewClient(copts...)
		if err != nil {
			t.Fatal(err)
		}
		// let the consumer resolve its start offset and sit in its fetch
		first := make(chan outcome, 1)
		go func() {
			for {
				fs := cons.PollFetches(ctx)
				if fs.IsClientClosed() || ctx.Err() != nil {
					first <- outcome{-1, "closed"}
					return
				}
				if errs := fs.Errors(); len(errs) > 0 {
					first <- outcome{-1, errs[0].Err.Error()}
					return
				}
				if fs.NumRecords() > 0 {
					first <- outcome{fs.Records()[0].Offset, ""}
					return
				}
			}
		}()
		time.Sleep(3 * time.Second)
		synctest.Wait()
		select {
		case res = <-first:
		default:
			// nothing yet: the consumer sits at the end; now make the rest visible and append the marker
			if c.Open {
				if err := txp.EndTransaction(ctx, kgo.TryCommit); err != nil {
					t.Fatal(err)
				}
			}
			if err := p.ProduceSync(ctx, &kgo.Record{Value: []byte("marker"), Timestamp: time.UnixMilli(5000)}).FirstErr(); err != nil {
				t.Fatal(err)
			}
			select {
			case res = <-first:
			case <-time.After(30 * time.Second):
				res = outcome{-1, "nothing returned 30s after the marker"}
			}
		}
		cons.Close()
		if txp != nil {
			txp.Close()
		}
		p.Close()
		cl.Close()
		time.Sleep(2 * time.Second)
		synctest.Wait()
	})
	return res
}

// expectedFirst: the first data offset at or after start, given what exists once the transaction is committed and the
// marker appended. If the start is below what becomes visible before the marker, the record is returned earlier.
func expectedFirst(c Case) int64 {
	var data []int64
	for o := c.LS; o < n; o++ {
		data = append(data, o)
	}
	marker := int64(n)
	if c.Open {
		data = append(data, n, n+1)
		marker = n + tx + 1 // the commit marker takes n+tx
	}
	data = append(data, marker)
	for _, o := range data {
		if o >= c.Start {
			return o
		}
	}
	return -1
}

func TestOracle(t *testing.T) {
	cases, err := raw.ReadNDJSON[Case](os.Getenv("VERIF_IN"))
	if err != nil {
		t.Fatal(err)
	}
	stride := raw.EnvInt("VERIF_STRIDE", 1)
	seed := raw.EnvInt("VERIF_SEED", 1)
	evals, nontrivial := 0, 0
	for ci, c := range cases {
		if (ci+seed)%stride != 0 {
			continue
		}
		evals++
		if c.Open || c.LS > 0 {
			nontrivial++
		}
		for _, batched := range []bool{false, true} {
			if batched && c.Spec.Kind != "milli" {
				continue
			}
			if batched {
				evals++
			}
			var res outcome
			ok := t.Run(fmt.Sprintf("c%d", ci), func(t *testing.T) { res = run(t, c, batched) })
			want := expectedFirst(c)
			desc := fmt.Sprintf("%s x=%d relative=%d, %s consumer, log start %d, end %d, open transaction %v, isolation %d, records in batches of four: %v", c.Spec.Kind, c.Spec.X, c.Spec.R, c.Mode, c.LS, n, c.Open, c.Iso, batched)
			key := fmt.Sprintf("%s mode=%s start=%d x=%d r=%d ls=%d open=%v iso=%d", c.Spec.Kind, c.Mode, c.Start, c.Spec.X, c.Spec.R, c.LS, c.Open, c.Iso)
			if batched {
				key += " batched"
			}
			// where the requested position lies and where the consumer really started, as part of the finding's identity
			hw := int64(n)
			if c.Open {
				hw = n + tx
			}
			if c.Spec.Kind == "at" {
				switch w := c.Spec.X + c.Spec.R; {
				case w > hw:
					key += " beyond=hw"
				case c.Iso == 1 && c.Open && w > n:
					key += " beyond=lso"
				default:
					key += " inrange"
				}
				switch {
				case res.first == c.LS:
					key += " got=logstart"
				case res.first >= c.Spec.X+c.Spec.R:
					key += " got=exact"
				default:
					key += fmt.Sprintf(" got=%d", res.first)
				}
			}
			switch {
			case !ok:
				raw.Emit(map[string]any{"kind": "viol", "key": "driver " + key, "what": "driver failed: " + desc, "case": ci})
			case res.err != "":
				raw.Emit(map[string]any{"kind": "viol", "key": key, "what": fmt.Sprintf("consumer returned an error instead of records (%s): %s; documented start offset %d", res.err, desc, c.Start), "case": ci})
			case res.first != want:
				raw.Emit(map[string]any{"kind": "viol", "key": key, "what": fmt.Sprintf("first record returned is offset %d, documented start offset %d (first record at or after it: %d): %s", res.first, c.Start, want, desc), "case": ci})
			}
		}
	}
	raw.Emit(map[string]any{"kind": "stat", "evaluations": evals, "nontrivial": nontrivial})
}
