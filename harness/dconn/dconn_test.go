package dconn

// D-CONN: C22 — each request gets exactly one response or error; a response is delivered only to the request whose
// correlation id it carries; malformed / truncated / oversized / mismatched responses, throttles and disconnects give
// errors, never panics or waits beyond the configured timeouts. A scripted raw broker (in-memory network, virtual time)
// answers pipelined DescribeGroups requests according to a per-request script; validated against spec/ConnTrace.tla.

import (
	"context"
	"encoding/binary"
	"encoding/json"
	"fmt"
	"io"
	"math/rand"
	"net"
	"os"
	"sync"
	"testing"
	"testing/synctest"
	"time"

	"github.com/twmb/franz-go/pkg/kfake"
	"github.com/twmb/franz-go/pkg/kgo"
	"github.com/twmb/franz-go/pkg/kmsg"
	"verif/harness/raw"
	"verif/harness/sim"
)

type Scenario struct {
	Seed     int64    `json:"seed"`
	N        int      `json:"n"`
	Script   []string `json:"script"` // per request ordinal (arrival order at the broker): ok | silence (this and every later request on the connection is read but never answered) | throttled | wrongcorr | swap | truncated | oversized | negative | short | garbage | close | stall | partial
	Cancel   []int    `json:"cancel"` // request ids whose context is cancelled at CancelMs
	CancelMs int      `json:"cancelMs"`
	BatchMs  int      `json:"batchMs"` // the broker answers what has arrived every BatchMs (pipelining)
	Waves    int      `json:"waves"`   // requests are issued in this many waves, 30 ms apart
	// user hooks that take (virtual) time: OnBrokerWrite after a request was written (before the client registers it as awaiting
	// its answer) and OnBrokerDisconnect while a connection is being torn down. They widen the window in which a request is
	// written on a connection that dies before the request is registered.
	WriteHookMs int `json:"writeHookMs,omitempty"`
	DiscHookMs  int `json:"discHookMs,omitempty"`
}

type slowHooks struct{ writeMs, discMs int }

func (h slowHooks) OnBrokerWrite(_ kgo.BrokerMetadata, key int16, _ int, _, _ time.Duration, _ error) {
	if h.writeMs > 0 && key == int16(kmsg.DescribeGroups) {
		time.Sleep(time.Duration(h.writeMs) * time.Millisecond)
	}
}
func (h slowHooks) OnBrokerDisconnect(kgo.BrokerMetadata, net.Conn) {
	if h.discMs > 0 {
		time.Sleep(time.Duration(h.discMs) * time.Millisecond)
	}
}

var behaviours = []string{"ok", "ok", "ok", "ok", "silence", "silence", "throttled", "wrongcorr", "swap", "truncated", "oversized", "negative", "short", "garbage", "close", "stall", "partial"}

func gen(seed int64) Scenario {
	r := rand.New(rand.NewSource(seed))
	sc := Scenario{Seed: seed, N: 2 + r.Intn(7), BatchMs: []int{0, 5, 5, 20}[r.Intn(4)], Waves: 1 + r.Intn(3)}
	bad := r.Intn(3)
	for i := 0; i < sc.N+4; i++ {
		b := "ok"
		if bad > 0 && r.Intn(4) == 0 {
			b = behaviours[r.Intn(len(behaviours))]
			if b != "ok" && b != "throttled" {
				bad--
			}
		}
		sc.Script = append(sc.Script, b)
	}
	if r.Intn(4) == 0 {
		sc.Cancel = append(sc.Cancel, r.Intn(sc.N))
		sc.CancelMs = r.Intn(30)
	}
	if r.Intn(3) == 0 {
		sc.WriteHookMs = []int{0, 5, 30}[r.Intn(3)]
		sc.DiscHookMs = []int{0, 20, 100}[r.Intn(3)]
		if r.Intn(2) == 0 {
			// the shape the hooks are for: an early request is never answered, a later one makes the broker close the connection
			sc.Script[r.Intn(2)] = "silence"
			sc.Script[2+r.Intn(2)] = "close"
		}
	}
	return sc
}

type pending struct {
	conn    net.Conn
	corr    uint32
	ver     int16
	group   string
	ordinal int
}

type broker struct {
	ln      net.Listener
	rec     *sim.Recorder
	script  []string
	mu      sync.Mutex
	ordinal int
	queue   []pending
	batch   time.Duration
	done    chan struct{}
	silent  map[net.Conn]bool // connections on which the broker has gone silent: it keeps reading, never answers again
}

func (b *broker) accept() {
	for {
		c, err := b.ln.Accept()
		if err != nil {
			return
		}
		go b.read(c)
	}
}

func (b *broker) read(c net.Conn) {
	for {
		var sz [4]byte
		if _, err := io.ReadFull(c, sz[:]); err != nil {
			return
		}
		body := make([]byte, binary.BigEndian.Uint32(sz[:]))
		if _, err := io.ReadFull(c, body); err != nil {
			return
		}
		key := int16(binary.BigEndian.Uint16(body))
		ver := int16(binary.BigEndian.Uint16(body[2:]))
		corr := binary.BigEndian.Uint32(body[4:])
		if key == 18 {
			resp := kmsg.NewPtrApiVersionsResponse()
			resp.SetVersion(min(ver, 3))
			for k := int16(0); k <= kmsg.MaxKey; k++ {
				if r := kmsg.RequestForKey(k); r != nil {
					ak := kmsg.NewApiVersionsResponseApiKey()
					ak.ApiKey, ak.MinVersion, ak.MaxVersion = k, 0, r.MaxVersion()
					resp.ApiKeys = append(resp.ApiKeys, ak)
				}
			}
			out := resp.AppendTo(binary.BigEndian.AppendUint32(nil, corr))
			c.Write(append(binary.BigEndian.AppendUint32(nil, uint32(len(out))), out...))
			continue
		}
		// DescribeGroups: header = key ver corr clientid(nullable string) [tags]; body: groups
		rest := body[8:]
		n := int(int16(binary.BigEndian.Uint16(rest)))
		rest = rest[2:]
		if n > 0 {
			rest = rest[n:]
		}
		req := kmsg.NewPtrDescribeGroupsRequest()
		req.SetVersion(ver)
		if req.IsFlexible() {
			rest = rest[1:]
		}
		group := "?"
		if err := req.ReadFrom(rest); err == nil && len(req.Groups) == 1 {
			group = req.Groups[0]
		}
		b.mu.Lock()
		b.ordinal++
		p := pending{c, corr, ver, group, b.ordinal}
		b.queue = append(b.queue, p)
		b.mu.Unlock()
		b.rec.Ev("broker_recv", "group", group, "ordinal", p.ordinal)
		if b.batch == 0 {
			b.flush()
		}
	}
}

func payloadFor(group string) []byte { return []byte("assignment-of-" + group + "-0123456789") }

func frame(corr uint32, flexible bool, body []byte) []byte {
	out := binary.BigEndian.AppendUint32(nil, corr)
	if flexible {
		out = append(out, 0)
	}
	out = append(out, body...)
	return append(binary.BigEndian.AppendUint32(nil, uint32(len(out))), out...)
}

func okBody(p pending, throttle int32) ([]byte, bool) {
	resp := kmsg.NewPtrDescribeGroupsResponse()
	resp.SetVersion(p.ver)
	resp.ThrottleMillis = throttle
	g := kmsg.NewDescribeGroupsResponseGroup()
	g.Group = p.group
	g.State = "Stable"
	m := kmsg.NewDescribeGroupsResponseGroupMember()
	m.MemberID = "m-" + p.group
	m.MemberAssignment = payloadFor(p.group)
	m.ProtocolMetadata = payloadFor(p.group)
	g.Members = append(g.Members, m)
	resp.Groups = append(resp.Groups, g)
	return resp.AppendTo(nil), resp.IsFlexible()
}

// flush answers everything queued, in arrival order, following the script.
func (b *broker) flush() {
	b.mu.Lock()
	q := b.queue
	b.queue = nil
	b.mu.Unlock()
	for i := 0; i < len(q); i++ {
		p := q[i]
		beh := "ok"
		if p.ordinal-1 < len(b.script) {
			beh = b.script[p.ordinal-1]
		}
		if b.silent[p.conn] {
			beh = "silence"
		}
		if beh == "swap" && i+1 >= len(q) {
			beh = "ok" // nothing to swap with
		}
		b.rec.Ev("broker_send", "group", p.group, "ordinal", p.ordinal, "behaviour", beh)
		body, flex := okBody(p, 0)
		switch beh {
		case "ok":
			p.conn.Write(frame(p.corr, flex, body))
		case "throttled":
			body, _ = okBody(p, 150)
			p.conn.Write(frame(p.corr, flex, body))
		case "wrongcorr":
			p.conn.Write(frame(p.corr+1000, flex, body))
		case "swap": // answer the next request first
			nx := q[i+1]
			nb, _ := okBody(nx, 0)
			p.conn.Write(frame(nx.corr, flex, nb))
			p.conn.Write(frame(p.corr, flex, body))
			b.rec.Ev("broker_send", "group", nx.group, "ordinal", nx.ordinal, "behaviour", "swapped")
			i++
		case "truncated":
			f := frame(p.corr, flex, body)
			p.conn.Write(f[:len(f)/2])
			p.conn.Close()
		case "partial": // half now, the rest later: must still be delivered intact
			f := frame(p.corr, flex, body)
			p.conn.Write(f[:len(f)/2])
			time.Sleep(40 * time.Millisecond)
			p.conn.Write(f[len(f)/2:])
		case "oversized":
			p.conn.Write(binary.BigEndian.AppendUint32(nil, 1<<30))
			p.conn.Write(body)
		case "negative":
			p.conn.Write([]byte{0xff, 0xff, 0xff, 0xf0})
		case "short":
			p.conn.Write([]byte{0, 0, 0, 2, 0, 1})
		case "garbage":
			g := make([]byte, 40)
			for j := range g {
				g[j] = byte(j*37 + 11)
			}
			p.conn.Write(frame(p.corr, flex, g))
		case "close":
			p.conn.Close()
		case "silence":
			b.mu.Lock()
			b.silent[p.conn] = true
			b.mu.Unlock()
		case "stall":
			// never answered
		}
	}
}

func (b *broker) ticker() {
	if b.batch == 0 {
		return
	}
	for {
		select {
		case <-b.done:
			return
		case <-time.After(b.batch):
			b.flush()
		}
	}
}

func runScenario(t *testing.T, rec *sim.Recorder, sc Scenario) {
	synctest.Test(t, func(t *testing.T) {
		rec.ResetSeq()
		js, _ := json.Marshal(sc)
		rec.Ev("reset", "scenario", string(js), "n", sc.N)
		var vnet kfake.VirtualNetwork
		ln, err := vnet.Listen("tcp", "127.0.0.1:9092")
		if err != nil {
			t.Fatal(err)
		}
		b := &broker{ln: ln, rec: rec, script: sc.Script, silent: map[net.Conn]bool{}, batch: time.Duration(sc.BatchMs) * time.Millisecond, done: make(chan struct{})}
		go b.accept()
		go b.ticker()
		cl, err := kgo.NewClient(kgo.SeedBrokers("127.0.0.1:9092"), kgo.Dialer(vnet.DialContext), kgo.RequestRetries(0), kgo.DisableClientMetrics(),
			kgo.RequestTimeoutOverhead(2*time.Second), kgo.BrokerMaxReadBytes(1<<20), kgo.FetchMaxBytes(1<<19), kgo.WithHooks(slowHooks{sc.WriteHookMs, sc.DiscHookMs}))
		if err != nil {
			t.Fatal(err)
		}
		var wg sync.WaitGroup
		type outcome struct {
			resp *kmsg.DescribeGroupsResponse
			err  error
		}
		results := make([]outcome, sc.N)
		cancels := map[int]context.CancelFunc{}
		ctxs := map[int]context.Context{}
		for i := 0; i < sc.N; i++ {
			ctxs[i], cancels[i] = context.WithCancel(context.Background())
		}
		start := time.Now()
		if len(sc.Cancel) > 0 {
			go func() {
				time.Sleep(time.Duration(sc.CancelMs) * time.Millisecond)
				for _, id := range sc.Cancel {
					rec.Ev("cancel", "id", id)
					cancels[id]()
				}
			}()
		}
		for i := 0; i < sc.N; i++ {
			if sc.Waves > 1 && i > 0 && i%((sc.N+sc.Waves-1)/sc.Waves) == 0 {
				time.Sleep(30 * time.Millisecond)
			}
			ctx := ctxs[i]
			wg.Add(1)
			rec.Ev("issue", "id", i, "group", fmt.Sprintf("g%d", i))
			go func() {
				defer wg.Done()
				req := kmsg.NewPtrDescribeGroupsRequest()
				req.Groups = []string{fmt.Sprintf("g%d", i)}
				calls := 0
				func() {
					defer func() {
						if r := recover(); r != nil {
							rec.Ev("panic", "id", i, "what", fmt.Sprint(r))
						}
					}()
					resp, err := cl.SeedBrokers()[0].Request(ctx, req)
					calls++
					if dr, ok := resp.(*kmsg.DescribeGroupsResponse); ok {
						results[i].resp = dr
					}
					results[i].err = err
				}()
				errs := ""
				if results[i].err != nil {
					errs = results[i].err.Error()
				}
				rec.Ev("complete", "id", i, "ok", results[i].err == nil && results[i].resp != nil, "err", errs, "ms", time.Since(start).Milliseconds())
			}()
		}
		fin := make(chan struct{})
		go func() { wg.Wait(); close(fin) }()
		select {
		case <-fin:
		case <-time.After(2 * time.Minute):
			rec.Ev("stuck", "ms", time.Since(start).Milliseconds())
		}
		// payloads are compared only now, after every later response has been read on the shared connection
		for i, r := range results {
			if r.err == nil && r.resp != nil {
				want := fmt.Sprintf("g%d", i)
				match := len(r.resp.Groups) == 1 && r.resp.Groups[0].Group == want && len(r.resp.Groups[0].Members) == 1 &&
					string(r.resp.Groups[0].Members[0].MemberAssignment) == string(payloadFor(want)) && string(r.resp.Groups[0].Members[0].ProtocolMetadata) == string(payloadFor(want))
				got := ""
				if len(r.resp.Groups) == 1 && len(r.resp.Groups[0].Members) == 1 {
					got = r.resp.Groups[0].Group + ":" + string(r.resp.Groups[0].Members[0].MemberAssignment)
				}
				rec.Ev("payload", "id", i, "match", match, "got", got)
			}
		}
		rec.Ev("end")
		close(b.done)
		cl.Close()
		ln.Close()
		for _, c := range cancels {
			c()
		}
		time.Sleep(5 * time.Second)
		synctest.Wait()
	})
}

func TestScenarios(t *testing.T) {
	rec, err := sim.NewRecorder(os.Getenv("VERIF_OUT"))
	if err != nil {
		t.Fatal(err)
	}
	defer rec.Close()
	var scs []Scenario
	if p := os.Getenv("VERIF_SCENARIOS"); p != "" {
		if scs, err = raw.ReadNDJSON[Scenario](p); err != nil {
			t.Fatal(err)
		}
	} else {
		n := raw.EnvInt("VERIF_N", 20)
		seed := int64(raw.EnvInt("VERIF_SEED", 1))
		for i := 0; i < n; i++ {
			scs = append(scs, gen(seed*100000+int64(i)))
		}
	}
	for i, sc := range scs {
		if ok := t.Run(fmt.Sprintf("s%d", i), func(t *testing.T) { runScenario(t, rec, sc) }); !ok {
			rec.Ev("driver_failed", "scenario", i)
		}
	}
	raw.Emit(map[string]any{"kind": "stat", "scenarios": len(scs), "events": rec.N})
}
