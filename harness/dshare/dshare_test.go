package dshare

// D-SHARE: C12 — share-group acknowledgements. Real kgo share consumers run against kfake (virtual time). Every record
// delivery (offset, delivery count, member), every Ack / MarkAcks call, every acknowledgement batch that reaches a broker
// (decoded from the ShareFetch / ShareAcknowledge request frames), every acknowledgement callback and FlushAcks call is
// recorded and validated by TLC against spec/ShareTrace.tla.

import (
	"context"
	"encoding/binary"
	"encoding/json"
	"fmt"
	"math/rand"
	"os"
	"strconv"
	"strings"
	"sync"
	"testing"
	"testing/synctest"
	"time"

	"github.com/twmb/franz-go/pkg/kerr"
	"github.com/twmb/franz-go/pkg/kfake"
	"github.com/twmb/franz-go/pkg/kgo"
	"github.com/twmb/franz-go/pkg/kmsg"
	"verif/harness/raw"
	"verif/harness/sim"
)

type Step struct {
	Op   string `json:"op"` // produce | poll | ack | mark | flush | sleep | join | close | move | reset
	M    int    `json:"m,omitempty"`
	N    int    `json:"n,omitempty"`
	Kind int    `json:"kind,omitempty"` // ack status 1..4
	Pick int    `json:"pick,omitempty"` // which of the held records (index selection seed)
	Ms   int    `json:"ms,omitempty"`
}

type Scenario struct {
	Seed  int64  `json:"seed"`
	Steps []Step `json:"steps"`
}

func gen(seed int64) Scenario {
	r := rand.New(rand.NewSource(seed))
	sc := Scenario{Seed: seed}
	sc.Steps = append(sc.Steps, Step{Op: "produce", N: 4 + r.Intn(6)}, Step{Op: "join", M: 1})
	live := map[int]bool{1: true}
	n := 6 + r.Intn(10)
	staleAt := -1
	if r.Intn(3) == 0 {
		staleAt = r.Intn(n)
	}
	moveAckAt := -1
	if r.Intn(4) == 0 {
		moveAckAt = r.Intn(n)
	}
	renewAt := -1
	if r.Intn(3) == 0 {
		renewAt = r.Intn(n)
	}
	for i := 0; i < n; i++ {
		m := 1 + r.Intn(2)
		if i == moveAckAt && live[1] {
			// records are delivered, the partition leaders move, and the acknowledgements leave at once (to the old leaders, before the
			// client has learned about the move): what the old leader answers must be what the callback reports
			sc.Steps = append(sc.Steps, Step{Op: "produce", N: 6}, Step{Op: "sleep", Ms: 200}, Step{Op: "poll", M: 1, N: 3},
				Step{Op: "move", N: 0}, Step{Op: "move", N: 1}, Step{Op: "ack", M: 1, Kind: 1, Pick: 0, N: 4}, Step{Op: "flush", M: 1},
				Step{Op: "sleep", Ms: 300}, Step{Op: "poll", M: 1, N: 3})
		}
		if i == renewAt && live[1] {
			// a renew goes out, and while it is in flight (answer 2 ms away) the final decision is made; twice, at two
			// different points of the window, then everything is flushed and the member polls again
			sc.Steps = append(sc.Steps, Step{Op: "poll", M: 1, N: 3},
				Step{Op: "renewthen", M: 1, Kind: 1 + r.Intn(3), Pick: 0, Ms: []int{300, 600, 900, 1200, 1500, 1800}[r.Intn(6)]}, Step{Op: "flush", M: 1},
				Step{Op: "renewthen", M: 1, Kind: 1 + r.Intn(3), Pick: 1, Ms: []int{300, 600, 900, 1200, 1500, 1800}[r.Intn(6)]}, Step{Op: "flush", M: 1},
				Step{Op: "sleep", Ms: 100}, Step{Op: "poll", M: 1, N: 2})
		}
		if i == staleAt && live[1] {
			// records held unacknowledged across a leader move (or session reset) are acknowledged afterwards: those
			// acknowledgements are stale; a fresh record polled and acknowledged after that must still be flushed properly
			fault := Step{Op: "move", N: r.Intn(2)}
			if r.Intn(3) == 0 {
				fault = Step{Op: "reset"}
			}
			sc.Steps = append(sc.Steps, Step{Op: "poll", M: 1, N: 4}, fault, Step{Op: "move", N: r.Intn(2)}, Step{Op: "sleep", Ms: 300},
				Step{Op: "ack", M: 1, Kind: 1, Pick: 0, N: 4}, Step{Op: "flush", M: 1}, Step{Op: "produce", N: 3}, Step{Op: "sleep", Ms: 200},
				Step{Op: "poll", M: 1, N: 2}, Step{Op: "ack", M: 1, Kind: 1, Pick: 0, N: 2}, Step{Op: "flush", M: 1})
		}
		switch x := r.Intn(20); {
		case x < 5:
			if live[m] {
				sc.Steps = append(sc.Steps, Step{Op: "poll", M: m, N: 1 + r.Intn(4)})
			}
		case x < 9:
			if live[m] {
				sc.Steps = append(sc.Steps, Step{Op: "ack", M: m, Kind: []int{1, 1, 2, 3, 4, 4}[r.Intn(6)], Pick: r.Intn(100), N: 1 + r.Intn(3)})
			}
		case x < 10 && r.Intn(3) == 0:
			if live[m] {
				// a renew, and while it is on its way to the broker (not yet confirmed) the final decision
				sc.Steps = append(sc.Steps, Step{Op: "renewthen", M: m, Kind: 1 + r.Intn(3), Pick: r.Intn(100), Ms: []int{0, 900, 1800, 2100, 2400, 2700, 3000, 3300, 3600, 4000, 6000}[r.Intn(11)]}, Step{Op: "flush", M: m})
			}
		case x < 11:
			if live[m] {
				sc.Steps = append(sc.Steps, Step{Op: "mark", M: m, Kind: 1 + r.Intn(4), Pick: r.Intn(100), N: 1 + r.Intn(3)})
			}
		case x < 13:
			if live[m] {
				sc.Steps = append(sc.Steps, Step{Op: "flush", M: m})
			}
		case x < 15:
			sc.Steps = append(sc.Steps, Step{Op: "produce", N: 1 + r.Intn(5)})
		case x < 16:
			sc.Steps = append(sc.Steps, Step{Op: "sleep", Ms: 20 + r.Intn(400)})
		case x < 17:
			if !live[m] {
				live[m] = true
				sc.Steps = append(sc.Steps, Step{Op: "join", M: m})
			}
		case x < 18:
			if live[m] && len(live) > 1 {
				delete(live, m)
				sc.Steps = append(sc.Steps, Step{Op: "close", M: m})
			}
		case x < 19:
			sc.Steps = append(sc.Steps, Step{Op: "move", N: r.Intn(2)})
		default:
			sc.Steps = append(sc.Steps, Step{Op: "reset"})
		}
	}
	return sc
}

type member struct {
	cl   *kgo.Client
	held []*kgo.Record // records of earlier polls this member may still acknowledge
}

func idOf(r *kgo.Record) int {
	var id int
	fmt.Sscanf(string(r.Value), "r%d", &id)
	return id
}

func runScenario(t *testing.T, rec *sim.Recorder, sc Scenario) {
	synctest.Test(t, func(t *testing.T) {
		rec.ResetSeq()
		js, _ := json.Marshal(sc)
		rec.Ev("reset", "scenario", string(js))
		var vnet kfake.VirtualNetwork
		chaos := sim.NewChaos()
		chaos.Latency = 2 * time.Millisecond // also the width of the window in which a request is in flight
		c, err := kfake.NewCluster(kfake.NumBrokers(2), kfake.SeedTopics(2, "s"), kfake.ListenFn(chaos.Listen(vnet.Listen)), kfake.Ports(9092, 9093))
		if err != nil {
			t.Fatal(err)
		}
		ctx, cancel := context.WithTimeout(context.Background(), 30*time.Minute)
		defer cancel()
		base := []kgo.Opt{kgo.SeedBrokers(c.ListenAddrs()...), kgo.Dialer(vnet.DialContext), kgo.DisableClientMetrics(), kgo.MetadataMinAge(20 * time.Millisecond),
			kgo.RetryBackoffFn(func(int) time.Duration { return 20 * time.Millisecond })}
		p, _ := kgo.NewClient(append(base, kgo.DefaultProduceTopic("s"), kgo.RecordPartitioner(kgo.ManualPartitioner()))...)
		defer p.Close()
		{
			req := kmsg.NewPtrIncrementalAlterConfigsRequest()
			res := kmsg.NewIncrementalAlterConfigsRequestResource()
			res.ResourceType, res.ResourceName = kmsg.ConfigResourceTypeGroupConfig, "sg"
			cfg := kmsg.NewIncrementalAlterConfigsRequestResourceConfig()
			cfg.Name, cfg.Op, cfg.Value = "share.auto.offset.reset", 0, kmsg.StringPtr("earliest")
			res.Configs = append(res.Configs, cfg)
			req.Resources = append(req.Resources, res)
			if resp, err := req.RequestWith(ctx, p); err != nil || kerr.ErrorForCode(resp.Resources[0].ErrorCode) != nil {
				t.Fatalf("share.auto.offset.reset: %v", err)
			}
		}
		ids := c.TopicInfo("s")
		// every acknowledgement batch that reaches a broker
		type pendInfo struct {
			client  string
			key     int16
			version int16
			ord     map[int32]int // partition -> ordinal of this request among the member's acknowledgement requests for it
		}
		var pmu sync.Mutex
		pend := map[[2]int]pendInfo{}
		sentOrd := map[string]int{}
		// what the broker answers to acknowledgements: a per-partition error code means the acknowledgement was refused
		chaos.OnResp = func(conn int, corr int32, f []byte) {
			pmu.Lock()
			pi, ok := pend[[2]int{conn, int(corr)}]
			delete(pend, [2]int{conn, int(corr)})
			pmu.Unlock()
			if !ok || len(f) < 5 {
				return
			}
			body := f[5:] // correlation id, header tags (both responses are flexible in every version)
			refused := map[int32]int16{}
			top := int16(0)
			if pi.key == int16(kmsg.ShareFetch) {
				resp := kmsg.NewPtrShareFetchResponse()
				resp.SetVersion(pi.version)
				if err := resp.ReadFrom(body); err != nil {
					return
				}
				top = resp.ErrorCode
				for _, rt := range resp.Topics {
					for _, rp := range rt.Partitions {
						if rp.AcknowledgeErrorCode != 0 {
							refused[rp.Partition] = rp.AcknowledgeErrorCode
						}
					}
				}
			} else {
				resp := kmsg.NewPtrShareAcknowledgeResponse()
				resp.SetVersion(pi.version)
				if err := resp.ReadFrom(body); err != nil {
					return
				}
				top = resp.ErrorCode
				for _, rt := range resp.Topics {
					for _, rp := range rt.Partitions {
						if rp.ErrorCode != 0 {
							refused[rp.Partition] = rp.ErrorCode
						}
					}
				}
			}
			for p, n := range pi.ord {
				code := refused[p]
				if code == 0 {
					code = top
				}
				if code != 0 {
					rec.Ev("acks_refused", "m", pi.client, "p", p, "n", n, "code", code)
				}
			}
		}
		chaos.OnFrame2 = func(conn int, corr int32, key, version int16, f []byte) {
			if key != int16(kmsg.ShareFetch) && key != int16(kmsg.ShareAcknowledge) {
				return
			}
			// header: key ver corr clientid(nullable string) tags
			body := f[8:]
			n := int(int16(binary.BigEndian.Uint16(body)))
			body = body[2:]
			client := ""
			if n > 0 {
				client = string(body[:n])
				body = body[n:]
			}
			body = body[1:] // header tags (both requests are flexible in every version)
			type batch struct {
				P     int32  `json:"p"`
				First int64  `json:"first"`
				Last  int64  `json:"last"`
				Types []int8 `json:"types"`
			}
			var bs []batch
			member := ""
			if key == int16(kmsg.ShareFetch) {
				req := kmsg.NewPtrShareFetchRequest()
				req.SetVersion(version)
				if err := req.ReadFrom(body); err != nil {
					rec.Ev("frame_undecodable", "key", key, "err", err.Error())
					return
				}
				if req.MemberID != nil {
					member = *req.MemberID
				}
				for _, rt := range req.Topics {
					for _, rp := range rt.Partitions {
						for _, ab := range rp.AcknowledgementBatches {
							bs = append(bs, batch{rp.Partition, ab.FirstOffset, ab.LastOffset, ab.AcknowledgeTypes})
						}
					}
				}
			} else {
				req := kmsg.NewPtrShareAcknowledgeRequest()
				req.SetVersion(version)
				if err := req.ReadFrom(body); err != nil {
					rec.Ev("frame_undecodable", "key", key, "err", err.Error())
					return
				}
				if req.MemberID != nil {
					member = *req.MemberID
				}
				for _, rt := range req.Topics {
					for _, rp := range rt.Partitions {
						for _, ab := range rp.AcknowledgementBatches {
							bs = append(bs, batch{rp.Partition, ab.FirstOffset, ab.LastOffset, ab.AcknowledgeTypes})
						}
					}
				}
			}
			if len(bs) > 0 {
				_ = member
				pmu.Lock()
				ord := map[int32]int{}
				for _, b := range bs {
					if _, ok := ord[b.P]; !ok {
						sentOrd[fmt.Sprintf("%s/%d", client, b.P)]++
						ord[b.P] = sentOrd[fmt.Sprintf("%s/%d", client, b.P)]
					}
				}
				pend[[2]int{conn, int(corr)}] = pendInfo{client, key, version, ord}
				rec.Ev("acks_sent", "m", client, "batches", bs, "standalone", key == int16(kmsg.ShareAcknowledge))
				pmu.Unlock()
			}
		}
		_ = ids
		members := map[int]*member{}
		nextID := 0
		var mu sync.Mutex
		for _, st := range sc.Steps {
			switch st.Op {
			case "produce":
				for i := 0; i < st.N; i++ {
					nextID++
					part := int32(nextID % 2)
					r := &kgo.Record{Value: []byte(fmt.Sprintf("r%d", nextID)), Partition: part}
					if err := p.ProduceSync(ctx, r).FirstErr(); err != nil {
						t.Fatalf("produce: %v", err)
					}
					rec.Ev("produced", "id", nextID, "p", part, "o", r.Offset)
				}
			case "join":
				name := fmt.Sprintf("m%d", st.M)
				cl, err := kgo.NewClient(append(base, kgo.ClientID(name), kgo.ConsumeTopics("s"), kgo.ShareGroup("sg"), kgo.FetchMaxWait(100*time.Millisecond), kgo.ShareMaxRecords(3),
					kgo.ShareAckCallback(func(_ *kgo.Client, rs kgo.ShareAckResults) {
						type res struct {
							P   int32  `json:"p"`
							Err string `json:"err"`
						}
						var out []res
						for _, r := range rs {
							e := ""
							if r.Err != nil {
								e = r.Err.Error()
							}
							out = append(out, res{r.Partition, e})
						}
						rec.Ev("ack_callback", "m", name, "results", out)
					}))...)
				if err != nil {
					t.Fatal(err)
				}
				members[st.M] = &member{cl: cl}
				rec.Ev("join", "m", name)
			case "poll":
				mb := members[st.M]
				if mb == nil {
					continue
				}
				name := fmt.Sprintf("m%d", st.M)
				pctx, pc := context.WithTimeout(ctx, 400*time.Millisecond)
				fs := mb.cl.PollRecords(pctx, st.N)
				pc()
				type d struct {
					P  int32 `json:"p"`
					O  int64 `json:"o"`
					ID int   `json:"id"`
					DC int32 `json:"dc"`
				}
				ds := []d{}
				mu.Lock()
				mb.held = mb.held[:0] // records of an earlier poll that were not acknowledged are auto-accepted by this poll
				fs.EachRecord(func(r *kgo.Record) {
					ds = append(ds, d{r.Partition, r.Offset, idOf(r), r.DeliveryCount()})
					mb.held = append(mb.held, r)
				})
				mu.Unlock()
				rec.Ev("polled", "m", name, "recs", ds)
			case "ack", "mark":
				mb := members[st.M]
				if mb == nil || len(mb.held) == 0 {
					continue
				}
				name := fmt.Sprintf("m%d", st.M)
				var rs []*kgo.Record
				for i := 0; i < st.N && i < len(mb.held); i++ {
					rs = append(rs, mb.held[(st.Pick+i)%len(mb.held)])
				}
				type a struct {
					P int32 `json:"p"`
					O int64 `json:"o"`
				}
				var as []a
				for _, r := range rs {
					as = append(as, a{r.Partition, r.Offset})
				}
				rec.Ev("ack_call", "m", name, "status", st.Kind, "recs", as, "via", st.Op)
				if st.Op == "ack" {
					for _, r := range rs {
						r.Ack(kgo.AckStatus(st.Kind))
					}
				} else {
					mb.cl.MarkAcks(kgo.AckStatus(st.Kind), rs...)
				}
			case "renewthen":
				mb := members[st.M]
				if mb == nil || len(mb.held) == 0 {
					continue
				}
				name := fmt.Sprintf("m%d", st.M)
				r := mb.held[st.Pick%len(mb.held)]
				type a struct {
					P int32 `json:"p"`
					O int64 `json:"o"`
				}
				rec.Ev("ack_call", "m", name, "status", 4, "recs", []a{{r.Partition, r.Offset}}, "via", "ack")
				r.Ack(kgo.AckRenew)
				go mb.cl.FlushAcks(ctx) // pushes the renew out now; not waited for
				time.Sleep(time.Duration(st.Ms) * time.Microsecond)
				rec.Ev("ack_call", "m", name, "status", st.Kind, "recs", []a{{r.Partition, r.Offset}}, "via", "ack")
				r.Ack(kgo.AckStatus(st.Kind))
			case "flush":
				mb := members[st.M]
				if mb == nil {
					continue
				}
				name := fmt.Sprintf("m%d", st.M)
				rec.Ev("flush_call", "m", name)
				fctx, fc := context.WithTimeout(ctx, 20*time.Second)
				err := mb.cl.FlushAcks(fctx)
				fc()
				rec.Ev("flush_ret", "m", name, "err", fmt.Sprint(err))
			case "sleep":
				time.Sleep(time.Duration(st.Ms) * time.Millisecond)
			case "close":
				mb := members[st.M]
				if mb == nil {
					continue
				}
				name := fmt.Sprintf("m%d", st.M)
				rec.Ev("close_call", "m", name)
				mb.cl.Close()
				rec.Ev("closed", "m", name)
				delete(members, st.M)
			case "move":
				part := int32(st.N)
				to := int32(0)
				if c.LeaderFor("s", part) == 0 {
					to = 1
				}
				c.MoveTopicPartition("s", part, to)
				rec.Ev("moved", "p", part)
			case "reset":
				n := 1
				c.ControlKey(int16(kmsg.ShareFetch), func(kreq kmsg.Request) (kmsg.Response, error, bool) {
					n--
					c.DropControl()
					req := kreq.(*kmsg.ShareFetchRequest)
					resp := req.ResponseKind().(*kmsg.ShareFetchResponse)
					resp.ErrorCode = kerr.InvalidShareSessionEpoch.Code
					return resp, nil, true
				})
				rec.Ev("session_reset")
			}
			synctest.Wait()
		}
		// settle: members flush what they hold and close; a fresh member then drains the topic, accepting everything
		for m, mb := range members {
			name := fmt.Sprintf("m%d", m)
			rec.Ev("close_call", "m", name)
			mb.cl.Close()
			rec.Ev("closed", "m", name)
		}
		time.Sleep(500 * time.Millisecond)
		synctest.Wait()
		chaos.OnFrame2, chaos.OnResp = nil, nil
		c.Close()
		rec.Ev("end")
		time.Sleep(2 * time.Second)
		synctest.Wait()
	})
}

func TestScenarios(t *testing.T) {
	rec, err := sim.NewRecorder(os.Getenv("VERIF_OUT"))
	if err != nil {
		t.Fatal(err)
	}
	defer rec.Close()
	var scs []Scenario
	if p := os.Getenv("VERIF_SCENARIOS"); p != "" {
		if scs, err = raw.ReadNDJSON[Scenario](p); err != nil {
			t.Fatal(err)
		}
	} else {
		n := raw.EnvInt("VERIF_N", 20)
		from := raw.EnvInt("VERIF_FROM", 0)
		seed := int64(raw.EnvInt("VERIF_SEED", 1))
		skip := map[int]bool{}
		for _, f := range strings.Split(os.Getenv("VERIF_SKIP"), ",") {
			if k, err := strconv.Atoi(f); err == nil {
				skip[k] = true
			}
		}
		for i := from; i < n; i++ {
			if !skip[i] {
				scs = append(scs, gen(seed*100000+int64(i)))
			}
		}
	}
	for i, sc := range scs {
		if ok := t.Run(fmt.Sprintf("s%d", i), func(t *testing.T) { runScenario(t, rec, sc) }); !ok {
			rec.Ev("driver_failed", "scenario", i)
		}
	}
	raw.Emit(map[string]any{"kind": "stat", "scenarios": len(scs), "events": rec.N})
}
