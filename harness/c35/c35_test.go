package c35

// Oracle evaluation (binding O1) for C35: spec/Lag.tla enumerates group/commit/listing
// situations and the expected lag; this runner builds the kadm inputs and compares
// CalculateGroupLag, CalculateGroupLagWithStartOffsets, Total and TotalByTopic.

import (
	"errors"
	"fmt"
	"os"
	"sort"
	"strconv"
	"strings"
	"testing"

	"github.com/twmb/franz-go/pkg/kadm"
	"github.com/twmb/franz-go/pkg/kmsg"
	"verif/harness/raw"
)

type pstate struct {
	Asg    int   `json:"asg"`
	Commit int64 `json:"commit"`
	End    int64 `json:"end"`
	Start  int64 `json:"start"`
}
type pexp struct {
	Covered  bool  `json:"covered"`
	Err      bool  `json:"err"`
	Lag      int64 `json:"lag"`
	LagStart int64 `json:"lagStart"`
}
type caseT struct {
	In  map[string]pstate `json:"in"`
	Exp map[string]pexp   `json:"exp"`
}
type viol struct {
	Kind string `json:"kind"`
	Key  string `json:"key"`
	What string `json:"what"`
	Case int    `json:"case"`
}

var errX = errors.New("injected error")

func split(k string) (string, int32) {
	i := strings.IndexByte(k, '/')
	p, _ := strconv.Atoi(k[i+1:])
	return k[:i], int32(p)
}

func build(c caseT) (kadm.DescribedGroup, kadm.OffsetResponses, kadm.ListedOffsets, kadm.ListedOffsets) {
	keys := make([]string, 0, len(c.In))
	for k := range c.In {
		keys = append(keys, k)
	}
	sort.Strings(keys)
	g := kadm.DescribedGroup{Group: "g", State: "Stable", ProtocolType: "consumer"}
	commit := kadm.OffsetResponses{}
	start, end := kadm.ListedOffsets{}, kadm.ListedOffsets{}
	asg := map[int]map[string][]int32{}
	for _, k := range keys {
		s := c.In[k]
		t, p := split(k)
		if s.Asg != 0 {
			if asg[s.Asg] == nil {
				asg[s.Asg] = map[string][]int32{}
			}
			asg[s.Asg][t] = append(asg[s.Asg][t], p)
		}
		if s.Commit != -1 {
			if commit[t] == nil {
				commit[t] = map[int32]kadm.OffsetResponse{}
			}
			o := kadm.OffsetResponse{Offset: kadm.Offset{Topic: t, Partition: p, At: s.Commit, LeaderEpoch: -1}}
			if s.Commit == -2 {
				o.At, o.Err = -1, errX
			}
			commit[t][p] = o
		}
		put := func(m kadm.ListedOffsets, v int64) {
			if v == -1 {
				return
			}
			if m[t] == nil {
				m[t] = map[int32]kadm.ListedOffset{}
			}
			lo := kadm.ListedOffset{Topic: t, Partition: p, Timestamp: -1, Offset: v, LeaderEpoch: -1}
			if v == -2 {
				lo.Offset, lo.Err = -1, errX
			}
			m[t][p] = lo
		}
		put(end, s.End)
		put(start, s.Start)
	}
	for _, m := range []int{1, 2} {
		if asg[m] == nil {
			continue
		}
		a := kmsg.NewConsumerMemberAssignment()
		meta := kmsg.NewConsumerMemberMetadata()
		ts := make([]string, 0)
		for t := range asg[m] {
			ts = append(ts, t)
		}
		sort.Strings(ts)
		for _, t := range ts {
			at := kmsg.NewConsumerMemberAssignmentTopic()
			at.Topic = t
			at.Partitions = asg[m][t]
			a.Topics = append(a.Topics, at)
			meta.Topics = append(meta.Topics, t)
		}
		g.Members = append(g.Members, kadm.DescribedGroupMember{
			MemberID: fmt.Sprintf("m%d", m), ClientID: "c", ClientHost: "h",
			Join: kadm.VerifConsumerMetadata(&meta), Assigned: kadm.VerifConsumerAssignment(&a),
		})
	}
	return g, commit, start, end
}

func TestOracle(t *testing.T) {
	cases, err := raw.ReadNDJSON[caseT](os.Getenv("VERIF_IN"))
	if err != nil || len(cases) == 0 {
		t.Fatalf("no cases: %v", err)
	}
	nviol, evals, nontrivial := 0, 0, 0
	report := func(ci int, key, what string) {
		nviol++
		if nviol <= 60 {
			raw.Emit(viol{"viol", key, what, ci})
		}
	}
	for ci, c := range cases {
		g, commit, start, end := build(c)
		interesting := false
		for variant := 0; variant < 2; variant++ {
			var lag kadm.GroupLag
			name := "CalculateGroupLag"
			if variant == 0 {
				lag = kadm.CalculateGroupLag(g, commit, end)
			} else {
				lag = kadm.CalculateGroupLagWithStartOffsets(g, commit, start, end)
				name = "CalculateGroupLagWithStartOffsets"
			}
			// each reported (topic, partition) once: Sorted() must not repeat and must agree with Lookup
			seen := map[string]int{}
			var sum int64
			byTopic := map[string]int64{}
			for _, l := range lag.Sorted() {
				k := fmt.Sprintf("%s/%d", l.Topic, l.Partition)
				seen[k]++
				if l.Lag > 0 {
					sum += l.Lag
					byTopic[l.Topic] += l.Lag
				}
			}
			for k, e := range c.Exp {
				if !e.Covered {
					continue // listed-only partitions are outside the property
				}
				evals++
				tt, p := split(k)
				l, ok := lag.Lookup(tt, p)
				if !ok || seen[k] != 1 {
					report(ci, name+" missing", fmt.Sprintf("%s: %s (assigned or committed) reported %d times; input %+v", name, k, seen[k], c.In))
					continue
				}
				want := e.Lag
				if variant == 1 {
					want = e.LagStart
				}
				if want != e.Lag || want > 0 {
					interesting = true
				}
				if l.Lag != want || (l.Err != nil) != e.Err || (l.Lag == -1) != e.Err {
					report(ci, fmt.Sprintf("%s lag", name), fmt.Sprintf("%s: %s lag=%d err=%v, expected lag=%d err=%v; input %+v", name, k, l.Lag, l.Err, want, e.Err, c.In))
				}
			}
			if got := lag.Total(); got != sum {
				report(ci, name+" total", fmt.Sprintf("%s: Total()=%d but the non-negative lags sum to %d; input %+v", name, got, sum, c.In))
			}
			for tt, tl := range lag.TotalByTopic() {
				if tl.Lag != byTopic[tt] || tl.Topic != tt {
					report(ci, name+" totalByTopic", fmt.Sprintf("%s: TotalByTopic[%s]=%d but lags sum to %d; input %+v", name, tt, tl.Lag, byTopic[tt], c.In))
				}
			}
		}
		if interesting {
			nontrivial++
		}
	}
	raw.Emit(map[string]any{"kind": "stat", "cases": len(cases), "evaluations": evals, "nontrivial": nontrivial, "violations": nviol})
}
