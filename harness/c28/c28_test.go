package c28

// C28: (a) oracle evaluation of the key hashers against spec/Partitioner.tla (murmur2, Kafka and Sarama arithmetic),
// (b) recorded call traces of the stateful partitioners for validation against spec/PartSM.tla.

import (
	"encoding/binary"
	"encoding/json"
	"fmt"
	"os"
	"strconv"
	"strings"
	"testing"

	"github.com/twmb/franz-go/pkg/kgo"
	"verif/harness/raw"
)

type caseT struct {
	Kind  string         `json:"kind"`
	Key   []int          `json:"key"`
	Hash  []int          `json:"hash"`
	Picks map[string]int `json:"picks"`
	Kafka map[string]int `json:"kafka"`
}
type viol struct {
	Kind string `json:"kind"`
	Key  string `json:"key"`
	What string `json:"what"`
	Case int    `json:"case"`
}

func TestOracle(t *testing.T) {
	cases, err := raw.ReadNDJSON[caseT](os.Getenv("VERIF_IN"))
	if err != nil || len(cases) == 0 {
		t.Fatalf("no cases: %v", err)
	}
	nviol, evals, nontrivial := 0, 0, 0
	report := func(ci int, key, what string) {
		nviol++
		if nviol <= 40 {
			raw.Emit(viol{"viol", key, what, ci})
		}
	}
	def := kgo.StickyKeyPartitioner(nil).ForTopic("t")
	uni := kgo.UniformBytesPartitioner(64, false, true, nil).ForTopic("t").(kgo.TopicBackupPartitioner)
	for ci, c := range cases {
		switch c.Kind {
		case "key":
			key := make([]byte, len(c.Key))
			for i, v := range c.Key {
				key[i] = byte(v)
			}
			if len(key) > 3 {
				nontrivial++
			}
			for ns, want := range c.Picks {
				n, _ := strconv.Atoi(ns)
				evals++
				rec := &kgo.Record{Key: key}
				got := def.Partition(rec, n)
				got2 := def.Partition(&kgo.Record{Key: append(make([]byte, 0, len(key)+1), key...)}, n) // equal keys, equal partition
				got3 := uni.PartitionByBackup(rec, n, nil)
				if got != want || got2 != want || got3 != want || !def.RequiresConsistency(rec) {
					report(ci, "default key hasher", fmt.Sprintf("key % x n=%d: partitions %d/%d/%d, Kafka's murmur2 placement is %d (hash bytes %v)", key, n, got, got2, got3, want, c.Hash))
				}
			}
		case "sarama":
			h := binary.LittleEndian.Uint32([]byte{byte(c.Hash[0]), byte(c.Hash[1]), byte(c.Hash[2]), byte(c.Hash[3])})
			fn := func([]byte) uint32 { return h }
			nontrivial++
			for ns, want := range c.Picks {
				n, _ := strconv.Atoi(ns)
				evals++
				if got := kgo.SaramaCompatHasher(fn)([]byte("k"), n); got != want {
					report(ci, "SaramaCompatHasher", fmt.Sprintf("hash %#x n=%d: SaramaCompatHasher picks %d, Sarama's signed arithmetic gives %d", h, n, got, want))
				}
				if got := kgo.KafkaHasher(fn)([]byte("k"), n); got != c.Kafka[ns] {
					report(ci, "KafkaHasher", fmt.Sprintf("hash %#x n=%d: KafkaHasher picks %d, (h&0x7fffffff)%%n gives %d", h, n, got, c.Kafka[ns]))
				}
				if got := kgo.SaramaHasher(fn)([]byte("k"), n); got < 0 || got >= n {
					report(ci, "SaramaHasher range", fmt.Sprintf("hash %#x n=%d: SaramaHasher picks %d", h, n, got))
				}
			}
		}
	}
	raw.Emit(map[string]any{"kind": "stat", "cases": len(cases), "evaluations": evals, "nontrivial": nontrivial, "violations": nviol})
}

type backupIter struct{ b []int64 }

func (i *backupIter) Next() (int, int64) {
	last := len(i.b) - 1
	v := i.b[last]
	i.b = i.b[:last]
	return last, v
}
func (i *backupIter) Rem() int { return len(i.b) }

// Every sequence of 5 operations over {Partition(n) for n in 1..3, with a shrinking or growing n, NewBatch} on each
// stateful partitioner; the calls and results are written as one trace file.
func TestTraces(t *testing.T) {
	f, err := os.Create(os.Getenv("VERIF_OUT"))
	if err != nil {
		t.Fatal(err)
	}
	defer f.Close()
	enc := json.NewEncoder(f)
	const limit = 40
	kinds := map[string]func() kgo.TopicPartitioner{
		"sticky":      func() kgo.TopicPartitioner { return kgo.StickyPartitioner().ForTopic("t") },
		"stickykey":   func() kgo.TopicPartitioner { return kgo.StickyKeyPartitioner(nil).ForTopic("t") },
		"roundrobin":  func() kgo.TopicPartitioner { return kgo.RoundRobinPartitioner().ForTopic("t") },
		"leastbackup": func() kgo.TopicPartitioner { return kgo.LeastBackupPartitioner().ForTopic("t") },
		"uniform":     func() kgo.TopicPartitioner { return kgo.UniformBytesPartitioner(limit, false, true, nil).ForTopic("t") },
		"uniformadpt": func() kgo.TopicPartitioner { return kgo.UniformBytesPartitioner(limit, true, false, nil).ForTopic("t") },
	}
	specKind := map[string]string{"sticky": "sticky", "stickykey": "sticky", "roundrobin": "roundrobin", "leastbackup": "leastbackup", "uniform": "uniform", "uniformadpt": "uniform"}
	depth := raw.EnvInt("VERIF_DEPTH", 5)
	nmax := raw.EnvInt("VERIF_NMAX", 3)
	// VERIF_NSET (e.g. "1,2,6,12"): partition counts to enumerate over instead of 1..nmax — sparse sets let the writable
	// partition count shrink by more than one between calls
	nset := []int{}
	for i := 1; i <= nmax; i++ {
		nset = append(nset, i)
	}
	if v := os.Getenv("VERIF_NSET"); v != "" {
		nset = nset[:0]
		for _, f := range strings.Split(v, ",") {
			x, _ := strconv.Atoi(f)
			nset = append(nset, x)
		}
		nmax = len(nset)
	}
	nops := nmax + 1
	total := 1
	for i := 0; i < depth; i++ {
		total *= nops
	}
	traces, events, panics := 0, 0, 0
	for name, mk := range kinds {
		for code := 0; code < total; code++ {
			p := mk()
			enc.Encode(map[string]any{"ev": "reset", "kind": specKind[name], "name": name})
			traces++
			c := code
			for step := 0; step < depth; step++ {
				op := c % nops
				c /= nops
				if op == nmax {
					if nb, ok := p.(kgo.TopicPartitionerOnNewBatch); ok {
						nb.OnNewBatch()
					}
					enc.Encode(map[string]any{"ev": "newbatch"})
					events++
					continue
				}
				n := nset[op]
				val := make([]byte, 8+(step*5+code)%9)
				rec := &kgo.Record{Value: val}
				size := 6 + len(val)
				got := -1
				func() {
					defer func() {
						if r := recover(); r != nil {
							panics++
							got = -2
						}
					}()
					if bp, ok := p.(kgo.TopicBackupPartitioner); ok {
						b := make([]int64, n)
						for i := range b {
							b[i] = int64((step*7 + i*3 + code) % 4)
						}
						got = bp.PartitionByBackup(rec, n, &backupIter{b})
					} else {
						got = p.Partition(rec, n)
					}
				}()
				enc.Encode(map[string]any{"ev": "part", "n": n, "got": got, "size": size})
				events++
			}
		}
	}
	raw.Emit(map[string]any{"kind": "stat", "traces": traces, "events": events, "panics": panics})
}
