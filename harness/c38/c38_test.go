package c38

// Oracle evaluation (binding O1) for C38: spec/Fetches.tla generates Fetches shapes and what every
// accessor must report; this runner builds the kgo.Fetches value and compares all accessors.

import (
	"errors"
	"fmt"
	"os"
	"reflect"
	"sort"
	"testing"

	"github.com/twmb/franz-go/pkg/kgo"
	"verif/harness/raw"
)

type partIn struct {
	P   int32 `json:"p"`
	N   int   `json:"n"`
	Err bool  `json:"err"`
}
type topicIn struct {
	Topic string   `json:"topic"`
	HasID bool     `json:"hasId"`
	Parts []partIn `json:"parts"`
}
type partExp struct {
	Topic string `json:"topic"`
	P     int32  `json:"p"`
	N     int    `json:"n"`
	Err   bool   `json:"err"`
	F     int    `json:"f"`
	T     int    `json:"t"`
	Q     int    `json:"q"`
}
type topicExp struct {
	Topic string    `json:"topic"`
	HasID bool      `json:"hasId"`
	Parts []partExp `json:"parts"`
}
type caseT struct {
	In  [][]topicIn `json:"in"`
	Exp struct {
		Recs   [][]int    `json:"recs"`
		Num    int        `json:"num"`
		Empty  bool       `json:"empty"`
		Parts  []partExp  `json:"parts"`
		Topics []topicExp `json:"topics"`
		Errs   []partExp  `json:"errs"`
	} `json:"exp"`
}
type viol struct {
	Kind string `json:"kind"`
	Key  string `json:"key"`
	What string `json:"what"`
	Case int    `json:"case"`
}

func rid(f, t, q, r int) int64 { return int64(f*1000 + t*100 + q*10 + r) }
func topicID(name string) [16]byte {
	var id [16]byte
	copy(id[:], "id-"+name)
	return id
}
func pkey(f, t, q int) int64 { return int64(f*100 + t*10 + q) }

func TestOracle(t *testing.T) {
	cases, err := raw.ReadNDJSON[caseT](os.Getenv("VERIF_IN"))
	if err != nil || len(cases) == 0 {
		t.Fatalf("no cases: %v", err)
	}
	nviol, nontrivial := 0, 0
	shapes := map[string]bool{}
	for ci, c := range cases {
		report := func(key, what string) {
			nviol++
			if nviol <= 60 {
				raw.Emit(viol{"viol", key, fmt.Sprintf("%s; input %+v", what, c.In), ci})
			}
		}
		shapes[fmt.Sprintf("%+v", c.In)] = true
		if len(c.In) > 1 && c.Exp.Num > 0 {
			nontrivial++
		}
		var fs kgo.Fetches
		for fi, f := range c.In {
			var fetch kgo.Fetch
			for ti, tp := range f {
				ft := kgo.FetchTopic{Topic: tp.Topic}
				if tp.HasID {
					ft.TopicID = topicID(tp.Topic)
				}
				for qi, p := range tp.Parts {
					// HighWatermark carries the partition's identity (f,t,q) so that copies can be recognised
					fp := kgo.FetchPartition{Partition: p.P, HighWatermark: pkey(fi+1, ti+1, qi+1)}
					if p.Err {
						fp.Err = errors.New("injected")
					}
					for r := 1; r <= p.N; r++ {
						fp.Records = append(fp.Records, &kgo.Record{Topic: tp.Topic, Partition: p.P, Offset: rid(fi+1, ti+1, qi+1, r)})
					}
					ft.Partitions = append(ft.Partitions, fp)
				}
				fetch.Topics = append(fetch.Topics, ft)
			}
			fs = append(fs, fetch)
		}
		want := make([]int64, len(c.Exp.Recs))
		for i, r := range c.Exp.Recs {
			want[i] = rid(r[0], r[1], r[2], r[3])
		}
		offs := func(rs []*kgo.Record) []int64 {
			o := make([]int64, len(rs))
			for i, r := range rs {
				o[i] = r.Offset
			}
			return o
		}
		eq := func(a, b []int64) bool { return len(a) == len(b) && (len(a) == 0 || reflect.DeepEqual(a, b)) }
		var it []*kgo.Record
		for i := fs.RecordIter(); !i.Done(); {
			it = append(it, i.Next())
		}
		if !eq(offs(it), want) {
			report("RecordIter", fmt.Sprintf("RecordIter yields %v, canonical order is %v", offs(it), want))
		}
		var all []*kgo.Record
		for r := range fs.RecordsAll() {
			all = append(all, r)
		}
		if !eq(offs(all), want) {
			report("RecordsAll", fmt.Sprintf("RecordsAll yields %v, canonical order is %v", offs(all), want))
		}
		// early break must not disturb a later full iteration
		k := 0
		for range fs.RecordsAll() {
			k++
			break
		}
		var each []*kgo.Record
		fs.EachRecord(func(r *kgo.Record) { each = append(each, r) })
		if !eq(offs(each), want) {
			report("EachRecord", fmt.Sprintf("EachRecord yields %v, canonical order is %v", offs(each), want))
		}
		if got := offs(fs.Records()); !eq(got, want) {
			report("Records", fmt.Sprintf("Records() = %v, canonical order is %v", got, want))
		}
		if fs.NumRecords() != c.Exp.Num {
			report("NumRecords", fmt.Sprintf("NumRecords()=%d want %d", fs.NumRecords(), c.Exp.Num))
		}
		if fs.Empty() != c.Exp.Empty {
			report("Empty", fmt.Sprintf("Empty()=%v want %v", fs.Empty(), c.Exp.Empty))
		}
		// EachPartition: every partition exactly once
		var gotParts, wantParts []string
		fs.EachPartition(func(p kgo.FetchTopicPartition) {
			var rs []*kgo.Record
			p.EachRecord(func(r *kgo.Record) { rs = append(rs, r) })
			gotParts = append(gotParts, fmt.Sprintf("%s/%d#%d n=%d err=%v", p.Topic, p.Partition, p.HighWatermark, len(rs), p.Err != nil))
		})
		for _, p := range c.Exp.Parts {
			wantParts = append(wantParts, fmt.Sprintf("%s/%d#%d n=%d err=%v", p.Topic, p.P, pkey(p.F, p.T, p.Q), p.N, p.Err))
		}
		sort.Strings(gotParts)
		sort.Strings(wantParts)
		if !reflect.DeepEqual(gotParts, wantParts) && (len(gotParts) > 0 || len(wantParts) > 0) {
			report("EachPartition", fmt.Sprintf("EachPartition visits %v, want each of %v once", gotParts, wantParts))
		}
		// EachTopic: one call per topic, all of its partitions (across fetches) in order, topic id kept
		gotTopics := map[string][]string{}
		calls := map[string]int{}
		fs.EachTopic(func(ft kgo.FetchTopic) {
			calls[ft.Topic]++
			hasID := ft.TopicID != [16]byte{}
			if hasID && ft.TopicID != topicID(ft.Topic) {
				report("EachTopic id", fmt.Sprintf("EachTopic(%s) has a foreign topic id", ft.Topic))
			}
			s := []string{fmt.Sprintf("id=%v", hasID)}
			ft.EachPartition(func(p kgo.FetchPartition) {
				s = append(s, fmt.Sprintf("%d#%d n=%d", p.Partition, p.HighWatermark, len(p.Records)))
			})
			gotTopics[ft.Topic] = append(gotTopics[ft.Topic], s...)
		})
		wantTopics := map[string][]string{}
		for _, tp := range c.Exp.Topics {
			s := []string{fmt.Sprintf("id=%v", tp.HasID)}
			for _, p := range tp.Parts {
				s = append(s, fmt.Sprintf("%d#%d n=%d", p.P, pkey(p.F, p.T, p.Q), p.N))
			}
			wantTopics[tp.Topic] = s
		}
		for tpc, n := range calls {
			if n != 1 {
				report("EachTopic calls", fmt.Sprintf("EachTopic called %d times for topic %s", n, tpc))
			}
		}
		if !reflect.DeepEqual(gotTopics, wantTopics) && (len(gotTopics) > 0 || len(wantTopics) > 0) {
			report("EachTopic", fmt.Sprintf("EachTopic gives %v want %v", gotTopics, wantTopics))
		}
		// Errors / EachError
		var gotErrs, gotErrs2, wantErrs []string
		for _, e := range fs.Errors() {
			gotErrs = append(gotErrs, fmt.Sprintf("%s/%d", e.Topic, e.Partition))
			if e.Err == nil {
				report("Errors nil", "Errors() lists a nil error")
			}
		}
		fs.EachError(func(tp string, p int32, err error) { gotErrs2 = append(gotErrs2, fmt.Sprintf("%s/%d", tp, p)) })
		for _, p := range c.Exp.Errs {
			wantErrs = append(wantErrs, fmt.Sprintf("%s/%d", p.Topic, p.P))
		}
		if !reflect.DeepEqual(gotErrs, wantErrs) && (len(gotErrs) > 0 || len(wantErrs) > 0) {
			report("Errors", fmt.Sprintf("Errors() = %v want %v", gotErrs, wantErrs))
		}
		if !reflect.DeepEqual(gotErrs2, wantErrs) && (len(gotErrs2) > 0 || len(wantErrs) > 0) {
			report("EachError", fmt.Sprintf("EachError = %v want %v", gotErrs2, wantErrs))
		}
	}
	raw.Emit(map[string]any{"kind": "stat", "cases": len(cases), "distinct_shapes": len(shapes), "nontrivial": nontrivial, "violations": nviol})
}
